(* C13: collision search of the hybrid integrators (MERCURIUS mode 1, TRACE Kepler mode): the DIRECT loops restricted to the
   encounter map, and the condition under which every overlapping pair is inside the map. *)
From Coq Require Import List ZArith Reals Lra Lia Bool.
From RV Require Import Common.Num Common.RealNum C13.Model C13.Search.
Import ListNotations.

Section Mapped.
Context {T : Type} (N : Num T).
(* REB_COLLISION_DIRECT with N = encounter_N, Ninner = N (mode 1) or 1 (after the jump step: star only), ip = map[i], jp = map[j];
   [emap] = the first encounter_N entries of encounter_map *)
Definition search_direct_mapped (gbf : Z -> Z -> Z -> vec6 T) (ngx ngy ngz : Z) (ps : list (particle T))
           (emap : list nat) (ninner : nat) : list entry :=
  flat_map (fun a => flat_map (fun b => flat_map (fun c =>
    flat_map (fun i =>
      let ip := nth i emap O in
      let p1 := znth_p N ps ip in
      let g := gb_shift N (gbf a b c) p1 in
      flat_map (fun j =>
        let jp := nth j emap O in
        if Nat.eqb i j then []
        else if direct_test N g (pr p1) (znth_p N ps jp) then [(Z.of_nat ip, Z.of_nat jp, gbid a b c)] else [])
        (seq 0 ninner))
      (seq 0 (length emap)))
    (ring (gcol ngz))) (ring (gcol ngy))) (ring (gcol ngx)).

(* a pair of distinct map positions that passes the DIRECT test is handed over *)
Theorem mapped_complete gbf ngx ngy ngz ps emap ninner a b c i j :
  In a (ring (gcol ngx)) -> In b (ring (gcol ngy)) -> In c (ring (gcol ngz)) ->
  (i < length emap)%nat -> (j < ninner)%nat -> i <> j ->
  direct_hit N gbf ps a b c (nth i emap O) (nth j emap O) = true ->
  In (Z.of_nat (nth i emap O), Z.of_nat (nth j emap O), gbid a b c) (search_direct_mapped gbf ngx ngy ngz ps emap ninner).
Proof.
  intros Ha Hb Hc Hi Hj Hne Ht. unfold search_direct_mapped.
  apply in_flat_map. exists a. split; [exact Ha|].
  apply in_flat_map. exists b. split; [exact Hb|].
  apply in_flat_map. exists c. split; [exact Hc|].
  apply in_flat_map. exists i. split; [apply in_seq; lia|].
  apply in_flat_map. exists j. split; [apply in_seq; lia|].
  apply Nat.eqb_neq in Hne. rewrite Hne. unfold direct_hit in Ht. rewrite Ht. left. reflexivity.
Qed.
End Mapped.

Open Scope R_scope.
(* reb_mercurius_encounter_predict flags the pair (both particles enter the map) iff  rmin < 1.21 * max(dcrit_i,dcrit_j)^2
   where rmin <= every squared distance it samples (in particular the one at the end of the Kepler step).
   If every critical radius is at least c times the physical radius with 1.1 c >= 2 (the code takes c = 2, "Criteria 4"),
   a pair whose squared distance d2 is sampled and that overlaps (d2 <= (ri+rj)^2) is flagged. *)
Theorem dcrit_covers_overlap (c ri rj dci dcj d2 rmin : R) :
  2 < 11 / 10 * c -> 0 <= ri -> 0 <= rj -> c * ri <= dci -> c * rj <= dcj ->
  0 < Rmax dci dcj ->                      (* the velocity / Hill criteria make dcrit positive *)
  rmin <= d2 -> d2 <= (ri + rj) * (ri + rj) ->
  rmin < 121 / 100 * (Rmax dci dcj * Rmax dci dcj).
Proof.
  intros Hc Hi Hj Hdi Hdj Hpos Hmin Hov.
  set (D := Rmax dci dcj) in *.
  assert (HDi : dci <= D) by apply Rmax_l. assert (HDj : dcj <= D) by apply Rmax_r.
  assert (Hc0 : 0 < c) by lra.
  assert (H2D : c * (ri + rj) <= 2 * D) by lra.
  assert (Hs : ri + rj < 11 / 10 * D).
  { destruct (Rle_lt_or_eq_dec 0 (ri + rj) ltac:(lra)) as [P|Z]; [|lra].
    assert (2 * (ri + rj) < 11 / 10 * c * (ri + rj)) by (apply Rmult_lt_compat_r; lra). lra. }
  assert (Hsq : (ri + rj) * (ri + rj) < (11 / 10 * D) * (11 / 10 * D)) by (apply Rmult_le_0_lt_compat; lra).
  replace (121 / 100 * (D * D)) with ((11 / 10 * D) * (11 / 10 * D)) by field. lra.
Qed.

(* the constant the code uses: dcrit >= 2 r ("Criteria 4: physical radius"; dcrit[0] = 2 r_star) *)
Corollary dcrit_two_radii (ri rj dci dcj d2 rmin : R) :
  0 <= ri -> 0 <= rj -> 2 * ri <= dci -> 2 * rj <= dcj -> 0 < Rmax dci dcj ->
  rmin <= d2 -> d2 <= (ri + rj) * (ri + rj) ->
  rmin < 121 / 100 * (Rmax dci dcj * Rmax dci dcj).
Proof. intros H1 H2 H3 H4 H5 H6 H7. apply (dcrit_covers_overlap 2 ri rj dci dcj d2 rmin); auto; lra. Qed.

(* ... and it is tight in the radius: a particle whose critical radius fell behind its physical radius (stale dcrit)
   can overlap a partner without being flagged *)
Lemma stale_dcrit_not_flagged : exists ri rj dci dcj d2,
  0 <= ri /\ 0 <= rj /\ 0 < Rmax dci dcj /\ d2 <= (ri + rj) * (ri + rj) /\ ~ (d2 < 121 / 100 * (Rmax dci dcj * Rmax dci dcj)).
Proof.
  exists (2 / 100), (1 / 10000), (1 / 1000), (1 / 1000), (4 / 10000).
  unfold Rmax. destruct (Rle_dec (1 / 1000) (1 / 1000)); repeat split; lra.
Qed.
