(* C13: the regenerated table of functions that add a particle or change a particle's radius / mass (coq/Gen/C13Dcrit.v,
   from the current src/particle.c and src/collision.c): every one of them refreshes the MERCURIUS critical radius on every
   path (sets recalculate_r_crit_this_timestep or assigns dcrit[i]), itself or in all its callers. *)
From Coq Require Import List String Bool.
From RV Require Import Gen.C13Dcrit.
Import ListNotations.

Lemma dcrit_all_refreshed : dcrit_unrefreshed = [] /\ dcrit_sites <> [].
Proof. split; [vm_compute; reflexivity | discriminate]. Qed.

Lemma dcrit_site_refreshed : forall s, In s dcrit_sites -> snd s = true.
Proof.
  intros s Hs. destruct (snd s) eqn:E; [reflexivity|]. exfalso.
  assert (H : In (fst (fst (fst s))) dcrit_unrefreshed).
  { unfold dcrit_unrefreshed. apply (in_map (fun s0 : string * bool * bool * bool => fst (fst (fst s0)))). apply filter_In. split; [exact Hs|]. rewrite E. reflexivity. }
  rewrite (proj1 dcrit_all_refreshed) in H. exact H.
Qed.
