(* C13: the N_active bookkeeping of reb_simulation_remove_particle (decrement / clamp) never influences which particle
   sits where.  [*_na] are the model's definitions with the N_active component dropped; they coincide with the model
   for EVERY value of N_active (loop_is_na below).  Used by the refinement proofs in Fixup.v. *)
From Coq Require Import List ZArith Bool Lia ZifyBool.
From RV Require Import Common.Num C13.Model.
Import ListNotations.
Open Scope Z_scope.

Section NA.
Context {P St : Type}.
Variable pid : P -> Z.
Variable flag : P -> P.
Variable res : St -> list P -> entry -> St * list P * Z.

Definition remove_particle_na (tree keep : bool) (ps : list P) (index : Z) : list P * bool :=
  let k := Z.to_nat index in
  if (zlen ps <=? index) || (index <? 0) then (ps, false)
  else if keep && tree then (ps, false)
  else if (zlen ps =? 1) && negb tree then ([], true)
  else if keep then (firstn k ps ++ skipn (S k) ps, true)
  else if tree then
    (match nth_error ps k with Some p => upd ps k (flag p) | None => ps end, true)
  else
    let n' := (length ps - 1)%nat in
    (firstn n' (match nth_error ps n' with Some q => upd ps k q | None => ps end), true).

Definition remove_stage_na (tree keep : bool) (fx : entry -> entry) (ps : list P) (k other : Z)
  : list P * Z * (entry -> entry) :=
  let '(psx, removed) := remove_particle_na tree keep ps k in
  if removed then
    (psx, (if tree then other else remap keep k (zlen psx) other), fun e => fixup tree keep k (zlen psx) (fx e))
  else (psx, other, fx).

Fixpoint resolve_loop_na (tree keep : bool) (fx : entry -> entry) (s : St) (ps : list P) (pend : list entry)
  : St * list P * list event :=
  match pend with
  | [] => (s, ps, [])
  | e0 :: rest =>
    let '(p1, p2, gb) := fx e0 in
    if negb (p1 =? -1) && negb (p2 =? -1) then
      let '(s1, psr, o) := res s ps (p1, p2, gb) in
      let ev := (p1, p2, gb, idat pid ps p1, idat pid ps p2, o) in
      let '(ps1, p2a, fx1) := if Z.testbit o 0 then remove_stage_na tree keep fx psr p1 p2 else (psr, p2, fx) in
      let '(ps2, _, fx2) := if Z.testbit o 1 then remove_stage_na tree keep fx1 ps1 p2a p1 else (ps1, p1, fx1) in
      let '(s', psf, log) := resolve_loop_na tree keep fx2 s1 ps2 rest in
      (s', psf, ev :: log)
    else resolve_loop_na tree keep fx s ps rest
  end.

Lemma remove_particle_is_na tree keep nact ps k ps' nact' b :
  remove_particle flag tree keep nact ps k = (ps', nact', b) -> remove_particle_na tree keep ps k = (ps', b).
Proof.
  unfold remove_particle, remove_particle_na. intros H.
  destruct ((zlen ps <=? k) || (k <? 0)); [injection H as <- <- <-; auto|].
  destruct (keep && tree); [injection H as <- <- <-; auto|].
  destruct ((zlen ps =? 1) && negb tree); [injection H as <- <- <-; auto|].
  destruct keep; [injection H as <- <- <-; auto|].
  destruct tree; injection H as <- <- <-; auto.
Qed.

Lemma remove_stage_is_na tree hyb keep fx nact ps k other ps' nact' other' fx' :
  keep || hyb = keep ->
  remove_stage flag tree hyb keep fx nact ps k other = (ps', nact', other', fx') ->
  remove_stage_na tree keep fx ps k other = (ps', other', fx').
Proof.
  unfold remove_stage, remove_stage_na. intros Hk H. rewrite Hk in H.
  destruct (remove_particle flag tree keep nact ps k) as [[psx nx] b] eqn:E.
  rewrite (remove_particle_is_na _ _ _ _ _ _ _ _ E).
  destruct b; injection H as <- <- <- <-; auto.
Qed.

(* [keep || hyb = keep]: the loop's renumbering rule agrees with the discipline reb_simulation_remove_particle really uses *)
Lemma loop_k_is_na tree hyb keep : keep || hyb = keep -> forall pend fx nact s ps s' psf naf log,
  resolve_loop_k pid flag res tree hyb keep fx nact s ps pend = (s', psf, naf, log) ->
  resolve_loop_na tree keep fx s ps pend = (s', psf, log).
Proof.
  intros Hk. induction pend as [|e0 rest IH]; intros fx nact s ps s' psf naf log H; cbn [resolve_loop_k resolve_loop_na] in *.
  - injection H as <- <- <- <-. reflexivity.
  - destruct (fx e0) as [[p1 p2] g].
    destruct (negb (p1 =? -1) && negb (p2 =? -1)); [|eapply IH; eauto].
    destruct (res s ps (p1, p2, g)) as [[s1 psr] o].
    destruct (if Z.testbit o 0 then remove_stage flag tree hyb keep fx nact psr p1 p2 else (psr, nact, p2, fx))
      as [[[ps1 na1] p2a] fx1] eqn:S1.
    assert (A1 : (if Z.testbit o 0 then remove_stage_na tree keep fx psr p1 p2 else (psr, p2, fx)) = (ps1, p2a, fx1)).
    { destruct (Z.testbit o 0); [eapply remove_stage_is_na; eauto|]. injection S1 as <- <- <- <-. auto. }
    rewrite A1.
    destruct (if Z.testbit o 1 then remove_stage flag tree hyb keep fx1 na1 ps1 p2a p1 else (ps1, na1, p1, fx1))
      as [[[ps2 na2] p1x] fx2] eqn:S2.
    assert (A2 : (if Z.testbit o 1 then remove_stage_na tree keep fx1 ps1 p2a p1 else (ps1, p1, fx1)) = (ps2, p1x, fx2)).
    { destruct (Z.testbit o 1); [eapply remove_stage_is_na; eauto|]. injection S2 as <- <- <- <-. auto. }
    rewrite A2.
    destruct (resolve_loop_k pid flag res tree hyb keep fx2 na2 s1 ps2 rest) as [[[s2 psf2] naf2] log2] eqn:HL.
    rewrite (IH _ _ _ _ _ _ _ _ HL). injection H as <- <- <- <-. reflexivity.
Qed.

(* the loop as coded (the local variable is forced to 1 for the hybrid integrators): always consistent *)
Lemma loop_is_na tree hyb keepuser : forall pend fx nact s ps s' psf naf log,
  resolve_loop pid flag res tree hyb keepuser fx nact s ps pend = (s', psf, naf, log) ->
  resolve_loop_na tree (keepuser || hyb) fx s ps pend = (s', psf, log).
Proof.
  intros. unfold resolve_loop in H. eapply loop_k_is_na; [|exact H].
  destruct keepuser, hyb; reflexivity.
Qed.

(* N_active never exceeds N after a successful removal (the clamp of the unsorted branch; the decrement otherwise) *)
Lemma nact_le_N tree keep nact ps k ps' nact' :
  remove_particle flag tree keep nact ps k = (ps', nact', true) -> nact <= zlen ps -> nact' <= zlen ps'.
Proof.
  unfold remove_particle, dec_if. cbv zeta. intros H Hn.
  destruct ((zlen ps <=? k) || (k <? 0)) eqn:E1; [discriminate|].
  destruct (keep && tree); [discriminate|].
  destruct ((zlen ps =? 1) && negb tree) eqn:E3.
  { injection H as <- <-. unfold zlen in *. cbn [length]. destruct (k <? nact) eqn:E4; lia. }
  destruct keep.
  { assert (E : ps' = firstn (Z.to_nat k) ps ++ skipn (S (Z.to_nat k)) ps /\ nact' = (if k <? nact then nact - 1 else nact))
      by (injection H; intros; subst; split; reflexivity).
    destruct E as [-> ->]. unfold zlen in *. rewrite app_length, firstn_length, skipn_length.
    destruct (k <? nact) eqn:E4; lia. }
  destruct tree.
  { injection H as <- <-. destruct (nth_error ps (Z.to_nat k)); [|exact Hn].
    unfold zlen in *. assert (L : forall (l : list P) n x, length (upd l n x) = length l)
      by (induction l; intros [|n] x; cbn; auto). rewrite L. exact Hn. }
  injection H as <- <-. unfold zlen in *. rewrite firstn_length.
  assert (L : forall (l : list P) n x, length (upd l n x) = length l) by (induction l; intros [|n] x; cbn; auto).
  destruct (nth_error ps (length ps - 1)); [rewrite L|];
    destruct (nact >? Z.of_nat (length ps - 1)) eqn:E4; lia.
Qed.
End NA.
