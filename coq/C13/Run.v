(* C13: instances of the model evaluated by the correspondence check (vm_compute). *)
From Coq Require Import List ZArith Bool PrimFloat.
From RV Require Import Common.Num Common.FloatNum C13.Model.
Import ListNotations.
Open Scope Z_scope.

(* ---- (a) resolve loop driven by a recorded outcome sequence; particles = (ghost id, flagged) *)
Definition idp := (Z * bool)%type.
Definition res_outs (s : list Z) (ps : list idp) (e : entry) : list Z * list idp * Z :=
  match s with o :: s' => (s', ps, o) | [] => ([], ps, 0) end.
Definition loop_ids (tree hyb keep : bool) (nact : Z) (ids : list Z) (pend : list entry) (outs : list Z)
  : list event * list idp * Z :=
  let '(_, psf, naf, log) :=
    resolve_loop (fun p : idp => fst p) (fun p : idp => (fst p, true)) res_outs tree hyb keep (fun e => e) nact
                 outs (map (fun i => (i, false)) ids) pend in
  (log, psf, naf).

Definition ev_eqb (a b : event) : bool :=
  let '(a1, a2, a3, a4, a5, a6) := a in let '(b1, b2, b3, b4, b5, b6) := b in
  (a1 =? b1) && (a2 =? b2) && (a3 =? b3) && (a4 =? b4) && (a5 =? b5) && (a6 =? b6).
Fixpoint list_eqb {A} (eq : A -> A -> bool) (a b : list A) : bool :=
  match a, b with
  | [], [] => true
  | x :: r, y :: s => eq x y && list_eqb eq r s
  | _, _ => false
  end.
Definition idp_eqb (a b : idp) : bool := (fst a =? fst b) && Bool.eqb (snd a) (snd b).
Definition entry_eqb (a b : entry) : bool :=
  let '(a1, a2, a3) := a in let '(b1, b2, b3) := b in (a1 =? b1) && (a2 =? b2) && (a3 =? b3).

(* one loop case: inputs (tree, hybrid integrator, keep_sorted, N_active, ids, pending array, outcomes) and what the library logged /
   left behind (final particle order with flags, final N_active) *)
Definition loop_case := (bool * bool * bool * Z * list Z * list entry * list Z * list event * list idp * Z)%type.
Definition loop_ok (c : loop_case) : bool :=
  let '(tree, hyb, keep, nact, ids, pend, outs, elog, efin, enact) := c in
  let '(log, fin, naf) := loop_ids tree hyb keep nact ids pend outs in
  list_eqb ev_eqb log elog && list_eqb idp_eqb fin efin && (naf =? enact).

Fixpoint bad_from {A} (ok : A -> bool) (n : nat) (l : list A) : list nat :=
  match l with
  | [] => []
  | c :: r => if ok c then bad_from ok (S n) r else n :: bad_from ok (S n) r
  end.
Definition bad_loop_cases (l : list loop_case) : list nat := bad_from loop_ok 0 l.

(* ---- (b) search + shuffle at binary64 *)
Definition fp := particle float.
Definition mkF (x y z vx vy vz m r lc : float) (h : Z) : fp := mkP x y z vx vy vz m r lc h.

(* periodic/open ghost boxes with N_ghost = (ngx,ngy,ngz), box sizes bx by bz *)
Definition pending_direct (bx by_ bz : float) (ngx ngy ngz : Z) (seed : Z) (ps : list fp) : list entry :=
  fst (shuffle seed (search_direct FNum (gb_periodic FNum bx by_ bz) ngx ngy ngz ps)).
Definition pending_line (bx by_ bz : float) (ngx ngy ngz : Z) (dt : float) (seed : Z) (ps : list fp) : list entry :=
  fst (shuffle seed (search_line FNum (gb_periodic FNum bx by_ bz) ngx ngy ngz dt ps)).

Definition search_case := (list entry * list entry)%type.     (* model value, library value *)
Definition search_ok (c : search_case) : bool := list_eqb entry_eqb (fst c) (snd c).
Definition bad_search_cases (l : list search_case) : list nat := bad_from search_ok 0 l.

(* ---- (c) whole reb_collision_search with the merge resolver (DIRECT, no tree).  Resolver state: the libm cbrt
   results still to be consumed and (max_radius0, max_radius1), which a successful merge updates with the new radius. *)
Definition mst := (list float * (float * float))%type.
Definition res_merge (t : float) (s : mst) (ps : list fp) (e : entry) : mst * list fp * Z :=
  let '(p1, p2, _) := e in
  let '(cbs, mr) := s in
  match cbs with
  | cb :: cbs' => let '(ps', o) := merge FNum t cb ps p1 p2 in
                  if o =? 0 then (s, ps', o) else ((cbs', add_radius_num FNum mr cb), ps', o)
  | [] => let '(ps', o) := merge FNum t PrimFloat.nan ps p1 p2 in (s, ps', o)
  end.
Definition fl_p (p : fp) : list float := [px p; py p; pz p; pvx p; pvy p; pvz p; pm p; pr p; plc p].
Definition flagF (p : fp) : fp := mkP (px p) PrimFloat.nan (pz p) (pvx p) (pvy p) (pvz p) (pm p) (pr p) (plc p) (phash p).

(* mr0 = (max_radius0, max_radius1) before the search (their bookkeeping under reb_simulation_add is tied in (e)).
   output: log, final hashes, all particle doubles followed by max_radius0, max_radius1 and N_active *)
Definition merge_search (keep : bool) (nact : Z) (bx by_ bz : float) (ngx ngy ngz : Z) (seed : Z) (t : float)
           (mr0 : float * float) (cbs : list float) (ps : list fp) : list event * list Z * list float :=
  let pend := pending_direct bx by_ bz ngx ngy ngz seed ps in
  let '((_, (m0, m1)), psf, naf, log) :=
    resolve_loop (fun p : fp => phash p) flagF (res_merge t) false false keep (fun e => e) nact (cbs, mr0) ps pend in
  (log, map (fun p : fp => phash p) psf ++ [naf], flat_map fl_p psf ++ [m0; m1]).

Definition merge_case := ((list event * list Z * list float) * (list event * list Z * list float))%type.
Definition merge_ok (c : merge_case) : bool :=
  let '((l1, h1, f1), (l2, h2, f2)) := c in
  list_eqb ev_eqb l1 l2 && list_eqb Z.eqb h1 h2 && same_list f1 f2.
Definition bad_merge_cases (l : list merge_case) : list nat := bad_from merge_ok 0 l.

(* ---- (d) whole reb_collision_search with the hardsphere resolver (DIRECT, no tree) *)
Definition gb_of_id (bx by_ bz : float) (id : Z) : vec6 float :=
  gb_periodic FNum bx by_ bz (id / 9 - 1) ((id / 3) mod 3 - 1) (id mod 3 - 1).
Definition orc := (float * float * float * float)%type.   (* sin theta, cos theta, sin phi, cos phi *)
Definition res_hs (bx by_ bz t eps mcv : float) (s : list orc) (ps : list fp) (e : entry) : list orc * list fp * Z :=
  let '(p1, p2, g) := e in
  match s, zth ps p1, zth ps p2 with
  | (st, ct, sp, cp) :: s', Some a, Some b =>
      match hardsphere FNum t eps mcv st ct sp cp (gb_of_id bx by_ bz g) a b with
      | Some (a', b') => (s', upd (upd ps (Z.to_nat p2) b') (Z.to_nat p1) a', 0)
      | None => (s', ps, 0)
      end
  | _, _, _ => (s, ps, 0)
  end.
Definition hs_search (bx by_ bz : float) (ngx ngy ngz : Z) (seed : Z) (t eps mcv : float)
           (orcs : list orc) (ps : list fp) : list event * list Z * list float :=
  let pend := pending_direct bx by_ bz ngx ngy ngz seed ps in
  let '(_, psf, _, log) := resolve_loop (fun p : fp => phash p) flagF (res_hs bx by_ bz t eps mcv) false false false (fun e => e) (-1) orcs ps pend in
  (log, map (fun p : fp => phash p) psf, flat_map fl_p psf).

(* ---- (e) max_radius bookkeeping after adding particles with the given radii to a fresh simulation *)
Definition radii_fold (rs : list float) : list float :=
  let '(m0, m1) := fold_left (add_radius_num FNum) rs (PrimFloat.zero, PrimFloat.zero) in [m0; m1].

(* ---- (f) tree walks at binary64 on a dumped tree, followed by the shuffle *)
From RV Require Import C13.TreeModel.
Definition pending_tree (bx by_ bz : float) (ngx ngy ngz : Z) (seed : Z) (mr1 : float) (ps : list fp)
           (roots : list (option (gcell float))) : list entry :=
  fst (shuffle seed (search_tree FNum (kappa_lit FNum) (gb_periodic FNum bx by_ bz) ngx ngy ngz mr1 ps roots)).
Definition pending_linetree (bx by_ bz : float) (ngx ngy ngz : Z) (dt : float) (seed : Z) (mr1 : float) (ps : list fp)
           (roots : list (option (gcell float))) : list entry :=
  fst (shuffle seed (search_linetree FNum (kappa_lit FNum) (gb_periodic FNum bx by_ bz) ngx ngy ngz mr1 dt ps roots)).

(* ---- (g) C15's proved-sound checker on the same dumped forest in exact integer units: establishes the hypothesis
   (gwf via C13_tree_wf_from_C15) under which the walk theorems speak about the tree walked in (f) *)
From RV Require C15.Tree.
Definition wf_forest_case (u : Z) (pos : list (Z * Z * Z)) (L N : nat) (roots : list ((Z * Z * Z) * C15.Tree.dcell)) : bool :=
  C15.Tree.forest_b u (fun i => nth i pos (0, 0, 0)) L N roots.
Definition bad_bool_cases (l : list bool) : list nat := bad_from (fun b : bool => b) 0 l.

(* ---- (h) DIRECT search restricted to an encounter map (MERCURIUS mode 0/1, TRACE modes), binary64 + shuffle *)
From RV Require Import C13.Hybrid.
Definition pending_mapped (bx by_ bz : float) (ngx ngy ngz : Z) (seed : Z) (ps : list fp) (emap : list nat) (ninner : nat) : list entry :=
  fst (shuffle seed (search_direct_mapped FNum (gb_periodic FNum bx by_ bz) ngx ngy ngz ps emap ninner)).
