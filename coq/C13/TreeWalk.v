(* C13: the tree walks of TREE / LINETREE report exactly the pairs of DIRECT / LINE on well-formed trees (over R). *)
From Coq Require Import List ZArith Reals Lra Lia Bool.
From RV Require Import Common.Num Common.RealNum C13.Model C13.TreeModel C13.Search C13.Line C13.Tree.
Import ListNotations.
Open Scope R_scope.

(* ------------------------------------------------------------------ generic facts about gcell *)
Lemma in_flat_opt {A B} (f : A -> list B) (l : list (option A)) e :
  In e (flat_map (fun o => match o with None => [] | Some d => f d end) l) <-> exists d, In (Some d) l /\ In e (f d).
Proof.
  rewrite in_flat_map. split.
  - intros ([d|] & Hi & He); [exists d; auto|contradiction].
  - intros (d & Hi & He). exists (Some d). auto.
Qed.

Fixpoint gdepth {T} (t : gcell T) : nat :=
  match t with
  | GL _ => O
  | GN _ _ _ _ oct => S (fold_right (fun o m => Nat.max (match o with None => O | Some d => gdepth d end) m) O oct)
  end.
Lemma gdepth_child {T} (x y z w : T) oct d : In (Some d) oct -> (gdepth d < gdepth (GN x y z w oct))%nat.
Proof.
  cbn [gdepth]. induction oct as [|o r IH]; intros H; [contradiction|]. cbn [fold_right].
  destruct H as [->|H]; [lia|]. specialize (IH H). lia.
Qed.

(* ------------------------------------------------------------------ well-formedness seen by the walks *)
Definition in_cube (x y z w : R) (q : particle R) : Prop :=
  - (w / 2) <= px q - x <= w / 2 /\ - (w / 2) <= py q - y <= w / 2 /\ - (w / 2) <= pz q - z <= w / 2.

(* every particle below a non-leaf cell lies in the closed cube of that cell; widths are in [0, Wmax] *)
Fixpoint gwf (ps : list (particle R)) (Wmax : R) (t : gcell R) : Prop :=
  match t with
  | GL _ => True
  | GN x y z w oct =>
      0 <= w <= Wmax /\
      (forall p, In p (gleaves (GN x y z w oct)) -> in_cube x y z w (znth_p RNum ps p)) /\
      (fix go (l : list (option (gcell R))) : Prop :=
         match l with
         | [] => True
         | o :: r => match o with None => True | Some d => gwf ps Wmax d end /\ go r
         end) oct
  end.
Lemma gwf_child ps W x y z w oct d : gwf ps W (GN x y z w oct) -> In (Some d) oct -> gwf ps W d.
Proof.
  cbn [gwf]. intros (_ & _ & H). induction oct as [|o r IH]; intros Hi; [contradiction|].
  destruct H as [H1 H2]. destruct Hi as [->|Hi]; [exact H1|auto].
Qed.

Lemma nrm_zero a b c : nrm (a - a) (b - b) (c - c) = 0.
Proof. unfold nrm. replace ((a - a) * (a - a) + (b - b) * (b - b) + (c - c) * (c - c)) with 0 by ring. apply sqrt_0. Qed.

Lemma descend_false_pruned kap g reach x y z w :
  0 <= reach + kap * w -> descend RNum kap g reach x y z w = false ->
  reach + kap * w <= nrm (gx g - x) (gy g - y) (gz g - z).
Proof.
  unfold descend. cbn [nadd nsub nmul nltb RNum]. unfold Rltb. intros Hp H.
  destruct (Rlt_dec _ _) as [L|L]; [discriminate|]. apply pruned_distance; assumption.
Qed.

(* ------------------------------------------------------------------ TREE *)
Section TreeWalk.
Variables (kap : R) (ps : list (particle R)) (W : R) (i : nat) (g : vec6 R) (gid : Z) (p1r mr1 : R).

Lemma tree_walk_sound : forall t e, In e (tree_walk RNum kap ps i g gid p1r (p1r + mr1) t) ->
  exists j, e = (Z.of_nat i, Z.of_nat j, gid) /\ In j (gleaves t) /\ j <> i /\
            direct_test RNum g p1r (znth_p RNum ps j) = true.
Proof.
  intros t. remember (gdepth t) as n eqn:En. revert t En.
  induction n as [n IH] using lt_wf_ind. intros [p|x y z w oct] En e H; cbn [tree_walk] in H.
  - destruct (Nat.eqb p i) eqn:E; [contradiction|]. apply Nat.eqb_neq in E.
    destruct (direct_test RNum g p1r (znth_p RNum ps p)) eqn:Et; [|contradiction].
    destruct H as [<-|[]]. exists p. cbn. auto.
  - destruct (descend RNum kap g (p1r + mr1) x y z w); [|contradiction].
    apply in_flat_opt in H. destruct H as (d & Hd & He).
    destruct (IH (gdepth d) ltac:(subst n; apply gdepth_child; exact Hd) d eq_refl e He) as (j & E1 & E2 & E3).
    exists j. split; [exact E1|]. split; [|exact E3]. cbn [gleaves]. apply in_flat_opt. exists d. auto.
Qed.

Lemma tree_walk_complete : forall t j,
  gwf ps W t -> In j (gleaves t) -> j <> i ->
  direct_test RNum g p1r (znth_p RNum ps j) = true ->
  0 <= p1r -> 0 <= mr1 -> 0 <= kap -> pr (znth_p RNum ps j) <= mr1 ->
  (forall w, 0 <= w <= W ->
     nrm (gx g - px (znth_p RNum ps j)) (gy g - py (znth_p RNum ps j)) (gz g - pz (znth_p RNum ps j))
       < p1r + pr (znth_p RNum ps j) - (sqrt 3 / 2 - kap) * w) ->
  In (Z.of_nat i, Z.of_nat j, gid) (tree_walk RNum kap ps i g gid p1r (p1r + mr1) t).
Proof.
  intros t. remember (gdepth t) as n eqn:En. revert t En.
  induction n as [n IH] using lt_wf_ind. intros [p|x y z w oct] En j Hwf Hj Hne Ht H1 H2 H3 Hr Hm; cbn [tree_walk].
  - cbn in Hj. destruct Hj as [->|[]]. apply Nat.eqb_neq in Hne. rewrite Hne, Ht. left. reflexivity.
  - pose proof Hwf as Hwf'. cbn [gwf] in Hwf'. destruct Hwf' as (Hw & Hin & _).
    destruct (descend RNum kap g (p1r + mr1) x y z w) eqn:Ed.
    + cbn [gleaves] in Hj. apply in_flat_opt in Hj. destruct Hj as (d & Hd & Hjd).
      apply in_flat_opt. exists d. split; [exact Hd|].
      apply (IH (gdepth d) ltac:(subst n; apply gdepth_child; exact Hd) d eq_refl j); auto.
      eapply gwf_child; eauto.
    + exfalso.
      assert (Hp : 0 <= p1r + mr1 + kap * w) by (assert (0 <= kap * w) by (apply Rmult_le_pos; lra); lra).
      pose proof (descend_false_pruned _ _ _ _ _ _ _ Hp Ed) as Hd.
      destruct (Hin j Hj) as (Cx & Cy & Cz).
      set (q := znth_p RNum ps j) in *.
      pose proof (prune_general kap (gx g) (gy g) (gz g) x y z w (px q) (py q) (pz q)
                    (gx g) (gy g) (gz g) (px q) (py q) (pz q) p1r mr1 (pr q) 0 0
                    (proj1 Hw) Cx Cy Cz) as PG.
      rewrite !nrm_zero in PG. specialize (PG (Rle_refl 0) (Rle_refl 0) Hr).
      assert (PG' : p1r + pr q - (sqrt 3 / 2 - kap) * w <= nrm (gx g - px q) (gy g - py q) (gz g - pz q)) by (apply PG; lra).
      specialize (Hm w Hw). lra.
Qed.
End TreeWalk.

(* ------------------------------------------------------------------ the loops around the walks (every arithmetic) *)
Section EnumTree.
Context {T : Type} (N : Num T).
Theorem tree_enumerates kap gbf ngx ngy ngz mr1 ps roots e :
  In e (search_tree N kap gbf ngx ngy ngz mr1 ps roots) <->
  exists i a b c t,
    (i < length ps)%nat /\ In a (ring (gcol ngx)) /\ In b (ring (gcol ngy)) /\ In c (ring (gcol ngz)) /\
    In (Some t) roots /\
    In e (tree_walk N kap ps i (gb_shift N (gbf a b c) (znth_p N ps i)) (gbid a b c) (pr (znth_p N ps i))
                    (nadd N (pr (znth_p N ps i)) mr1) t).
Proof.
  unfold search_tree. split.
  - intros H. apply in_flat_map in H. destruct H as (i & Hi & H). apply in_seq in Hi.
    apply in_flat_map in H. destruct H as (a & Ha & H).
    apply in_flat_map in H. destruct H as (b & Hb & H).
    apply in_flat_map in H. destruct H as (c & Hc & H).
    apply in_flat_opt in H. destruct H as (t & Ht & H).
    exists i, a, b, c, t. repeat split; auto; lia.
  - intros (i & a & b & c & t & Hi & Ha & Hb & Hc & Ht & H).
    apply in_flat_map. exists i. split; [apply in_seq; lia|].
    apply in_flat_map. exists a. split; [exact Ha|].
    apply in_flat_map. exists b. split; [exact Hb|].
    apply in_flat_map. exists c. split; [exact Hc|].
    apply in_flat_opt. exists t. auto.
Qed.

Theorem linetree_enumerates kap gbf ngx ngy ngz mr1 dt ps roots e :
  In e (search_linetree N kap gbf ngx ngy ngz mr1 dt ps roots) <->
  exists i a b c t,
    (i < length ps)%nat /\ In a (ring (gcol ngx)) /\ In b (ring (gcol ngy)) /\ In c (ring (gcol ngz)) /\
    In (Some t) roots /\
    In e (linetree_walk N kap dt ps i (gb_shift N (gbf a b c) (znth_p N ps i)) (gbid a b c) (pr (znth_p N ps i))
            (nadd N (nadd N (nadd N (pr (znth_p N ps i)) (nmul N (nabs N dt) (nsqrt N (speed2 N (znth_p N ps i))))) mr1)
                    (nmul N (nabs N dt) (nsqrt N (vmax2_of N ps)))) t).
Proof.
  unfold search_linetree. split.
  - intros H. apply in_flat_map in H. destruct H as (i & Hi & H). apply in_seq in Hi.
    apply in_flat_map in H. destruct H as (a & Ha & H).
    apply in_flat_map in H. destruct H as (b & Hb & H).
    apply in_flat_map in H. destruct H as (c & Hc & H).
    apply in_flat_opt in H. destruct H as (t & Ht & H).
    exists i, a, b, c, t. repeat split; auto; lia.
  - intros (i & a & b & c & t & Hi & Ha & Hb & Hc & Ht & H).
    apply in_flat_map. exists i. split; [apply in_seq; lia|].
    apply in_flat_map. exists a. split; [exact Ha|].
    apply in_flat_map. exists b. split; [exact Hb|].
    apply in_flat_map. exists c. split; [exact Hc|].
    apply in_flat_opt. exists t. auto.
Qed.
End EnumTree.

(* the forest: every root is well-formed and mentions only existing particles *)
Definition forest_ok (ps : list (particle R)) (W : R) (roots : list (option (gcell R))) : Prop :=
  forall t, In (Some t) roots -> gwf ps W t /\ forall p, In p (gleaves t) -> (p < length ps)%nat.

(* SOUNDNESS: TREE reports only pairs that DIRECT reports *)
Theorem tree_subset_direct kap gbf ngx ngy ngz mr1 ps W roots e :
  forest_ok ps W roots ->
  In e (search_tree RNum kap gbf ngx ngy ngz mr1 ps roots) -> In e (search_direct RNum gbf ngx ngy ngz ps).
Proof.
  intros Hf H. apply tree_enumerates in H. destruct H as (i & a & b & c & t & Hi & Ha & Hb & Hc & Ht & H).
  apply tree_walk_sound in H. destruct H as (j & -> & Hj & Hne & Htest).
  apply direct_enumerates. exists a, b, c, i, j. repeat split; auto.
  exact (proj2 (Hf t Ht) j Hj).
Qed.

(* COMPLETENESS: a pair DIRECT reports is reported by TREE when the partner is in the forest, its radius is covered
   by max_radius1 and the overlap is deeper than the shortfall (sqrt3/2 - kap) w of the pruning constant *)
Theorem direct_subset_tree kap gbf ngx ngy ngz mr1 ps W roots a b c i j t :
  forest_ok ps W roots -> In (Some t) roots -> In j (gleaves t) ->
  In (Z.of_nat i, Z.of_nat j, gbid a b c) (search_direct RNum gbf ngx ngy ngz ps) ->
  In a (ring (gcol ngx)) -> In b (ring (gcol ngy)) -> In c (ring (gcol ngz)) -> (i < length ps)%nat -> i <> j ->
  direct_hit RNum gbf ps a b c i j = true ->
  0 <= pr (znth_p RNum ps i) -> 0 <= mr1 -> 0 <= kap -> pr (znth_p RNum ps j) <= mr1 ->
  (let g := gb_shift RNum (gbf a b c) (znth_p RNum ps i) in let q := znth_p RNum ps j in
   forall w, 0 <= w <= W ->
     nrm (gx g - px q) (gy g - py q) (gz g - pz q) < pr (znth_p RNum ps i) + pr q - (sqrt 3 / 2 - kap) * w) ->
  In (Z.of_nat i, Z.of_nat j, gbid a b c) (search_tree RNum kap gbf ngx ngy ngz mr1 ps roots).
Proof.
  intros Hf Ht Hj _ Ha Hb Hc Hi Hne Hhit H1 H2 H3 Hr Hm.
  apply tree_enumerates. exists i, a, b, c, t. repeat split; auto.
  cbn [nadd RNum]. eapply tree_walk_complete; eauto. exact (proj1 (Hf t Ht)).
Qed.

(* ------------------------------------------------------------------ LINETREE *)
Lemma nrm_scale k a b c : nrm (k * a) (k * b) (k * c) = Rabs k * nrm a b c.
Proof.
  unfold nrm. replace (k * a * (k * a) + k * b * (k * b) + k * c * (k * c)) with (Rsqr k * (a * a + b * b + c * c)) by (unfold Rsqr; ring).
  rewrite sqrt_mult; [|apply Rle_0_sqr|nra]. rewrite sqrt_Rsqr_abs. reflexivity.
Qed.
Lemma drift_bound s dt vx vy vz D : 0 <= s <= 1 -> Rabs dt * nrm vx vy vz <= D ->
  nrm (s * dt * vx) (s * dt * vy) (s * dt * vz) <= D.
Proof.
  intros Hs HD. rewrite nrm_scale. rewrite Rabs_mult, (Rabs_right s) by lra.
  pose proof (Rabs_pos dt). pose proof (nrm_pos vx vy vz).
  assert (s * Rabs dt * nrm vx vy vz <= 1 * (Rabs dt * nrm vx vy vz)).
  { rewrite Rmult_assoc. apply Rmult_le_compat_r; [apply Rmult_le_pos; assumption|lra]. }
  lra.
Qed.

Section LineTreeWalk.
Variables (kap dt : R) (ps : list (particle R)) (W : R) (i : nat) (g : vec6 R) (gid : Z) (p1r reach : R).

Lemma linetree_walk_sound : forall t e, In e (linetree_walk RNum kap dt ps i g gid p1r reach t) ->
  exists j, e = (Z.of_nat i, Z.of_nat j, gid) /\ In j (gleaves t) /\ j <> i /\
            line_test RNum dt g p1r (znth_p RNum ps j) = true.
Proof.
  intros t. remember (gdepth t) as n eqn:En. revert t En.
  induction n as [n IH] using lt_wf_ind. intros [p|x y z w oct] En e H; cbn [linetree_walk] in H.
  - destruct (Nat.eqb p i) eqn:E; [contradiction|]. apply Nat.eqb_neq in E.
    destruct (line_test RNum dt g p1r (znth_p RNum ps p)) eqn:Et; [|contradiction].
    destruct H as [<-|[]]. exists p. cbn. auto.
  - destruct (descend RNum kap g reach x y z w); [|contradiction].
    apply in_flat_opt in H. destruct H as (d & Hd & He).
    destruct (IH (gdepth d) ltac:(subst n; apply gdepth_child; exact Hd) d eq_refl e He) as (j & E1 & E2 & E3).
    exists j. split; [exact E1|]. split; [|exact E3]. cbn [gleaves]. apply in_flat_opt. exists d. auto.
Qed.

(* D1 bounds the drift of p1 (with the ghost-box velocity), D2 the drift of the partner; reach covers both *)
Lemma linetree_walk_complete : forall t j mr1 D1 D2 s,
  gwf ps W t -> In j (gleaves t) -> j <> i ->
  line_test RNum dt g p1r (znth_p RNum ps j) = true ->
  0 <= p1r -> 0 <= mr1 -> 0 <= kap -> 0 <= D1 -> 0 <= D2 -> pr (znth_p RNum ps j) <= mr1 ->
  p1r + D1 + mr1 + D2 <= reach ->
  Rabs dt * nrm (gvx g) (gvy g) (gvz g) <= D1 ->
  Rabs dt * nrm (pvx (znth_p RNum ps j)) (pvy (znth_p RNum ps j)) (pvz (znth_p RNum ps j)) <= D2 ->
  0 <= s <= 1 ->
  (forall w, 0 <= w <= W ->
     sqrt (dist2_at dt g (znth_p RNum ps j) s) < p1r + pr (znth_p RNum ps j) - (sqrt 3 / 2 - kap) * w) ->
  In (Z.of_nat i, Z.of_nat j, gid) (linetree_walk RNum kap dt ps i g gid p1r reach t).
Proof.
  intros t. remember (gdepth t) as n eqn:En. revert t En.
  induction n as [n IH] using lt_wf_ind.
  intros [p|x y z w oct] En j mr1 D1 D2 s Hwf Hj Hne Ht H1 H2 H3 HD1 HD2 Hr Hreach Hv1 Hv2 Hs Hm; cbn [linetree_walk].
  - cbn in Hj. destruct Hj as [->|[]]. apply Nat.eqb_neq in Hne. rewrite Hne, Ht. left. reflexivity.
  - pose proof Hwf as Hwf'. cbn [gwf] in Hwf'. destruct Hwf' as (Hw & Hin & _).
    destruct (descend RNum kap g reach x y z w) eqn:Ed.
    + cbn [gleaves] in Hj. apply in_flat_opt in Hj. destruct Hj as (d & Hd & Hjd).
      apply in_flat_opt. exists d. split; [exact Hd|].
      apply (IH (gdepth d) ltac:(subst n; apply gdepth_child; exact Hd) d eq_refl j mr1 D1 D2 s); auto.
      eapply gwf_child; eauto.
    + exfalso.
      assert (Hkw : 0 <= kap * w) by (apply Rmult_le_pos; lra).
      assert (Hp : 0 <= reach + kap * w) by lra.
      pose proof (descend_false_pruned _ _ _ _ _ _ _ Hp Ed) as Hd.
      destruct (Hin j Hj) as (Cx & Cy & Cz).
      set (q := znth_p RNum ps j) in *.
      pose proof (prune_general kap (gx g) (gy g) (gz g) x y z w (px q) (py q) (pz q)
                    (gx g - s * dt * gvx g) (gy g - s * dt * gvy g) (gz g - s * dt * gvz g)
                    (px q - s * dt * pvx q) (py q - s * dt * pvy q) (pz q - s * dt * pvz q)
                    p1r mr1 (pr q) D1 D2 (proj1 Hw) Cx Cy Cz) as PG.
      replace (gx g - (gx g - s * dt * gvx g)) with (s * dt * gvx g) in PG by ring.
      replace (gy g - (gy g - s * dt * gvy g)) with (s * dt * gvy g) in PG by ring.
      replace (gz g - (gz g - s * dt * gvz g)) with (s * dt * gvz g) in PG by ring.
      replace (px q - s * dt * pvx q - px q) with (- s * dt * pvx q) in PG by ring.
      replace (py q - s * dt * pvy q - py q) with (- s * dt * pvy q) in PG by ring.
      replace (pz q - s * dt * pvz q - pz q) with (- s * dt * pvz q) in PG by ring.
      assert (B1 : nrm (s * dt * gvx g) (s * dt * gvy g) (s * dt * gvz g) <= D1) by (apply drift_bound; assumption).
      assert (B2 : nrm (- s * dt * pvx q) (- s * dt * pvy q) (- s * dt * pvz q) <= D2).
      { replace (- s * dt * pvx q) with (s * (- dt) * pvx q) by ring.
        replace (- s * dt * pvy q) with (s * (- dt) * pvy q) by ring.
        replace (- s * dt * pvz q) with (s * (- dt) * pvz q) by ring.
        apply drift_bound; [assumption|]. rewrite Rabs_Ropp. exact Hv2. }
      specialize (PG B1 B2 Hr).
      assert (PG' : p1r + pr q - (sqrt 3 / 2 - kap) * w
                    <= nrm (gx g - s * dt * gvx g - (px q - s * dt * pvx q)) (gy g - s * dt * gvy g - (py q - s * dt * pvy q))
                           (gz g - s * dt * gvz g - (pz q - s * dt * pvz q))) by (apply PG; lra).
      assert (E : nrm (gx g - s * dt * gvx g - (px q - s * dt * pvx q)) (gy g - s * dt * gvy g - (py q - s * dt * pvy q))
                      (gz g - s * dt * gvz g - (pz q - s * dt * pvz q)) = sqrt (dist2_at dt g q s)).
      { unfold nrm, dist2_at. f_equal. ring. }
      rewrite E in PG'. specialize (Hm w Hw). lra.
Qed.
End LineTreeWalk.

(* the running maximum of the squared speeds bounds every particle's squared speed *)
Lemma vmax2_ge ps : forall q, In q ps -> speed2 RNum q <= vmax2_of RNum ps.
Proof.
  unfold vmax2_of.
  assert (G : forall l m, m <= fold_left (fun m p => cmax RNum m (speed2 RNum p)) l m /\
                          forall q, In q l -> speed2 RNum q <= fold_left (fun m p => cmax RNum m (speed2 RNum p)) l m).
  { induction l as [|p l IH]; intros m; cbn [fold_left]; [split; [lra|contradiction]|].
    destruct (IH (cmax RNum m (speed2 RNum p))) as [I1 I2].
    assert (C : m <= cmax RNum m (speed2 RNum p) /\ speed2 RNum p <= cmax RNum m (speed2 RNum p)).
    { unfold cmax. cbn [nltb RNum]. unfold Rltb. destruct (Rlt_dec (speed2 RNum p) m); lra. }
    split; [lra|]. intros q [<-|Hq]; [lra|auto]. }
  intros q Hq. exact (proj2 (G ps 0) q Hq).
Qed.

Lemma nth_d_In {A} (d : A) : forall l j, (j < length l)%nat -> In (nth_d d l j) l.
Proof. induction l as [|x l IH]; intros [|j] H; cbn in *; try lia; auto. right. apply IH. lia. Qed.

(* SOUNDNESS: every pair LINETREE reports passes the LINE test (LINETREE reports both orientations; LINE only i<j) *)
Theorem linetree_subset_line kap gbf ngx ngy ngz mr1 dt ps W roots e :
  forest_ok ps W roots ->
  In e (search_linetree RNum kap gbf ngx ngy ngz mr1 dt ps roots) ->
  exists a b c i j, e = (Z.of_nat i, Z.of_nat j, gbid a b c) /\ i <> j /\ (i < length ps)%nat /\ (j < length ps)%nat /\
    line_hit RNum gbf dt ps a b c i j = true /\
    ((i < j)%nat -> In e (search_line RNum gbf ngx ngy ngz dt ps)).
Proof.
  intros Hf H. apply linetree_enumerates in H. destruct H as (i & a & b & c & t & Hi & Ha & Hb & Hc & Ht & H).
  apply linetree_walk_sound in H. destruct H as (j & -> & Hj & Hne & Htest).
  pose proof (proj2 (Hf t Ht) j Hj) as Hjn.
  exists a, b, c, i, j. repeat split; auto.
  intros Hlt. apply line_enumerates. exists a, b, c, i, j. repeat split; auto.
Qed.

(* COMPLETENESS: a pair LINE reports is reported by LINETREE (ghost boxes without velocity, i.e. open/periodic) when the
   partner is in the forest, its radius is covered by max_radius1 and the closest approach is deeper than the shortfall *)
Theorem line_subset_linetree kap gbf ngx ngy ngz mr1 dt ps W roots a b c i j t s :
  forest_ok ps W roots -> In (Some t) roots -> In j (gleaves t) ->
  (forall a b c, gvx (gbf a b c) = 0 /\ gvy (gbf a b c) = 0 /\ gvz (gbf a b c) = 0) ->
  In a (ring (gcol ngx)) -> In b (ring (gcol ngy)) -> In c (ring (gcol ngz)) -> (i < length ps)%nat -> i <> j ->
  line_hit RNum gbf dt ps a b c i j = true ->
  0 <= pr (znth_p RNum ps i) -> 0 <= mr1 -> 0 <= kap -> pr (znth_p RNum ps j) <= mr1 ->
  0 <= s <= 1 ->
  (let g := gb_shift RNum (gbf a b c) (znth_p RNum ps i) in let q := znth_p RNum ps j in
   forall w, 0 <= w <= W -> sqrt (dist2_at dt g q s) < pr (znth_p RNum ps i) + pr q - (sqrt 3 / 2 - kap) * w) ->
  In (Z.of_nat i, Z.of_nat j, gbid a b c) (search_linetree RNum kap gbf ngx ngy ngz mr1 dt ps roots).
Proof.
  intros Hf Ht Hj Hgv Ha Hb Hc Hi Hne Hhit H1 H2 H3 Hr Hs Hm.
  apply linetree_enumerates. exists i, a, b, c, t. repeat split; auto.
  pose proof (proj2 (Hf t Ht) j Hj) as Hjn.
  set (p1 := znth_p RNum ps i) in *. set (q := znth_p RNum ps j) in *.
  cbn [nadd nmul nabs nsqrt RNum].
  pose proof (Rabs_pos dt) as Hdt.
  eapply (linetree_walk_complete kap dt ps W i _ _ _ _ t j mr1
            (Rabs dt * sqrt (speed2 RNum p1)) (Rabs dt * sqrt (vmax2_of RNum ps)) s); eauto.
  - exact (proj1 (Hf t Ht)).
  - apply Rmult_le_pos; [exact Hdt|apply sqrt_pos].
  - apply Rmult_le_pos; [exact Hdt|apply sqrt_pos].
  - lra.
  - destruct (Hgv a b c) as (G1 & G2 & G3). unfold gb_shift. cbn [gvx gvy gvz nadd RNum]. rewrite G1, G2, G3.
    unfold nrm, speed2. cbn [nadd nmul RNum].
    replace ((0 + pvx p1) * (0 + pvx p1) + (0 + pvy p1) * (0 + pvy p1) + (0 + pvz p1) * (0 + pvz p1))
      with (pvx p1 * pvx p1 + pvy p1 * pvy p1 + pvz p1 * pvz p1) by ring. lra.
  - apply Rmult_le_compat_l; [exact Hdt|]. unfold nrm. apply sqrt_le_1_alt.
    change (pvx q * pvx q + pvy q * pvy q + pvz q * pvz q) with (speed2 RNum q).
    apply vmax2_ge. apply nth_d_In. exact Hjn.
Qed.

(* ------------------------------------------------------------------ the two instances of the pruning constant *)
Lemma kappa_lit_real : kappa_lit RNum = kappa_code.
Proof. reflexivity. Qed.

Lemma slack_ideal kap w : sqrt 3 / 2 <= kap -> 0 <= w -> (sqrt 3 / 2 - kap) * w <= 0.
Proof. intros. assert (0 <= (kap - sqrt 3 / 2) * w) by (apply Rmult_le_pos; lra). lra. Qed.
Lemma slack_code w W : 0 <= w <= W -> (sqrt 3 / 2 - kappa_code) * w <= W / 100000000000000.
Proof.
  intros Hw. destruct kappa_code_short as [K1 K2].
  assert ((sqrt 3 / 2 - kappa_code) * w <= 1 / 100000000000000 * w) by (apply Rmult_le_compat_r; lra). lra.
Qed.

(* with a constant >= sqrt(3)/2: every strictly overlapping pair of DIRECT whose partner radius is covered *)
Corollary direct_subset_tree_ideal kap gbf ngx ngy ngz mr1 ps W roots a b c i j t :
  sqrt 3 / 2 <= kap ->
  forest_ok ps W roots -> In (Some t) roots -> In j (gleaves t) ->
  In (Z.of_nat i, Z.of_nat j, gbid a b c) (search_direct RNum gbf ngx ngy ngz ps) ->
  In a (ring (gcol ngx)) -> In b (ring (gcol ngy)) -> In c (ring (gcol ngz)) -> (i < length ps)%nat -> i <> j ->
  direct_hit RNum gbf ps a b c i j = true ->
  0 <= pr (znth_p RNum ps i) -> 0 <= mr1 -> pr (znth_p RNum ps j) <= mr1 ->
  (let g := gb_shift RNum (gbf a b c) (znth_p RNum ps i) in let q := znth_p RNum ps j in
   nrm (gx g - px q) (gy g - py q) (gz g - pz q) < pr (znth_p RNum ps i) + pr q) ->
  In (Z.of_nat i, Z.of_nat j, gbid a b c) (search_tree RNum kap gbf ngx ngy ngz mr1 ps roots).
Proof.
  intros Hk Hf Ht Hj Hd Ha Hb Hc Hi Hne Hhit H1 H2 Hr Hm.
  pose proof (sqrt_pos 3). eapply direct_subset_tree; eauto; [lra|].
  cbv zeta in *. intros w Hw. pose proof (slack_ideal kap w Hk (proj1 Hw)). lra.
Qed.

(* with the code's literal: every pair of DIRECT overlapping by more than 1e-14 W (W = largest cell width) *)
Corollary direct_subset_tree_code gbf ngx ngy ngz mr1 ps W roots a b c i j t :
  forest_ok ps W roots -> In (Some t) roots -> In j (gleaves t) ->
  In (Z.of_nat i, Z.of_nat j, gbid a b c) (search_direct RNum gbf ngx ngy ngz ps) ->
  In a (ring (gcol ngx)) -> In b (ring (gcol ngy)) -> In c (ring (gcol ngz)) -> (i < length ps)%nat -> i <> j ->
  direct_hit RNum gbf ps a b c i j = true ->
  0 <= pr (znth_p RNum ps i) -> 0 <= mr1 -> pr (znth_p RNum ps j) <= mr1 ->
  (let g := gb_shift RNum (gbf a b c) (znth_p RNum ps i) in let q := znth_p RNum ps j in
   nrm (gx g - px q) (gy g - py q) (gz g - pz q) < pr (znth_p RNum ps i) + pr q - W / 100000000000000) ->
  In (Z.of_nat i, Z.of_nat j, gbid a b c) (search_tree RNum (kappa_lit RNum) gbf ngx ngy ngz mr1 ps roots).
Proof.
  intros Hf Ht Hj Hd Ha Hb Hc Hi Hne Hhit H1 H2 Hr Hm.
  rewrite kappa_lit_real. eapply direct_subset_tree; eauto; [unfold kappa_code; lra|].
  cbv zeta in *. intros w Hw. pose proof (slack_code w W Hw). lra.
Qed.

Corollary line_subset_linetree_code gbf ngx ngy ngz mr1 dt ps W roots a b c i j t s :
  forest_ok ps W roots -> In (Some t) roots -> In j (gleaves t) ->
  (forall a b c, gvx (gbf a b c) = 0 /\ gvy (gbf a b c) = 0 /\ gvz (gbf a b c) = 0) ->
  In a (ring (gcol ngx)) -> In b (ring (gcol ngy)) -> In c (ring (gcol ngz)) -> (i < length ps)%nat -> i <> j ->
  line_hit RNum gbf dt ps a b c i j = true ->
  0 <= pr (znth_p RNum ps i) -> 0 <= mr1 -> pr (znth_p RNum ps j) <= mr1 -> 0 <= s <= 1 ->
  (let g := gb_shift RNum (gbf a b c) (znth_p RNum ps i) in let q := znth_p RNum ps j in
   sqrt (dist2_at dt g q s) < pr (znth_p RNum ps i) + pr q - W / 100000000000000) ->
  In (Z.of_nat i, Z.of_nat j, gbid a b c) (search_linetree RNum (kappa_lit RNum) gbf ngx ngy ngz mr1 dt ps roots).
Proof.
  intros Hf Ht Hj Hgv Ha Hb Hc Hi Hne Hhit H1 H2 Hr Hs Hm.
  rewrite kappa_lit_real. eapply line_subset_linetree; eauto; [unfold kappa_code; lra|].
  cbv zeta in *. intros w Hw. pose proof (slack_code w W Hw). lra.
Qed.

(* ------------------------------------------------------------------ unordered pairs *)
Lemma direct_hit_sym bx by_ bz ps a b c i j :
  direct_hit RNum (gb_periodic RNum bx by_ bz) ps a b c i j = true ->
  direct_hit RNum (gb_periodic RNum bx by_ bz) ps (- a) (- b) (- c) j i = true.
Proof.
  unfold direct_hit. rewrite !direct_test_real.
  unfold gb_shift, gb_periodic. cbn [gx gy gz gvx gvy gvz nadd nmul nzero nofZ RNum].
  rewrite !opp_IZR.
  set (p := znth_p RNum ps i). set (q := znth_p RNum ps j).
  intros [H1 H2]. split.
  - replace ((bx * - IZR a + px q - px p) * (bx * - IZR a + px q - px p) + (by_ * - IZR b + py q - py p) * (by_ * - IZR b + py q - py p) +
             (bz * - IZR c + pz q - pz p) * (bz * - IZR c + pz q - pz p))
      with ((bx * IZR a + px p - px q) * (bx * IZR a + px p - px q) + (by_ * IZR b + py p - py q) * (by_ * IZR b + py p - py q) +
            (bz * IZR c + pz p - pz q) * (bz * IZR c + pz p - pz q)) by ring.
    replace ((pr q + pr p) * (pr q + pr p)) with ((pr p + pr q) * (pr p + pr q)) by ring. exact H1.
  - replace ((0 + pvx q - pvx p) * (bx * - IZR a + px q - px p) + (0 + pvy q - pvy p) * (by_ * - IZR b + py q - py p) +
             (0 + pvz q - pvz p) * (bz * - IZR c + pz q - pz p))
      with ((0 + pvx p - pvx q) * (bx * IZR a + px p - px q) + (0 + pvy p - pvy q) * (by_ * IZR b + py p - py q) +
            (0 + pvz p - pvz q) * (bz * IZR c + pz p - pz q)) by ring. exact H2.
Qed.

Lemma nrm_opp x y z : nrm (- x) (- y) (- z) = nrm x y z.
Proof. unfold nrm. f_equal. ring. Qed.
Lemma ring_opp n a : (0 <= n)%Z -> In a (ring n) -> In (- a)%Z (ring n).
Proof. intros Hn H. apply In_ring in H; [|exact Hn]. apply In_ring; [exact Hn|]. lia. Qed.
Lemma gcol_nonneg n : (0 <= n)%Z -> (0 <= gcol n)%Z.
Proof. intros H. unfold gcol. destruct (n >? 1)%Z; lia. Qed.

(* TREE == DIRECT as sets of UNORDERED pairs (periodic/open ghost boxes): a pair DIRECT reports is reported by TREE in
   at least one of its two orientations as soon as ONE of the two radii is covered by max_radius1 *)
Theorem direct_subset_tree_unordered kap bx by_ bz ngx ngy ngz mr1 ps W roots a b c i j ti tj :
  let gbf := gb_periodic RNum bx by_ bz in
  (0 <= ngx)%Z -> (0 <= ngy)%Z -> (0 <= ngz)%Z ->
  forest_ok ps W roots -> In (Some tj) roots -> In j (gleaves tj) -> In (Some ti) roots -> In i (gleaves ti) ->
  In a (ring (gcol ngx)) -> In b (ring (gcol ngy)) -> In c (ring (gcol ngz)) ->
  (i < length ps)%nat -> (j < length ps)%nat -> i <> j ->
  direct_hit RNum gbf ps a b c i j = true ->
  0 <= pr (znth_p RNum ps i) -> 0 <= pr (znth_p RNum ps j) -> 0 <= mr1 -> 0 <= kap ->
  (pr (znth_p RNum ps i) <= mr1 \/ pr (znth_p RNum ps j) <= mr1) ->
  (let g := gb_shift RNum (gbf a b c) (znth_p RNum ps i) in let q := znth_p RNum ps j in
   forall w, 0 <= w <= W ->
     nrm (gx g - px q) (gy g - py q) (gz g - pz q) < pr (znth_p RNum ps i) + pr q - (sqrt 3 / 2 - kap) * w) ->
  In (Z.of_nat i, Z.of_nat j, gbid a b c) (search_tree RNum kap gbf ngx ngy ngz mr1 ps roots) \/
  In (Z.of_nat j, Z.of_nat i, gbid (- a) (- b) (- c)) (search_tree RNum kap gbf ngx ngy ngz mr1 ps roots).
Proof.
  intros gbf Nx Ny Nz Hf Htj Hj Hti Hi Ha Hb Hc Hin Hjn Hne Hhit Ri Rj H2 H3 Hcov Hm.
  assert (Hdir : forall a b c i j, In a (ring (gcol ngx)) -> In b (ring (gcol ngy)) -> In c (ring (gcol ngz)) ->
            (i < length ps)%nat -> (j < length ps)%nat -> i <> j -> direct_hit RNum gbf ps a b c i j = true ->
            In (Z.of_nat i, Z.of_nat j, gbid a b c) (search_direct RNum gbf ngx ngy ngz ps)).
  { intros. apply direct_enumerates. do 5 eexists. repeat split; eauto. }
  destruct Hcov as [Hcov|Hcov].
  - right. pose proof (direct_hit_sym bx by_ bz ps a b c i j Hhit) as Hs.
    assert (Ha' := ring_opp _ _ (gcol_nonneg _ Nx) Ha). assert (Hb' := ring_opp _ _ (gcol_nonneg _ Ny) Hb).
    assert (Hc' := ring_opp _ _ (gcol_nonneg _ Nz) Hc).
    apply (direct_subset_tree kap gbf ngx ngy ngz mr1 ps W roots (- a)%Z (- b)%Z (- c)%Z j i ti); auto.
    cbv zeta in *. intros w Hw. specialize (Hm w Hw).
    unfold gbf, gb_shift, gb_periodic in *. cbn [gx gy gz nadd nmul nofZ RNum] in *. rewrite !opp_IZR.
    set (p := znth_p RNum ps i) in *. set (q := znth_p RNum ps j) in *.
    replace (bx * - IZR a + px q - px p) with (- (bx * IZR a + px p - px q)) by ring.
    replace (by_ * - IZR b + py q - py p) with (- (by_ * IZR b + py p - py q)) by ring.
    replace (bz * - IZR c + pz q - pz p) with (- (bz * IZR c + pz p - pz q)) by ring.
    rewrite nrm_opp. lra.
  - left. apply (direct_subset_tree kap gbf ngx ngy ngz mr1 ps W roots a b c i j tj); auto.
Qed.
