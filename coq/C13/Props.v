(* C13 property theorems ONLY (each closed by an already proved lemma) + assumptions. *)
From Coq Require Import List ZArith Reals Lra Lia Bool Permutation.
From RV Require Import Common.Num Common.RealNum C13.Model C13.LoopNA C13.Run C13.Fixup C13.Resolve C13.Search.
Import ListNotations.

(* ---- the resolve loop of reb_collision_search, for EVERY pending array (hence every processing order produced by
   the shuffle), every resolver that leaves the particle order alone, every outcome sequence, keep_sorted on/off,
   tree / no tree (except keep_sorted together with a tree, where the library refuses to remove), every value of N_active. *)
Section Loop.
Context {P St : Type} (pid : P -> Z) (isflag : P -> bool) (flag : P -> P)
        (res : St -> list P -> entry -> St * list P * Z).
Hypothesis flag_pid : forall p, pid (flag p) = pid p.
Hypothesis flag_set : forall p, isflag (flag p) = true.
Hypothesis res_frame : forall s ps e s' ps' o, res s ps e = (s', ps', o) -> view pid isflag ps' = view pid isflag ps.
(* hyb: the integrator is MERCURIUS or TRACE (both the loop and reb_simulation_remove_particle then force keep_sorted) *)
Variables (tree hyb keep : bool) (nact : Z) (ps : list P) (pend : list entry) (s s' : St) (psf : list P) (naf : Z) (log : list event).
Hypothesis not_both : tree && (keep || hyb) = false.
Hypothesis ids_unique : NoDup (idsV (view pid isflag ps)).
Hypothesis pend_valid : Forall (live_entry (view pid isflag ps)) pend.
Hypothesis run : resolve_loop pid flag res tree hyb keep (fun e => e) nact s ps pend = (s', psf, naf, log).
Let run_na := loop_is_na pid flag res tree hyb keep _ _ _ _ _ _ _ _ _ run.

(* the index juggling (tombstones, shift-down / moved-last remapping, both outcome bits, deferred tree removal)
   makes exactly the calls of the identity-level loop: walk the identity pairs in order, skip a pair iff one of its
   ids has been removed, otherwise call resolve with these two ids and remove what the outcome says *)
Theorem C13_fixup_refines :
  replay (map (den0 (view pid isflag ps)) pend) (map ev_id log) [].
Proof. exact (proj1 (loop_refines_top pid isflag flag res flag_pid flag_set res_frame _ _ _ _ _ _ _ _ not_both ids_unique pend_valid run_na)). Qed.

(* surviving ids + removed ids = initial ids as multisets, no id twice *)
Theorem C13_no_loss_no_dup :
  NoDup (idsV (view pid isflag psf)) /\ NoDup (racc (map ev_id log) []) /\
  Permutation (liveids (view pid isflag psf) ++ racc (map ev_id log) []) (liveids (view pid isflag ps)).
Proof. exact (proj2 (proj2 (loop_refines_top pid isflag flag res flag_pid flag_set res_frame _ _ _ _ _ _ _ _ not_both ids_unique pend_valid run_na))). Qed.

(* no particle is handed to resolve after it was removed (so none is merged away twice); the two ids of a call differ *)
Theorem C13_merged_once : never_after (map ev_id log) [].
Proof. exact (proj1 (proj2 (loop_refines_top pid isflag flag res flag_pid flag_set res_frame _ _ _ _ _ _ _ _ not_both ids_unique pend_valid run_na))). Qed.
End Loop.
Print Assumptions C13_fixup_refines.
Print Assumptions C13_no_loss_no_dup.
Print Assumptions C13_merged_once.

(* one removal (rmV = the array component of the model's removal, for every N_active: LoopNA.remove_particle_is_na):
   every other particle is found at the remapped index, the live ids lose exactly the removed one *)
Theorem C13_remove_particle_remap : forall tree keep v k a,
  tree && keep = false -> NoDup (idsV v) -> zth v k = Some (a, false) ->
  exists v', rmV tree keep v k = (v', true) /\ NoDup (idsV v') /\
    (forall i x, i <> k -> zth v i = Some x -> zth v' (rmi tree keep k (zlen v') i) = Some x) /\
    Permutation (a :: liveids v') (liveids v).
Proof. exact removeV_spec. Qed.
Print Assumptions C13_remove_particle_remap.

(* with a tree AND keep_sorted the library refuses the removal: a resolver outcome that asks for it removes nothing *)
Theorem C13_tree_keepsorted_refuted :
  exists (v : list (Z * bool)) k, zth v k = Some (7%Z, false) /\ rmV true true v k = (v, false).
Proof. exists [(7%Z, false); (8%Z, false)], 0%Z. split; reflexivity. Qed.

Open Scope R_scope.
(* ---- merge: mass, momentum and mass-weighted position of the pair go to the survivor; outcome removes the other *)
Theorem C13_merge_conserves : forall t cb ps p1 p2 a b,
  zth ps p1 = Some a -> zth ps p2 = Some b -> plc a <> t -> plc b <> t -> pm a + pm b <> 0 ->
  exists q,
    merge RNum t cb ps p1 p2 = (upd ps (Z.to_nat (keep_ix p1 p2)) q, (if (p2 <? p1)%Z then 1 else 2)%Z) /\
    pm q = pm a + pm b /\ mom q = add3 (mom a) (mom b) /\ mpos q = add3 (mpos a) (mpos b) /\
    pr q = cb /\ plc q = t /\ phash q = phash (if (p2 <? p1)%Z then b else a).
Proof. exact merge_conserves_thm. Qed.
Print Assumptions C13_merge_conserves.

Theorem C13_merge_removes_one : forall p1 p2 : Z,
  let o := (if (p2 <? p1)%Z then 1 else 2)%Z in
  (Z.testbit o 0 = (p2 <? p1)%Z) /\ (Z.testbit o 1 = negb (p2 <? p1)%Z).
Proof. exact merge_outcome_bits. Qed.

Theorem C13_merge_guard : forall t cb ps p1 p2 a b,
  zth ps p1 = Some a -> zth ps p2 = Some b -> (plc a = t \/ plc b = t) -> merge RNum t cb ps p1 p2 = (ps, 0%Z).
Proof. exact merge_guard. Qed.

(* ---- hard sphere *)
Theorem C13_hardsphere_momentum : forall t eps mcv st ct sp cp g p1 p2 q1 q2,
  hardsphere RNum t eps mcv st ct sp cp g p1 p2 = Some (q1, q2) -> pm p1 + pm p2 <> 0 ->
  pm q1 * pvx q1 + pm q2 * pvx q2 = pm p1 * pvx p1 + pm p2 * pvx p2 /\
  pm q1 * pvy q1 + pm q2 * pvy q2 = pm p1 * pvy p1 + pm p2 * pvy p2 /\
  pm q1 * pvz q1 + pm q2 * pvz q2 = pm p1 * pvz p1 + pm p2 * pvz p2.
Proof. exact hs_momentum. Qed.
Print Assumptions C13_hardsphere_momentum.

Theorem C13_hardsphere_elastic : forall t eps mcv st ct sp cp g p1 p2 q1 q2,
  hardsphere RNum t eps mcv st ct sp cp g p1 p2 = Some (q1, q2) ->
  eps = 1 -> mcv = 0 -> ct * ct + st * st = 1 -> cp * cp + sp * sp = 1 ->
  gvx g = 0 -> gvy g = 0 -> gvz g = 0 -> pm p1 + pm p2 <> 0 ->
  ke q1 q2 = ke p1 p2.
Proof. exact hs_elastic. Qed.
Print Assumptions C13_hardsphere_elastic.

Theorem C13_hardsphere_separating : forall t eps mcv st ct sp cp g p1 p2 q1 q2,
  hardsphere RNum t eps mcv st ct sp cp g p1 p2 = Some (q1, q2) -> forall Rr,
  0 <= Rr -> px p1 + gx g - px p2 = Rr * cp -> py p1 + gy g - py p2 = Rr * (sp * ct) ->
  pz p1 + gz g - pz p2 = Rr * (sp * st) ->
  ct * ct + st * st = 1 -> cp * cp + sp * sp = 1 -> 0 <= eps -> pm p1 + pm p2 <> 0 ->
  0 <= (pvx q1 + gvx g - pvx q2) * (px p1 + gx g - px p2) + (pvy q1 + gvy g - pvy q2) * (py p1 + gy g - py p2)
       + (pvz q1 + gvz g - pvz q2) * (pz p1 + gz g - pz p2).
Proof. exact hs_separating. Qed.
Print Assumptions C13_hardsphere_separating.

(* ---- DIRECT search: complete and sound w.r.t. the pair test, for every Num (binary64 included); the test over R *)
Theorem C13_direct_complete_and_sound : forall (T : Type) (N : Num T) gbf ngx ngy ngz ps e,
  In e (search_direct N gbf ngx ngy ngz ps) <->
  exists a b c i j,
    e = (Z.of_nat i, Z.of_nat j, gbid a b c) /\
    In a (ring (gcol ngx)) /\ In b (ring (gcol ngy)) /\ In c (ring (gcol ngz)) /\
    (i < length ps)%nat /\ (j < length ps)%nat /\ i <> j /\ direct_hit N gbf ps a b c i j = true.
Proof. exact @direct_enumerates. Qed.
Print Assumptions C13_direct_complete_and_sound.

Theorem C13_ghost_ring : forall n k, (0 <= n)%Z -> (In k (ring n) <-> (- n <= k <= n)%Z).
Proof. exact In_ring. Qed.

Theorem C13_direct_test_real : forall (g : vec6 R) (r1 : R) (p2 : particle R),
  direct_test RNum g r1 p2 = true <->
  (gx g - px p2) * (gx g - px p2) + (gy g - py p2) * (gy g - py p2) + (gz g - pz p2) * (gz g - pz p2)
     <= (r1 + pr p2) * (r1 + pr p2) /\
  (gvx g - pvx p2) * (gx g - px p2) + (gvy g - pvy p2) * (gy g - py p2) + (gvz g - pvz p2) * (gz g - pz p2) <= 0.
Proof. exact direct_test_real. Qed.
Print Assumptions C13_direct_test_real.

(* ---- non-vacuity: a concrete array, pending list and recording resolver meet the hypotheses of the loop theorems;
   a concrete pair meets those of the merge theorem *)
Example C13_hypotheses_inhabited :
  let ps : list (Z * bool) := [(10, false); (11, false); (12, false)]%Z in
  let v := view (fun p : Z * bool => fst p) (fun p : Z * bool => snd p) ps in
  NoDup (idsV v) /\ Forall (live_entry v) [(0, 1, 13); (2, 1, 13); (1, 0, 13)]%Z /\
  (forall s ps0 e s' ps' o, res_outs s ps0 e = (s', ps', o) -> ps' = ps0) /\
  (exists a b : particle R, plc a <> 1 /\ plc b <> 1 /\ pm a + pm b <> 0).
Proof.
  cbv zeta. split; [|split; [|split]].
  - cbn. repeat constructor; cbn; intuition lia.
  - repeat constructor; try (eexists; reflexivity); lia.
  - intros s ps0 e s' ps' o H. unfold res_outs in H. destruct s; injection H; intros; subst; reflexivity.
  - exists (mkP 0 0 0 0 0 0 1 1 0 1%Z), (mkP 1 0 0 0 0 0 0 2 0 2%Z). cbn. repeat split; lra.
Qed.

(* ================= round 2 ================= *)
From RV Require Import C13.Line C13.MergeSum C13.Tree.
From Coq Require Import Permutation.

(* ---- LINE / LINETREE leaf criterion: the code's test (min of the squared end distances and, when
   0 <= t_closest/dt <= 1, of the squared closest-approach distance, against (r1+r2)^2) holds iff the two straight
   paths of the last step come within r1+r2 of each other at some fraction s in [0,1] of the step (dt of any sign) *)
Theorem C13_line_complete_and_sound : forall (dt : R) (g : vec6 R) (r1 : R) (p2 : particle R), dt <> 0 ->
  (line_test RNum dt g r1 p2 = true <->
   exists s, 0 <= s <= 1 /\ dist2_at dt g p2 s <= (r1 + pr p2) * (r1 + pr p2)).
Proof. exact line_test_real. Qed.
Print Assumptions C13_line_complete_and_sound.

(* LINE hands over exactly the pairs i<j (every unordered pair once per ghost box of the clamped ring) passing the test *)
Theorem C13_line_enumerates : forall (T : Type) (N : Num T) gbf ngx ngy ngz dt ps e,
  In e (search_line N gbf ngx ngy ngz dt ps) <->
  exists a b c i j,
    e = (Z.of_nat i, Z.of_nat j, gbid a b c) /\
    In a (ring (gcol ngx)) /\ In b (ring (gcol ngy)) /\ In c (ring (gcol ngz)) /\
    (i < j)%nat /\ (j < length ps)%nat /\ line_hit N gbf dt ps a b c i j = true.
Proof. exact @line_enumerates. Qed.
Print Assumptions C13_line_enumerates.

(* ---- merge + the removal the loop performs: sums of m, m v, m x over the WHOLE array are unchanged, N drops by one *)
Theorem C13_merge_conserves_total : forall (flag : particle R -> particle R) t cb ps p1 p2 a b keep nact,
  zth ps p1 = Some a -> zth ps p2 = Some b -> p1 <> p2 -> plc a <> t -> plc b <> t -> pm a + pm b <> 0 ->
  exists ps' ps'' nact',
    fst (merge RNum t cb ps p1 p2) = ps' /\
    remove_particle flag false keep nact ps' (gone_ix p1 p2) = (ps'', nact', true) /\
    S (length ps'') = length ps /\
    Forall (fun f => tot f ps'' = tot f ps) conserved.
Proof. exact merge_total_model. Qed.
Print Assumptions C13_merge_conserves_total.

(* ---- tree-walk pruning (TREE: D1 = D2 = 0; LINETREE: D1 = |dt||v1|, D2 = maxdrift): a pruned cell contains no
   particle of radius <= max_radius1 that comes closer than p_r + r_q to p at any moment of the step — provided the
   constant multiplying the cell width is at least sqrt(3)/2 *)
Theorem C13_tree_prune_sound : forall kap gx gy gz cx cy cz w qx qy qz g'x g'y g'z q'x q'y q'z p_r mr1 rq D1 D2,
  sqrt 3 / 2 <= kap -> 0 <= w ->
  - (w / 2) <= qx - cx <= w / 2 -> - (w / 2) <= qy - cy <= w / 2 -> - (w / 2) <= qz - cz <= w / 2 ->
  nrm (gx - g'x) (gy - g'y) (gz - g'z) <= D1 -> nrm (q'x - qx) (q'y - qy) (q'z - qz) <= D2 -> rq <= mr1 ->
  p_r + D1 + mr1 + D2 + kap * w <= nrm (gx - cx) (gy - cy) (gz - cz) ->
  p_r + rq <= nrm (g'x - q'x) (g'y - q'y) (g'z - q'z).
Proof. exact prune_sound. Qed.
Print Assumptions C13_tree_prune_sound.

(* the literal 0.86602540378443 of collision.c is a truncation: it is SMALLER than sqrt(3)/2, so the full-strength
   statement does not apply to the code as written ... *)
Theorem C13_tree_prune_constant_refuted : kappa_code < sqrt 3 / 2 /\ sqrt 3 / 2 - kappa_code <= 1 / 100000000000000.
Proof. exact kappa_code_short. Qed.
(* ... what holds for the code's constant: sound up to an overlap depth of 1e-14 w *)
Theorem C13_tree_prune_sound_partial : forall gx gy gz cx cy cz w qx qy qz g'x g'y g'z q'x q'y q'z p_r mr1 rq D1 D2,
  0 <= w ->
  - (w / 2) <= qx - cx <= w / 2 -> - (w / 2) <= qy - cy <= w / 2 -> - (w / 2) <= qz - cz <= w / 2 ->
  nrm (gx - g'x) (gy - g'y) (gz - g'z) <= D1 -> nrm (q'x - qx) (q'y - qy) (q'z - qz) <= D2 -> rq <= mr1 ->
  p_r + D1 + mr1 + D2 + kappa_code * w <= nrm (gx - cx) (gy - cy) (gz - cz) ->
  p_r + rq - w / 100000000000000 <= nrm (g'x - q'x) (g'y - q'y) (g'z - q'z).
Proof. exact prune_sound_code. Qed.
Print Assumptions C13_tree_prune_sound_partial.

(* the code's comparison: a cell is pruned iff not (r2 < rp*rp); then (rp >= 0) the centre is at least rp away *)
Theorem C13_pruned_distance : forall ux uy uz rp, 0 <= rp -> ~ (ux * ux + uy * uy + uz * uz < rp * rp) -> rp <= nrm ux uy uz.
Proof. exact pruned_distance. Qed.

(* ---- max_radius0/1 (written only by reb_simulation_add): stays a valid bound under any add / remove history ... *)
Theorem C13_max_radius_upper_bound :
  radii_ok (0, 0) [] /\
  (forall st l r, radii_ok st l -> radii_ok (add_radius st r) (r :: l)) /\
  (forall st l x l', radii_ok st l -> Permutation l (x :: l') -> radii_ok st l') /\
  (forall st l x y l', radii_ok st l -> Permutation l (x :: y :: l') -> x <= snd st \/ y <= snd st).
Proof. exact (conj radii_init (conj radii_add (conj radii_remove radii_pair))). Qed.
Print Assumptions C13_max_radius_upper_bound.
(* ... and under merges as coded (reb_collision_resolve_merge applies the same rule to the merged radius): for any
   merged radius c, with the removed partner gone or still sitting flagged in the array (tree) *)
Theorem C13_max_radius_merge_preserved : forall st l ri rj rest c, radii_ok st l -> Permutation l (ri :: rj :: rest) ->
  radii_ok (add_radius st c) (c :: rest) /\ radii_ok (add_radius st c) (c :: rj :: rest).
Proof. exact radii_merge. Qed.
Print Assumptions C13_max_radius_merge_preserved.

(* ---- N_active: the bookkeeping of reb_simulation_remove_particle (decrement; clamp in the unsorted branch) never
   decides which particle sits where (the loop theorems above hold for every N_active), and keeps N_active <= N *)
Theorem C13_nactive_independent : forall (P St : Type) (pid : P -> Z) (flag : P -> P) (res : St -> list P -> entry -> St * list P * Z)
    tree hyb keep pend fx nact s ps s' psf naf log,
  resolve_loop pid flag res tree hyb keep fx nact s ps pend = (s', psf, naf, log) ->
  resolve_loop_na pid flag res tree (keep || hyb) fx s ps pend = (s', psf, log).
Proof. exact @loop_is_na. Qed.
Theorem C13_nactive_bounded : forall (P : Type) (flag : P -> P) tree keep nact ps k ps' nact',
  remove_particle flag tree keep nact ps k = (ps', nact', true) -> (nact <= zlen ps)%Z -> (nact' <= zlen ps')%Z.
Proof. exact @nact_le_N. Qed.
(* the hand-over that went wrong while an active removal moved two particles (a7d12d9..95ccee5) is right again *)
Example C13_nactive_regression :
  let ids := [1000; 1001; 1002; 1003; 1004]%Z in
  let pend := [(1, 0, 13); (2, 3, 13)]%Z in
  map ev_id (fst (fst (loop_ids false false false 3 ids pend [1; 2]%Z))) = [(1001, 1000, 13, 1); (1002, 1003, 13, 2)]%Z /\
  snd (loop_ids false false false 3 ids pend [1; 2]%Z) = 3%Z.
Proof. split; vm_compute; reflexivity. Qed.

(* ================= round 3 ================= *)
(* ---- hard sphere with a general coefficient of restitution (minimum_collision_velocity = 0, approaching along the normal) *)
Theorem C13_hardsphere_restitution : forall t eps mcv st ct sp cp g p1 p2 q1 q2,
  hardsphere RNum t eps mcv st ct sp cp g p1 p2 = Some (q1, q2) ->
  mcv = 0 -> hs_vn st ct sp cp g p1 p2 <= 0 -> 0 <= 1 + eps ->
  ct * ct + st * st = 1 -> cp * cp + sp * sp = 1 -> pm p1 + pm p2 <> 0 ->
  hs_vn st ct sp cp g q1 q2 = - eps * hs_vn st ct sp cp g p1 p2.
Proof. exact hs_restitution. Qed.
Print Assumptions C13_hardsphere_restitution.

Theorem C13_hardsphere_energy : forall t eps mcv st ct sp cp g p1 p2 q1 q2,
  hardsphere RNum t eps mcv st ct sp cp g p1 p2 = Some (q1, q2) ->
  mcv = 0 -> hs_vn st ct sp cp g p1 p2 <= 0 -> 0 <= 1 + eps ->
  ct * ct + st * st = 1 -> cp * cp + sp * sp = 1 ->
  gvx g = 0 -> gvy g = 0 -> gvz g = 0 -> pm p1 + pm p2 <> 0 ->
  ke q1 q2 = ke p1 p2 - pm p1 * pm p2 / (pm p1 + pm p2) * (1 - eps * eps) * (hs_vn st ct sp cp g p1 p2 * hs_vn st ct sp cp g p1 p2) / 2.
Proof. exact hs_energy. Qed.
Print Assumptions C13_hardsphere_energy.

(* ================= round 3: the tree walks ================= *)
From RV Require Import C13.TreeModel C13.TreeWalk C13.TreeC15.
From RV Require C15.Tree.

(* the loops around the walks: TREE hands over exactly what the walk of some root from (i, ghost box) reports (every arithmetic) *)
Theorem C13_tree_enumerates : forall (T : Type) (N : Num T) kap gbf ngx ngy ngz mr1 ps roots e,
  In e (search_tree N kap gbf ngx ngy ngz mr1 ps roots) <->
  exists i a b c t,
    (i < length ps)%nat /\ In a (ring (gcol ngx)) /\ In b (ring (gcol ngy)) /\ In c (ring (gcol ngz)) /\
    In (Some t) roots /\
    In e (tree_walk N kap ps i (gb_shift N (gbf a b c) (znth_p N ps i)) (gbid a b c) (pr (znth_p N ps i))
                    (nadd N (pr (znth_p N ps i)) mr1) t).
Proof. exact @tree_enumerates. Qed.

(* SOUNDNESS of TREE w.r.t. DIRECT (any pruning constant, any max_radius1) *)
Theorem C13_tree_sound : forall kap gbf ngx ngy ngz mr1 ps W roots e,
  forest_ok ps W roots ->
  In e (search_tree RNum kap gbf ngx ngy ngz mr1 ps roots) -> In e (search_direct RNum gbf ngx ngy ngz ps).
Proof. exact tree_subset_direct. Qed.
Print Assumptions C13_tree_sound.

(* COMPLETENESS of TREE w.r.t. DIRECT for a pruning constant >= sqrt(3)/2: no strictly overlapping pair whose partner
   radius is covered by max_radius1 is pruned *)
Theorem C13_tree_complete : forall kap gbf ngx ngy ngz mr1 ps W roots a b c i j t,
  sqrt 3 / 2 <= kap ->
  forest_ok ps W roots -> In (Some t) roots -> In j (gleaves t) ->
  In (Z.of_nat i, Z.of_nat j, gbid a b c) (search_direct RNum gbf ngx ngy ngz ps) ->
  In a (ring (gcol ngx)) -> In b (ring (gcol ngy)) -> In c (ring (gcol ngz)) -> (i < length ps)%nat -> i <> j ->
  direct_hit RNum gbf ps a b c i j = true ->
  0 <= pr (znth_p RNum ps i) -> 0 <= mr1 -> pr (znth_p RNum ps j) <= mr1 ->
  (let g := gb_shift RNum (gbf a b c) (znth_p RNum ps i) in let q := znth_p RNum ps j in
   nrm (gx g - px q) (gy g - py q) (gz g - pz q) < pr (znth_p RNum ps i) + pr q) ->
  In (Z.of_nat i, Z.of_nat j, gbid a b c) (search_tree RNum kap gbf ngx ngy ngz mr1 ps roots).
Proof. exact direct_subset_tree_ideal. Qed.
Print Assumptions C13_tree_complete.

(* ... and what holds for the code's literal 0.86602540378443 < sqrt(3)/2: pairs overlapping by more than 1e-14 W *)
Theorem C13_tree_complete_partial : forall gbf ngx ngy ngz mr1 ps W roots a b c i j t,
  forest_ok ps W roots -> In (Some t) roots -> In j (gleaves t) ->
  In (Z.of_nat i, Z.of_nat j, gbid a b c) (search_direct RNum gbf ngx ngy ngz ps) ->
  In a (ring (gcol ngx)) -> In b (ring (gcol ngy)) -> In c (ring (gcol ngz)) -> (i < length ps)%nat -> i <> j ->
  direct_hit RNum gbf ps a b c i j = true ->
  0 <= pr (znth_p RNum ps i) -> 0 <= mr1 -> pr (znth_p RNum ps j) <= mr1 ->
  (let g := gb_shift RNum (gbf a b c) (znth_p RNum ps i) in let q := znth_p RNum ps j in
   nrm (gx g - px q) (gy g - py q) (gz g - pz q) < pr (znth_p RNum ps i) + pr q - W / 100000000000000) ->
  In (Z.of_nat i, Z.of_nat j, gbid a b c) (search_tree RNum (kappa_lit RNum) gbf ngx ngy ngz mr1 ps roots).
Proof. exact direct_subset_tree_code. Qed.
Print Assumptions C13_tree_complete_partial.

(* LINETREE: every reported pair passes the LINE test (both orientations are reported; LINE reports i<j) *)
Theorem C13_linetree_sound : forall kap gbf ngx ngy ngz mr1 dt ps W roots e,
  forest_ok ps W roots ->
  In e (search_linetree RNum kap gbf ngx ngy ngz mr1 dt ps roots) ->
  exists a b c i j, e = (Z.of_nat i, Z.of_nat j, gbid a b c) /\ i <> j /\ (i < length ps)%nat /\ (j < length ps)%nat /\
    line_hit RNum gbf dt ps a b c i j = true /\
    ((i < j)%nat -> In e (search_line RNum gbf ngx ngy ngz dt ps)).
Proof. exact linetree_subset_line. Qed.
Print Assumptions C13_linetree_sound.

(* LINETREE completeness (ghost boxes without velocity): general constant with the shortfall term, and the code's literal *)
Theorem C13_linetree_complete : forall kap gbf ngx ngy ngz mr1 dt ps W roots a b c i j t s,
  forest_ok ps W roots -> In (Some t) roots -> In j (gleaves t) ->
  (forall a b c, gvx (gbf a b c) = 0 /\ gvy (gbf a b c) = 0 /\ gvz (gbf a b c) = 0) ->
  In a (ring (gcol ngx)) -> In b (ring (gcol ngy)) -> In c (ring (gcol ngz)) -> (i < length ps)%nat -> i <> j ->
  line_hit RNum gbf dt ps a b c i j = true ->
  0 <= pr (znth_p RNum ps i) -> 0 <= mr1 -> 0 <= kap -> pr (znth_p RNum ps j) <= mr1 ->
  0 <= s <= 1 ->
  (let g := gb_shift RNum (gbf a b c) (znth_p RNum ps i) in let q := znth_p RNum ps j in
   forall w, 0 <= w <= W -> sqrt (dist2_at dt g q s) < pr (znth_p RNum ps i) + pr q - (sqrt 3 / 2 - kap) * w) ->
  In (Z.of_nat i, Z.of_nat j, gbid a b c) (search_linetree RNum kap gbf ngx ngy ngz mr1 dt ps roots).
Proof. exact line_subset_linetree. Qed.
Print Assumptions C13_linetree_complete.
Theorem C13_linetree_complete_partial : forall gbf ngx ngy ngz mr1 dt ps W roots a b c i j t s,
  forest_ok ps W roots -> In (Some t) roots -> In j (gleaves t) ->
  (forall a b c, gvx (gbf a b c) = 0 /\ gvy (gbf a b c) = 0 /\ gvz (gbf a b c) = 0) ->
  In a (ring (gcol ngx)) -> In b (ring (gcol ngy)) -> In c (ring (gcol ngz)) -> (i < length ps)%nat -> i <> j ->
  line_hit RNum gbf dt ps a b c i j = true ->
  0 <= pr (znth_p RNum ps i) -> 0 <= mr1 -> pr (znth_p RNum ps j) <= mr1 -> 0 <= s <= 1 ->
  (let g := gb_shift RNum (gbf a b c) (znth_p RNum ps i) in let q := znth_p RNum ps j in
   sqrt (dist2_at dt g q s) < pr (znth_p RNum ps i) + pr q - W / 100000000000000) ->
  In (Z.of_nat i, Z.of_nat j, gbid a b c) (search_linetree RNum (kappa_lit RNum) gbf ngx ngy ngz mr1 dt ps roots).
Proof. exact line_subset_linetree_code. Qed.

(* the well-formedness hypothesis is what C15's proved-sound dump checker wf_b establishes (integer geometry, unit un) *)
Theorem C13_tree_wf_from_C15 : forall (u : Z) (pos : nat -> C15.Tree.P3) (un : R) (ps : list (particle R)),
  0 < un ->
  (forall p, let '(x, y, z) := pos p in
     px (znth_p RNum ps p) = un * IZR x /\ py (znth_p RNum ps p) = un * IZR y /\ pz (znth_p RNum ps p) = un * IZR z) ->
  forall l c d W, C15.Tree.wf_b u pos l c d = true -> un * IZR (2 * C15.Tree.hw u l) <= W -> (0 <= C15.Tree.hw u l)%Z ->
  gleaves (of_dcell un d) = C15.Tree.leaves (C15.Tree.erase d) /\ gwf ps W (of_dcell un d).
Proof. exact wf_b_gwf. Qed.
Print Assumptions C13_tree_wf_from_C15.

(* TREE == DIRECT as sets of UNORDERED pairs (open/periodic ghost boxes): a pair DIRECT reports is reported by TREE in at
   least one orientation (the other one with the opposite ghost box) as soon as ONE of the two radii is <= max_radius1 —
   which C13_max_radius_upper_bound guarantees for every pair; kap and the overlap margin as in C13_tree_complete *)
Theorem C13_tree_unordered_complete : forall kap bx by_ bz ngx ngy ngz mr1 ps W roots a b c i j ti tj,
  let gbf := gb_periodic RNum bx by_ bz in
  (0 <= ngx)%Z -> (0 <= ngy)%Z -> (0 <= ngz)%Z ->
  forest_ok ps W roots -> In (Some tj) roots -> In j (gleaves tj) -> In (Some ti) roots -> In i (gleaves ti) ->
  In a (ring (gcol ngx)) -> In b (ring (gcol ngy)) -> In c (ring (gcol ngz)) ->
  (i < length ps)%nat -> (j < length ps)%nat -> i <> j ->
  direct_hit RNum gbf ps a b c i j = true ->
  0 <= pr (znth_p RNum ps i) -> 0 <= pr (znth_p RNum ps j) -> 0 <= mr1 -> 0 <= kap ->
  (pr (znth_p RNum ps i) <= mr1 \/ pr (znth_p RNum ps j) <= mr1) ->
  (let g := gb_shift RNum (gbf a b c) (znth_p RNum ps i) in let q := znth_p RNum ps j in
   forall w, 0 <= w <= W ->
     nrm (gx g - px q) (gy g - py q) (gz g - pz q) < pr (znth_p RNum ps i) + pr q - (sqrt 3 / 2 - kap) * w) ->
  In (Z.of_nat i, Z.of_nat j, gbid a b c) (search_tree RNum kap gbf ngx ngy ngz mr1 ps roots) \/
  In (Z.of_nat j, Z.of_nat i, gbid (- a) (- b) (- c)) (search_tree RNum kap gbf ngx ngy ngz mr1 ps roots).
Proof. exact direct_subset_tree_unordered. Qed.
Print Assumptions C13_tree_unordered_complete.

(* ================= hybrid integrators (MERCURIUS mode 1, TRACE Kepler mode): search restricted to the encounter map ======= *)
From RV Require Import C13.Hybrid.
(* a pair of distinct positions of the encounter map that passes the DIRECT test is handed to resolve (every arithmetic) *)
Theorem C13_hybrid_mapped_complete : forall (T : Type) (N : Num T) gbf ngx ngy ngz ps emap ninner a b c i j,
  In a (ring (gcol ngx)) -> In b (ring (gcol ngy)) -> In c (ring (gcol ngz)) ->
  (i < length emap)%nat -> (j < ninner)%nat -> i <> j ->
  direct_hit N gbf ps a b c (nth i emap O) (nth j emap O) = true ->
  In (Z.of_nat (nth i emap O), Z.of_nat (nth j emap O), gbid a b c) (search_direct_mapped N gbf ngx ngy ngz ps emap ninner).
Proof. exact @mapped_complete. Qed.

(* completeness condition of the hybrid search: reb_mercurius_encounter_predict puts both particles in the map iff
   rmin < 1.21 max(dcrit_i,dcrit_j)^2 with rmin <= every sampled squared distance.  If dcrit_k >= c r_k for every particle with
   1.1 c > 2 (the code uses c = 2, "Criteria 4", and dcrit[0] = 2 r_star), every sampled overlap is flagged *)
Theorem C13_dcrit_covers_overlap : forall c ri rj dci dcj d2 rmin : R,
  2 < 11 / 10 * c -> 0 <= ri -> 0 <= rj -> c * ri <= dci -> c * rj <= dcj -> 0 < Rmax dci dcj ->
  rmin <= d2 -> d2 <= (ri + rj) * (ri + rj) ->
  rmin < 121 / 100 * (Rmax dci dcj * Rmax dci dcj).
Proof. exact dcrit_covers_overlap. Qed.
Print Assumptions C13_dcrit_covers_overlap.
Theorem C13_dcrit_two_radii : forall ri rj dci dcj d2 rmin : R,
  0 <= ri -> 0 <= rj -> 2 * ri <= dci -> 2 * rj <= dcj -> 0 < Rmax dci dcj ->
  rmin <= d2 -> d2 <= (ri + rj) * (ri + rj) ->
  rmin < 121 / 100 * (Rmax dci dcj * Rmax dci dcj).
Proof. exact dcrit_two_radii. Qed.
(* the hypothesis is needed: with a critical radius that fell behind the physical radius an overlapping pair is not flagged *)
Theorem C13_stale_dcrit_refuted : exists ri rj dci dcj d2,
  0 <= ri /\ 0 <= rj /\ 0 < Rmax dci dcj /\ d2 <= (ri + rj) * (ri + rj) /\ ~ (d2 < 121 / 100 * (Rmax dci dcj * Rmax dci dcj)).
Proof. exact stale_dcrit_not_flagged. Qed.

(* the hypothesis "dcrit is recomputed after every change" over the table REGENERATED from the current source: every function
   with a simulation parameter that increments r->N or assigns a particle's r or m refreshes dcrit on every path *)
From RV Require Import Gen.C13Dcrit C13.DcritSites.
Theorem C13_dcrit_refreshed_at_every_site : forall s, In s dcrit_sites -> snd s = true.
Proof. exact dcrit_site_refreshed. Qed.
Print Assumptions C13_dcrit_refreshed_at_every_site.

(* ================= merge / hard sphere without the hypothesis m_i + m_j <> 0: two massless particles are covered ========== *)
(* mass_ok a b := pm a + pm b <> 0 \/ (pm a = 0 /\ pm b = 0) *)
Theorem C13_merge_conserves_gen : forall t cb ps p1 p2 a b,
  zth ps p1 = Some a -> zth ps p2 = Some b -> plc a <> t -> plc b <> t -> mass_ok a b ->
  exists q,
    merge RNum t cb ps p1 p2 = (upd ps (Z.to_nat (keep_ix p1 p2)) q, (if (p2 <? p1)%Z then 1 else 2)%Z) /\
    pm q = pm a + pm b /\ mom q = add3 (mom a) (mom b) /\ mpos q = add3 (mpos a) (mpos b) /\
    pr q = cb /\ plc q = t /\ phash q = phash (if (p2 <? p1)%Z then b else a) /\
    (pm a = 0 -> pm b = 0 ->
       px q = (px a + px b) / 2 /\ py q = (py a + py b) / 2 /\ pz q = (pz a + pz b) / 2 /\
       pvx q = (pvx a + pvx b) / 2 /\ pvy q = (pvy a + pvy b) / 2 /\ pvz q = (pvz a + pvz b) / 2).
Proof. exact merge_conserves_gen. Qed.
Print Assumptions C13_merge_conserves_gen.
Theorem C13_merge_conserves_total_gen : forall (flag : particle R -> particle R) t cb ps p1 p2 a b keep nact,
  zth ps p1 = Some a -> zth ps p2 = Some b -> p1 <> p2 -> plc a <> t -> plc b <> t -> mass_ok a b ->
  exists ps' ps'' nact',
    fst (merge RNum t cb ps p1 p2) = ps' /\
    remove_particle flag false keep nact ps' (gone_ix p1 p2) = (ps'', nact', true) /\
    S (length ps'') = length ps /\
    Forall (fun f => tot f ps'' = tot f ps) conserved.
Proof. exact merge_total_model_gen. Qed.
(* separation and Newton's restitution law hold for EVERY pair of masses (the fractions p1pf + p2pf = 1 also when both are 1/2) *)
Theorem C13_hardsphere_separating_any : forall t eps mcv st ct sp cp g p1 p2 q1 q2,
  hardsphere RNum t eps mcv st ct sp cp g p1 p2 = Some (q1, q2) -> forall Rr,
  0 <= Rr -> px p1 + gx g - px p2 = Rr * cp -> py p1 + gy g - py p2 = Rr * (sp * ct) ->
  pz p1 + gz g - pz p2 = Rr * (sp * st) ->
  ct * ct + st * st = 1 -> cp * cp + sp * sp = 1 -> 0 <= eps ->
  0 <= (pvx q1 + gvx g - pvx q2) * (px p1 + gx g - px p2) + (pvy q1 + gvy g - pvy q2) * (py p1 + gy g - py p2)
       + (pvz q1 + gvz g - pvz q2) * (pz p1 + gz g - pz p2).
Proof. exact hs_separating_any. Qed.
Theorem C13_hardsphere_restitution_any : forall t eps mcv st ct sp cp g p1 p2 q1 q2,
  hardsphere RNum t eps mcv st ct sp cp g p1 p2 = Some (q1, q2) ->
  mcv = 0 -> hs_vn st ct sp cp g p1 p2 <= 0 -> 0 <= 1 + eps ->
  ct * ct + st * st = 1 -> cp * cp + sp * sp = 1 ->
  hs_vn st ct sp cp g q1 q2 = - eps * hs_vn st ct sp cp g p1 p2.
Proof. exact hs_restitution_any. Qed.
Print Assumptions C13_hardsphere_restitution_any.
(* two massless particles: opposite, equal velocity changes (finite); momentum and energy are zero before and after *)
Theorem C13_hardsphere_massless : forall t eps mcv st ct sp cp g p1 p2 q1 q2,
  hardsphere RNum t eps mcv st ct sp cp g p1 p2 = Some (q1, q2) -> pm p1 = 0 -> pm p2 = 0 ->
  pvx q1 - pvx p1 = - (pvx q2 - pvx p2) /\ pvy q1 - pvy p1 = - (pvy q2 - pvy p2) /\ pvz q1 - pvz p1 = - (pvz q2 - pvz p2) /\
  pvx q1 = pvx p1 + cp * hs_dvx2 RNum eps mcv p1 p2 (px p1 + gx g - px p2) (py p1 + gy g - py p2) (pz p1 + gz g - pz p2)
                              (hs_vn st ct sp cp g p1 p2) / 2 /\
  pm q1 = 0 /\ pm q2 = 0.
Proof. exact hs_massless. Qed.

(* ================= corners excluded by the hypotheses above: what the code does there (binary64 instance of the model) ===== *)
From RV Require Import Common.FloatNum C13.Corners.
From Coq Require Import PrimFloat.   (* last block of the file: shadows Reals.sqrt etc. from here on *)
(* m_a + m_b = 0 with two massless (test) particles: the survivor sits at the midpoint with the mean velocity (binary64 witness;
   over R: C13_merge_conserves_gen below) *)
Theorem C13_merge_massless_midpoint :
  let '(ps', o) := merge FloatNum.FNum 1%float 0x1.999999999999ap-4%float
                         [tp 5%float 0x1.999999999999ap-4%float 1000; tp 0x1.499999999999ap+2%float (-0x1.999999999999ap-4)%float 1001] 0%Z 1%Z in
  o = 2%Z /\ map (fun p : fp => (px p, pvx p, pm p)) (firstn 1 ps') = [(0x1.44ccccccccccdp+2, 0, 0)%float].
Proof. exact merge_massless_midpoint. Qed.
(* m_1 + m_2 = 0 in a hard-sphere bounce: the impulse is shared equally; at restitution 1 the velocities are exchanged *)
Theorem C13_hardsphere_massless_exchange :
  match hardsphere FloatNum.FNum 1%float 1%float 0%float 0%float 1%float 0%float (-1)%float (mkV6 0 0 0 0 0 0)%float
                   (tp 5%float 0x1.999999999999ap-4%float 1000) (tp 0x1.499999999999ap+2%float (-0x1.999999999999ap-4)%float 1001) with
  | Some (q1, q2) => (pvx q1, pvx q2)
  | None => (PrimFloat.nan, PrimFloat.nan)
  end = (-0x1.999999999999ap-4, 0x1.999999999999ap-4)%float.
Proof. exact hardsphere_massless_exchange. Qed.
(* a NaN coordinate passes the pair test (both comparisons of the code are false for NaN) *)
Theorem C13_direct_test_nan_passes :
  direct_test FloatNum.FNum (mkV6 PrimFloat.nan 0 0 0 0 0)%float 0%float (mkF 1000 1000 1000 0 0 0 1 0 0 7%Z)%float = true.
Proof. exact direct_test_nan_passes. Qed.
(* dt_last_done = 0, excluded in C13_line_complete_and_sound: the LINE test degenerates to the overlap test at the end positions *)
Theorem C13_line_dt_zero : 
  line_test FloatNum.FNum 0%float (mkV6 0 0 0 1 0 0)%float 0x1p-1%float (mkF 0x1.8p-1 0 0 0 0 0 1 0x1p-2 0 7%Z)%float = true /\
  line_test FloatNum.FNum 0%float (mkV6 0 0 0 1 0 0)%float 0x1p-1%float (mkF 0x1.8p+0 0 0 0 0 0 1 0x1p-2 0 7%Z)%float = false /\
  line_test FloatNum.FNum 0%float (mkV6 0 0 0 0 0 0)%float 0x1p-1%float (mkF 0x1.8p-1 0 0 0 0 0 1 0x1p-2 0 7%Z)%float = true.
Proof. exact line_dt_zero_is_overlap_test. Qed.
(* N = 0 and N = 1: nothing found, nothing resolved *)
Theorem C13_smallest_N :
  search_direct FloatNum.FNum (gb_periodic FloatNum.FNum 1 1 1)%float 1 1 1 [] = [] /\
  search_direct FloatNum.FNum (gb_periodic FloatNum.FNum 1 1 1)%float 1 1 1 [tp 0%float 0%float 1%Z] = [] /\
  search_line FloatNum.FNum (gb_periodic FloatNum.FNum 1 1 1)%float 1 1 1 1%float [tp 0%float 0%float 1%Z] = [] /\
  loop_ids false false false (-1) [] [] [] = ([], [], (-1)%Z).
Proof. exact search_empty. Qed.

(* ================= hybrid integrators: the renumbering rule of the loop must be the removal discipline actually used ========= *)
(* the loop's local collision_resolve_keep_sorted is forced to 1 for MERCURIUS/TRACE because reb_simulation_remove_particle forces
   sorted removal there; resolve_loop_k with hyb = true and keep = false is the loop WITHOUT that forcing (unsorted renumbering of
   the pending entries, sorted removal): the second pending pair (2,3) = ids (1002,1003) is then handed over as (1003,1004) *)
Theorem C13_hybrid_renumbering_refuted :
  let ids := [1000; 1001; 1002; 1003; 1004]%Z in
  let pend := [(1, 0, 13); (2, 3, 13)]%Z in
  let run k := let '(_, _, _, log) := resolve_loop_k (fun p : idp => fst p) (fun p : idp => (fst p, true)) res_outs false true k
                                        (fun e => e) (-1)%Z [1; 2]%Z (map (fun i => (i, false)) ids) pend in map ev_id log in
  run true = [(1001, 1000, 13, 1); (1002, 1003, 13, 2)]%Z /\ run false = [(1001, 1000, 13, 1); (1003, 1004, 13, 2)]%Z.
Proof. exact hybrid_renumbering. Qed.
