(* C14 proofs, part C: lookup by hash for any staleness; every operation refines the list
   specification; runs; N_active consistency (refuted in general, proved for the adjusting paths). *)
From Coq Require Import List ZArith NArith Bool Arith Lia ZifyBool.
From RV Require Import C14.Model C14.Lists C14.ProofsA C14.ProofsB.
Import ListNotations.

Lemma fresh_search : forall s h r ob, wf s -> fresh s -> search_tab s h = (r, ob) ->
  ob = oob s /\
  match r with
  | Some i => i < sN s /\ phash (nth i (mem s) pzero) = h
  | None => forall i, i < sN s -> phash (nth i (mem s) pzero) <> h
  end.
Proof.
  intros s h r ob [Hm Ht] (F1 & F2 & F3 & F4) H. unfold search_tab in H.
  pose proof H as H'. apply search_sound in H'; try lia. destruct H' as [-> Hs]. split; auto.
  destruct r as [i|].
  - destruct (Hs i eq_refl) as [mi [Hmi [He Hi]]]. split; auto.
    destruct (F3 (Z.to_nat mi) ltac:(lia)) as [_ F]. rewrite He in F. cbn in F. auto.
  - intros i Hi Hh. destruct (F4 i Hi) as [j [Hj Hj2]].
    pose proof (search_complete (S (nlook s)) (tab s) 0%Z (Z.of_nat (nlook s) - 1)%Z (sN s) h (oob s) (oob s) (nlook s)) as C.
    specialize (C ltac:(lia) ltac:(lia) ltac:(lia) F2 (fun j0 H0 _ => proj1 (F3 j0 H0)) H j Hj).
    apply C; [congruence|lia].
Qed.

Lemma with_oob_wf : forall s ob, wf s -> wf (with_oob s ob).
Proof. intros s ob [? ?]. split; auto. Qed.

Lemma rebuild_tcfg : forall s, tcfg (rebuild s) = tcfg s.
Proof. intros. unfold rebuild. destruct (rebuild_loop _ _ _ _ _ _) as [[? ?] ?]. reflexivity. Qed.

Lemma rebuild_then_search : forall s h r ob, wf s -> search_tab (rebuild s) h = (r, ob) ->
  wf (with_oob (rebuild s) ob) /\ oob (with_oob (rebuild s) ob) = oob s /\ abs (with_oob (rebuild s) ob) = abs s /\
  match r with
  | Some i => i < sN s /\ phash (nth i (mem s) pzero) = h
  | None => forall i, i < sN s -> phash (nth i (mem s) pzero) <> h
  end.
Proof.
  intros s h r ob Hwf H.
  destruct (rebuild_spec s Hwf) as (R1 & R2 & R3 & R4 & R5 & R6 & RF).
  assert (Hwf3 : wf (rebuild s)).
  { destruct Hwf, RF as [? _]. split; auto. rewrite R1, R2. auto. }
  apply fresh_search in H; auto. destruct H as [-> H].
  rewrite R1, R2 in H. repeat split; auto; try (apply Hwf3).
  unfold abs; cbn. now rewrite rebuild_tcfg, R1, R2, R3, R4, R5.
Qed.

(* reb_simulation_particle_by_hash: correct for ANY lookup table (any staleness), duplicates and zero
   hashes included; touches only the table; no out-of-bounds access *)
Lemma by_hash_spec : forall s h s' r, wf s -> by_hash s h = (s', r) ->
  wf s' /\ oob s' = oob s /\ abs s' = abs s /\
  match r with
  | Some i => i < sN s /\ phash (nth i (mem s) pzero) = h
  | None => forall i, i < sN s -> phash (nth i (mem s) pzero) <> h
  end.
Proof.
  intros s h s' r Hwf H. unfold by_hash in H.
  destruct (search_tab s h) as [r1 ob1] eqn:E1.
  pose proof Hwf as [Hm Ht].
  pose proof E1 as E1'. unfold search_tab in E1'. apply search_sound in E1'; try lia.
  destruct E1' as [-> Hs].
  destruct r1 as [i|].
  - destruct (Hs i eq_refl) as [mi [_ [_ Hi]]].
    rewrite chk_in in H by lia. rewrite Nat.add_0_r in H.
    destruct (phash (nth i (mem s) pzero) =? h)%N eqn:E2.
    + inversion H; subst; clear H. repeat split; auto. lia.
    + destruct (search_tab (rebuild (with_oob s (oob s))) h) as [r2 ob2] eqn:E3.
      inversion H; subst; clear H.
      apply rebuild_then_search in E3; [|apply with_oob_wf; auto]. exact E3.
  - destruct (search_tab (rebuild (with_oob s (oob s))) h) as [r2 ob2] eqn:E3.
    inversion H; subst; clear H.
    apply rebuild_then_search in E3; [|apply with_oob_wf; auto]. exact E3.
Qed.

(* has_hash in terms of indices *)
Lemma has_hash_nth : forall s h, wf s ->
  (has_hash h (aps (abs s)) <-> exists i, i < sN s /\ phash (nth i (mem s) pzero) = h).
Proof.
  intros s h Hwf. pose proof (abs_len s Hwf) as HL. unfold has_hash. cbn in *. split.
  - intros [p [Hin Hp]]. apply (In_nth_lt _ _ _ pzero) in Hin. destruct Hin as [j [Hj He]].
    rewrite HL in Hj. exists j. split; auto. rewrite nth_firstn_lt in He by lia. now rewrite He.
  - intros [i [Hi Hp]]. exists (nth i (firstn (sN s) (mem s)) pzero). split.
    + apply nth_In. lia.
    + now rewrite nth_firstn_lt by lia.
Qed.

(* ---------------- one step refines the specification *)
Definition inv (s : state) : Prop := wf s /\ nact_ok (abs s).

Theorem step_refines : forall s o s' r, inv s -> user_ok (abs s) o -> step s o = (s', r) ->
  inv s' /\ oob s' = oob s /\ res_ok (abs s) o r /\ abs s' = aspec (abs s) o r.
Proof.
  intros s o s' r [Hwf Hna] Hu H. pose proof (abs_len s Hwf) as HL. unfold inv.
  destruct o as [p|z keep|h keep|i h|h| |z|k]; cbn [step] in H.
  - unfold add_op, add_refused in H. unfold res_ok.
    change (acfg (abs s)) with (tcfg s). change (aps (abs s)) with (firstn (sN s) (mem s)).
    destruct (tcfg s && existsb _ (firstn (sN s) (mem s))) eqn:ER; inversion H; subst; clear H.
    + destruct (add_slot_spec s p Hwf) as (A1 & A2 & A3).
      split; [split; [exact A1|]|repeat split; auto]. rewrite A3. unfold nact_ok in *. cbn [aps aNact] in *. auto.
    + destruct (add_spec s p Hwf) as (A1 & A2 & A3).
      split; [split; [exact A1|]|repeat split; auto].
      rewrite A3. unfold nact_ok in *. cbn [aps aNact]. rewrite app_length. cbn [length]. lia.
  - apply remove_idx_spec in H; auto. destruct H as (W & O & _ & _ & H).
    unfold res_ok. fold (valid_idx (abs s) z).
    destruct (valid_idx (abs s) z && negb (refused (abs s) keep)) eqn:E.
    + destruct H as [-> HA].
      assert (Hi : Z.to_nat z < length (aps (abs s))) by (unfold valid_idx in E; lia).
      split; [split; [exact W|rewrite HA; apply aremove_nact; auto]|].
      split; [exact O|]. split; [reflexivity|]. rewrite HA.
      unfold removed_result, aspec; destruct (negb keep && atree (abs s)); auto.
    + destruct H as [-> ->]. repeat split; auto; apply Hwf.
  - unfold remove_hash in H. destruct (by_hash s h) as [s1 r1] eqn:EB.
    apply by_hash_spec in EB; auto. destruct EB as (W1 & O1 & A1 & R1).
    destruct r1 as [i|].
    + destruct R1 as [Hi Hh].
      apply remove_idx_spec in H; auto. destruct H as (W & O & _ & _ & H).
      rewrite A1 in H. unfold valid_idx in H. rewrite HL in H.
      replace ((0 <=? Z.of_nat i) && (Z.of_nat i <? Z.of_nat (sN s)))%Z with true in H by lia.
      rewrite Nat2Z.id in H. cbn [andb] in H.
      destruct (refused (abs s) keep) eqn:ER; cbn [negb] in H.
      * destruct H as [-> ->]. split; [split; [exact W1|rewrite A1; auto]|].
        split; [lia|]. split; [|exact A1]. left; auto.
      * destruct H as [-> HA].
        split; [split; [exact W|rewrite HA; apply aremove_nact; auto; lia]|].
        split; [lia|]. split.
        { right. exists i. rewrite HL. repeat split; auto. cbn. now rewrite nth_firstn_lt by lia. }
        { rewrite HA. unfold removed_result, aspec.
          destruct (negb keep && atree (abs s)); auto. }
    + inversion H; subst; clear H. split; [split; [exact W1|rewrite A1; auto]|].
      split; [exact O1|]. split; [|exact A1].
      left. split; auto. left. rewrite has_hash_nth by auto. intros [i [Hi Hh]]. apply (R1 i Hi Hh).
  - apply set_hash_spec in H; auto. destruct H as (W & O & H).
    unfold res_ok. destruct (i <? length (aps (abs s))).
    + destruct H as [-> HA]. split; [split; [exact W|]|repeat split; auto].
      rewrite HA. unfold nact_ok in *. cbn [aps aNact]. rewrite upd_length. auto.
    + destruct H as [-> ->]. repeat split; auto; apply Hwf.
  - destruct (by_hash s h) as [s1 r1] eqn:EB. inversion H; subst; clear H.
    apply by_hash_spec in EB; auto. destruct EB as (W1 & O1 & A1 & R1).
    split; [split; [exact W1|rewrite A1; auto]|]. split; [exact O1|]. split.
    + destruct r1 as [i|].
      * right. exists i. destruct R1. rewrite HL. repeat split; auto. cbn. now rewrite nth_firstn_lt by lia.
      * left. split; auto. rewrite has_hash_nth by auto. intros [i [Hi Hh]]. apply (R1 i Hi Hh).
    + destruct r1; auto.
  - inversion H; subst; clear H. destruct Hwf. unfold wf, remove_all, nact_ok; cbn. repeat split; auto.
  - inversion H; subst; clear H. destruct Hwf. cbn [user_ok] in Hu. unfold wf, nact_ok; cbn.
    rewrite HL in Hu. rewrite firstn_length. repeat split; auto. lia.
  - inversion H; subst; clear H. destruct Hwf. unfold wf; cbn. repeat split; auto.
Qed.

(* ---------------- runs *)
Theorem run_refines : forall ops s s' rs, inv s -> run_ok s ops -> run s ops = (s', rs) ->
  inv s' /\ oob s' = oob s /\ spec_trace (abs s) ops rs (abs s').
Proof.
  induction ops as [|o ops IH]; intros s s' rs Hinv Hok H; cbn [run] in H.
  - inversion H; subst. repeat split; auto; apply Hinv.
  - destruct Hok as [Hu Hok]. destruct (step s o) as [s1 x] eqn:E1. destruct (run s1 ops) as [s2 xs] eqn:E2.
    inversion H; subst; clear H. cbn [fst] in Hok.
    apply step_refines in E1; auto. destruct E1 as (W1 & O1 & R1 & A1).
    apply IH in E2; auto. destruct E2 as (W2 & O2 & T2).
    split; [exact W2|]. split; [lia|]. cbn [spec_trace]. split; [exact R1|]. rewrite <- A1. exact T2.
Qed.

Lemma init_inv : forall tr, inv (init tr).
Proof. intros. split; [split; cbn; lia|left; reflexivity]. Qed.

(* ---------------- invalid requests *)
Theorem invalid_rejected : forall s o s' r, wf s -> invalid (abs s) o -> step s o = (s', r) ->
  r = RFail /\ abs s' = abs s.
Proof.
  intros s o s' r Hwf Hinv H. pose proof (abs_len s Hwf) as HL.
  destruct o as [p|z keep|h keep|i h|h| |z|k]; cbn [invalid] in Hinv; try contradiction; cbn [step] in H.
  - unfold remove_idx in H. rewrite HL in Hinv.
    replace ((Z.of_nat (sN s) <=? z) || (z <? 0))%Z with true in H by lia.
    inversion H; subst. auto.
  - unfold remove_hash in H. destruct (by_hash s h) as [s1 r1] eqn:EB.
    apply by_hash_spec in EB; auto. destruct EB as (W1 & O1 & A1 & R1).
    destruct r1 as [i|].
    + exfalso. apply Hinv. rewrite has_hash_nth by auto. exists i. auto.
    + inversion H; subst; clear H. auto.
Qed.

(* ---------------- N_active consistency: preserved by every operation except an inconsistent write by
   the user *)
Theorem nact_consistent : forall s o s' r, wf s -> nact_ok (abs s) -> user_ok (abs s) o ->
  step s o = (s', r) -> nact_ok (abs s').
Proof.
  intros s o s' r Hwf Hn Hu H. apply step_refines in H; auto; [|split; auto]. apply H.
Qed.

(* lookup correctness stated on the abstract particle list; [s] is ANY well-formed state: nothing is
   assumed about the contents of the lookup table (any staleness) *)
Theorem lookup_correct : forall s h s' r, wf s -> by_hash s h = (s', r) ->
  abs s' = abs s /\ oob s' = oob s /\
  match r with
  | Some i => i < length (aps (abs s)) /\ phash (nth i (aps (abs s)) pzero) = h
  | None => ~ has_hash h (aps (abs s))
  end.
Proof.
  intros s h s' r Hwf H. pose proof (abs_len s Hwf) as HL.
  apply by_hash_spec in H; auto. destruct H as (_ & O & A & R). repeat split; auto.
  destruct r as [i|].
  - destruct R. rewrite HL. split; auto. cbn. now rewrite nth_firstn_lt by lia.
  - rewrite has_hash_nth by auto. intros [i [Hi Hh]]. apply (R i Hi Hh).
Qed.

Theorem memory_safe_runok : forall tr ops, run_ok (init tr) ops -> oob (fst (run (init tr) ops)) = 0.
Proof.
  intros tr ops Hok. destruct (run (init tr) ops) as [s' rs] eqn:E.
  apply run_refines in E; auto; [|apply init_inv]. destruct E as (_ & O & _). cbn. rewrite O. reflexivity.
Qed.

Theorem refines : forall tr ops s' rs, run_ok (init tr) ops -> run (init tr) ops = (s', rs) ->
  spec_trace (mkA tr [] (-1) 0 tr) ops rs (abs s') /\ nact_ok (abs s').
Proof.
  intros tr ops s' rs Hok E. apply run_refines in E; auto; [|apply init_inv].
  destruct E as ([_ N] & _ & T). split; auto.
Qed.

(* storage invariant and memory safety need no hypothesis at all (since the unsorted removal no longer
   indexes the particle array with N_active) *)
Lemma step_wf : forall s o s' r, wf s -> step s o = (s', r) -> wf s' /\ oob s' = oob s.
Proof.
  intros s o s' r Hwf H. destruct o as [p|z keep|h keep|i h|h| |z|k]; cbn [step] in H.
  - unfold add_op in H. destruct (add_refused s p); inversion H; subst.
    + destruct (add_slot_spec s p Hwf) as (A1 & A2 & _). auto.
    + destruct (add_spec s p Hwf) as (A1 & A2 & _). auto.
  - apply remove_idx_spec in H; auto. destruct H as (W & O & _). auto.
  - unfold remove_hash in H. destruct (by_hash s h) as [s1 [i|]] eqn:EB;
      apply by_hash_spec in EB; auto; destruct EB as (W1 & O1 & _).
    + apply remove_idx_spec in H; auto. destruct H as (W & O & _). split; auto. lia.
    + inversion H; subst. auto.
  - apply set_hash_spec in H; auto. destruct H as (W & O & _). auto.
  - destruct (by_hash s h) as [s1 r1] eqn:EB. inversion H; subst.
    apply by_hash_spec in EB; auto. destruct EB as (W1 & O1 & _). auto.
  - inversion H; subst. destruct Hwf. unfold wf, remove_all; cbn. auto.
  - inversion H; subst. destruct Hwf. unfold wf; cbn. auto.
  - inversion H; subst. destruct Hwf. unfold wf; cbn. auto.
Qed.

Theorem memory_safe_all : forall ops s, wf s -> wf (fst (run s ops)) /\ oob (fst (run s ops)) = oob s.
Proof.
  induction ops as [|o ops IH]; intros s Hwf; cbn [run]; [cbn; auto|].
  destruct (step s o) as [s1 x] eqn:E1. apply step_wf in E1; auto. destruct E1 as [W1 O1].
  specialize (IH s1 W1). destruct (run s1 ops) as [s2 xs]. cbn in *. destruct IH. split; auto. lia.
Qed.

Theorem memory_safe : forall tr ops, oob (fst (run (init tr) ops)) = 0.
Proof. intros. destruct (memory_safe_all ops (init tr)) as [_ O]; [split; cbn; lia|]. rewrite O. reflexivity. Qed.

(* a state whose lookup table is stale: built, then invalidated by removals and re-hashing; N_active is
   set, and the unsorted removal of an active particle that follows exercises the new contiguity rule *)
Definition stale_ops : list op :=
  [Add (mkP 5 1 false); Add (mkP 0 2 false); Add (mkP 5 3 false); Add (mkP 9 4 false);
   Lookup 9; SetNActive 2; RemoveIdx 0 false; SetHash 1 9].
Definition stale_example : state := fst (run (init false) stale_ops).
