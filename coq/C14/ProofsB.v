(* C14 proofs, part B: the lazy lookup table.  Binary search is sound on ANY table and complete on a
   sorted one; a rebuild produces exactly one entry per non-zero-hash particle and one entry for the
   zero hash; hence lookup by hash is correct for any staleness of the table. *)
From Coq Require Import List ZArith NArith Bool Arith Lia ZifyBool Permutation.
From RV Require Import C14.Model C14.Lists C14.ProofsA.
Import ListNotations.

Definition d0 : N * nat := (0%N, 0).

Lemma mid_bounds : forall l r, (l <= r)%Z -> (l <= (l + r) / 2 <= r)%Z.
Proof. intros. split; [apply Z.div_le_lower_bound|apply Z.div_le_upper_bound]; lia. Qed.

(* soundness + memory safety of the binary search, for an arbitrary table *)
Lemma search_sound : forall fuel t l r n h ob res ob',
  (0 <= l)%Z -> (r < Z.of_nat (length t))%Z -> search fuel t l r n h ob = (res, ob') ->
  ob' = ob /\ forall i, res = Some i ->
     exists mi, (l <= mi <= r)%Z /\ nth (Z.to_nat mi) t d0 = (h, i) /\ i < n.
Proof.
  induction fuel; intros t l r n h ob res ob' Hl Hr H; cbn [search] in H.
  - inversion H; subst. split; auto. discriminate.
  - destruct (l <=? r)%Z eqn:E.
    2:{ inversion H; subst. split; auto. discriminate. }
    pose proof (mid_bounds l r ltac:(lia)) as Hm.
    set (m := ((l + r) / 2)%Z) in *.
    rewrite chk_in in H by lia. rewrite Nat.add_0_r in H.
    change (0%N, 0) with d0 in H.
    destruct (fst (nth (Z.to_nat m) t d0) <? h)%N eqn:E1.
    { apply IHfuel in H; try lia. destruct H as [? H]. split; auto.
      intros i Hi. destruct (H i Hi) as [mi [? ?]]. exists mi. split; auto. lia. }
    destruct (h <? fst (nth (Z.to_nat m) t d0))%N eqn:E2.
    { apply IHfuel in H; try lia. destruct H as [? H]. split; auto.
      intros i Hi. destruct (H i Hi) as [mi [? ?]]. exists mi. split; auto. lia. }
    destruct (snd (nth (Z.to_nat m) t d0) <? n) eqn:E3; inversion H; subst; (split; [auto|]); intros i Hi; [|discriminate].
    inversion Hi; subst. exists m. repeat split; try lia.
    destruct (nth (Z.to_nat m) t d0) as [a b]; cbn in *. f_equal. lia.
Qed.

(* completeness on a table whose first k entries are sorted by hash and carry in-range indices *)
Lemma search_complete : forall fuel t l r n h ob ob' k,
  (0 <= l)%Z -> (r < Z.of_nat k)%Z -> (Z.of_nat fuel > r - l + 1)%Z ->
  (forall i j, i <= j -> j < k -> (fst (nth i t d0) <= fst (nth j t d0))%N) ->
  (forall j, j < k -> fst (nth j t d0) = h -> snd (nth j t d0) < n) ->
  search fuel t l r n h ob = (None, ob') ->
  forall j, j < k -> fst (nth j t d0) = h -> ~ (l <= Z.of_nat j <= r)%Z.
Proof.
  induction fuel; intros t l r n h ob ob' k Hl Hr Hf Hs Hn H j Hj Hh; cbn [search] in H.
  - lia.
  - destruct (l <=? r)%Z eqn:E; [|lia].
    pose proof (mid_bounds l r ltac:(lia)) as Hm.
    set (m := ((l + r) / 2)%Z) in *.
    change (0%N, 0) with d0 in H.
    assert (Hmk : Z.to_nat m < k) by lia.
    destruct (fst (nth (Z.to_nat m) t d0) <? h)%N eqn:E1.
    { intros Hw. destruct (Z.le_gt_cases (Z.of_nat j) m).
      - specialize (Hs j (Z.to_nat m) ltac:(lia) Hmk). lia.
      - pose proof (IHfuel t (m + 1)%Z r n h (ob + chk (length t) (Z.to_nat m)) ob' k) as IH.
        specialize (IH ltac:(lia) Hr ltac:(lia) Hs Hn H j Hj Hh). lia. }
    destruct (h <? fst (nth (Z.to_nat m) t d0))%N eqn:E2.
    { intros Hw. destruct (Z.le_gt_cases m (Z.of_nat j)).
      - specialize (Hs (Z.to_nat m) j ltac:(lia) Hj). lia.
      - pose proof (IHfuel t l (m - 1)%Z n h (ob + chk (length t) (Z.to_nat m)) ob' k) as IH.
        specialize (IH Hl ltac:(lia) ltac:(lia) Hs Hn H j Hj Hh). lia. }
    assert (fst (nth (Z.to_nat m) t d0) = h) by lia.
    specialize (Hn _ Hmk H0).
    destruct (snd (nth (Z.to_nat m) t d0) <? n) eqn:E3; [inversion H|lia].
Qed.

(* ---------------- rebuild *)
Definition rinv (m : list particle) (i : nat) (t : list (N * nat)) (nh : nat) (zh : option nat) : Prop :=
  nh <= length t /\
  (zh = None -> nh = i) /\
  (forall z, zh = Some z -> z < nh /\ fst (nth z t d0) = 0%N) /\
  (forall j, j < nh -> snd (nth j t d0) < i /\ phash (nth (snd (nth j t d0)) m pzero) = fst (nth j t d0)) /\
  (forall i', i' < i -> exists j, j < nh /\ fst (nth j t d0) = phash (nth i' m pzero)).

Lemma grow_facts : forall (t : list (N * nat)) nh, nh <= length t ->
  let t1 := if length t <=? nh then grow_tab t else t in
  nh < length t1 /\ length t <= length t1 /\ forall j, j < length t -> nth j t1 d0 = nth j t d0.
Proof.
  intros t nh H. cbn zeta. destruct (Nat.leb_spec (length t) nh).
  - unfold grow_tab. rewrite app_length, repeat_length.
    destruct (Nat.eqb_spec (length t) 0); repeat split; try lia; intros; now rewrite app_nth1.
  - repeat split; auto; lia.
Qed.

(* appending the entry (phash p, i) at slot nh *)
Lemma rinv_push : forall m i t t1 nh zh zh',
  rinv m i t nh zh -> nh < length t1 -> (forall j, j < length t -> nth j t1 d0 = nth j t d0) ->
  (zh' = zh /\ phash (nth i m pzero) <> 0%N \/ zh = None /\ zh' = Some nh /\ phash (nth i m pzero) = 0%N) ->
  rinv m (S i) (upd t1 nh (phash (nth i m pzero), i)) (S nh) zh'.
Proof.
  intros m i t t1 nh zh zh' (I1 & I2 & I3 & I4 & I5) L1 L2 Hz.
  assert (Hold : forall j, j < nh -> nth j (upd t1 nh (phash (nth i m pzero), i)) d0 = nth j t d0).
  { intros. rewrite nth_upd_neq by lia. apply L2. lia. }
  assert (Hnew : nth nh (upd t1 nh (phash (nth i m pzero), i)) d0 = (phash (nth i m pzero), i))
    by (apply nth_upd_eq; lia).
  unfold rinv. rewrite upd_length. repeat split.
  - lia.
  - intros Hn0. subst zh'. destruct Hz as [[Hz ?]|[? [? ?]]]; [|discriminate]. rewrite I2; auto.
  - destruct Hz as [[-> ?]|[? [-> ?]]].
    + destruct (I3 z H); lia.
    + inversion H. lia.
  - destruct Hz as [[-> ?]|[? [-> ?]]].
    + destruct (I3 z H). rewrite Hold; auto.
    + inversion H; subst. rewrite Hnew. auto.
  - destruct (Nat.eq_dec j nh) as [->|]; [rewrite Hnew; cbn; lia|].
    rewrite Hold by lia. destruct (I4 j ltac:(lia)). lia.
  - destruct (Nat.eq_dec j nh) as [->|]; [rewrite Hnew; auto|].
    rewrite Hold by lia. destruct (I4 j ltac:(lia)). auto.
  - intros i' Hi'. destruct (Nat.eq_dec i' i) as [->|].
    + exists nh. rewrite Hnew. split; auto.
    + destruct (I5 i' ltac:(lia)) as [j [? ?]]. exists j. rewrite Hold by lia. split; auto.
Qed.

(* updating the index of the zero-hash slot *)
Lemma rinv_zero : forall m i t t1 nh z,
  rinv m i t nh (Some z) -> length t <= length t1 -> (forall j, j < length t -> nth j t1 d0 = nth j t d0) ->
  phash (nth i m pzero) = 0%N ->
  rinv m (S i) (upd t1 z (fst (nth z t1 d0), i)) nh (Some z).
Proof.
  intros m i t t1 nh z (I1 & I2 & I3 & I4 & I5) L1 L2 Hz.
  destruct (I3 z eq_refl) as [Z1 Z2].
  assert (Hz1 : nth z (upd t1 z (fst (nth z t1 d0), i)) d0 = (0%N, i)).
  { rewrite nth_upd_eq by lia. rewrite L2 by lia. now rewrite Z2. }
  assert (Hold : forall j, j < nh -> j <> z -> nth j (upd t1 z (fst (nth z t1 d0), i)) d0 = nth j t d0).
  { intros. rewrite nth_upd_neq by lia. apply L2. lia. }
  unfold rinv. rewrite upd_length. repeat split.
  - lia.
  - discriminate.
  - inversion H; subst; auto.
  - inversion H; subst. now rewrite Hz1.
  - destruct (Nat.eq_dec j z) as [->|]; [rewrite Hz1; cbn; lia|].
    rewrite Hold by lia. destruct (I4 j ltac:(lia)). lia.
  - destruct (Nat.eq_dec j z) as [->|]; [rewrite Hz1; auto|].
    rewrite Hold by lia. destruct (I4 j ltac:(lia)). auto.
  - intros i' Hi'. destruct (Nat.eq_dec i' i) as [->|].
    + exists z. rewrite Hz1. split; auto.
    + destruct (I5 i' ltac:(lia)) as [j [? ?]]. exists j. split; auto.
      destruct (Nat.eq_dec j z) as [->|]; [rewrite Hz1; cbn; congruence|]. now rewrite Hold by lia.
Qed.

Lemma rebuild_loop_inv : forall cnt i m t nh zh ob t' nh' ob',
  i + cnt <= length m -> rinv m i t nh zh ->
  rebuild_loop (seq i cnt) m t nh zh ob = (t', nh', ob') ->
  ob' = ob /\ exists zh', rinv m (i + cnt) t' nh' zh'.
Proof.
  induction cnt; intros i m t nh zh ob t' nh' ob' Hb Hi H; cbn [seq rebuild_loop] in H.
  - inversion H; subst. rewrite Nat.add_0_r. eauto.
  - pose proof Hi as (I1 & I2 & I3 & _).
    destruct (grow_facts t nh I1) as (G1 & G2 & G3).
    set (t1 := if length t <=? nh then grow_tab t else t) in *.
    rewrite (chk_in (length m) i) in H by lia. rewrite Nat.add_0_r in H.
    replace (i + S cnt) with (S i + cnt) by lia.
    destruct (phash (nth i m pzero) =? 0)%N eqn:E.
    + destruct zh as [z|].
      * destruct (I3 z eq_refl). rewrite chk_in in H by lia. rewrite Nat.add_0_r in H.
        eapply IHcnt in H; eauto; try lia. apply rinv_zero with (t := t); auto. lia.
      * pose proof (I2 eq_refl) as Hni. subst i. rewrite chk_in in H by lia. rewrite Nat.add_0_r in H.
        eapply IHcnt in H; eauto; try lia.
        apply rinv_push with (t := t) (zh := None); auto. right. repeat split; auto. lia.
    + rewrite chk_in in H by lia. rewrite Nat.add_0_r in H.
      eapply IHcnt in H; eauto; try lia.
      apply rinv_push with (t := t) (zh := zh); auto. left. split; auto. lia.
Qed.

(* what a rebuild establishes *)
Definition fresh (s : state) : Prop :=
  nlook s <= length (tab s) /\
  (forall i j, i <= j -> j < nlook s -> (fst (nth i (tab s) d0) <= fst (nth j (tab s) d0))%N) /\
  (forall j, j < nlook s -> snd (nth j (tab s) d0) < sN s /\
                            phash (nth (snd (nth j (tab s) d0)) (mem s) pzero) = fst (nth j (tab s) d0)) /\
  (forall i, i < sN s -> exists j, j < nlook s /\ fst (nth j (tab s) d0) = phash (nth i (mem s) pzero)).

Lemma rebuild_spec : forall s, wf s ->
  let s' := rebuild s in
  mem s' = mem s /\ sN s' = sN s /\ sNact s' = sNact s /\ sNvar s' = sNvar s /\ tree s' = tree s /\
  oob s' = oob s /\ fresh s'.
Proof.
  intros s [Hm Ht]. unfold rebuild.
  destruct (rebuild_loop (seq 0 (sN s)) (mem s) (tab s) 0 None (oob s)) as [[t nh] ob] eqn:E.
  apply rebuild_loop_inv in E; [|lia|].
  2:{ unfold rinv. repeat split; try lia; try discriminate; intros; lia. }
  destruct E as [-> [zh (I1 & I2 & I3 & I4 & I5)]]. cbn [Nat.add] in *.
  cbn zeta. cbn [mem sN sNact sNvar tree oob]. do 6 (split; [reflexivity|]).
  unfold fresh. cbn [tab nlook sN mem].
  set (srt := isort (firstn nh t)).
  assert (Ls : length srt = nh).
  { unfold srt. rewrite (Permutation_length (isort_perm _)), firstn_length. lia. }
  assert (Hn : forall j, j < nh -> nth j (srt ++ skipn nh t) d0 = nth j srt d0)
    by (intros; apply app_nth1; lia).
  assert (Hin : forall e, In e srt <-> exists j, j < nh /\ nth j t d0 = e).
  { intros e. unfold srt. split.
    - intros H. apply (Permutation_in _ (isort_perm _)) in H.
      apply (In_nth_lt _ _ _ d0) in H. destruct H as [j [Hj He]]. rewrite firstn_length in Hj.
      exists j. split; [lia|]. rewrite nth_firstn_lt in He by lia. auto.
    - intros [j [Hj He]]. apply (Permutation_in _ (Permutation_sym (isort_perm _))).
      apply (In_nth_lt _ _ _ d0). exists j. rewrite firstn_length. split; [lia|].
      rewrite nth_firstn_lt by lia. auto. }
  repeat split.
  - rewrite app_length, skipn_length. lia.
  - intros i j Hij Hj. rewrite !Hn by lia. apply hsorted_nth; [apply isort_sorted|lia|lia].
  - rewrite Hn by lia. assert (In (nth j srt d0) srt) by (apply nth_In; lia).
    apply Hin in H0. destruct H0 as [j' [Hj' <-]]. apply I4; auto.
  - rewrite Hn by lia. assert (In (nth j srt d0) srt) by (apply nth_In; lia).
    apply Hin in H0. destruct H0 as [j' [Hj' <-]]. apply I4; auto.
  - intros i Hi. destruct (I5 i Hi) as [j [Hj He]].
    assert (In (nth j t d0) srt) by (apply Hin; eauto).
    apply (In_nth_lt _ _ _ d0) in H. destruct H as [j2 [Hj2 He2]]. exists j2. rewrite Ls in Hj2.
    split; auto. rewrite Hn by lia. now rewrite He2.
Qed.
