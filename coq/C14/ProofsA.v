(* C14 proofs, part A: add / remove by index / set hash / remove all refine the list specification,
   keep the storage invariant and perform no out-of-bounds access. *)
From Coq Require Import List ZArith NArith Bool Arith Lia ZifyBool.
From RV Require Import C14.Model C14.Lists.
Import ListNotations.

Lemma chk_in : forall len i, i < len -> chk len i = 0.
Proof. intros. unfold chk. destruct (Nat.ltb_spec i len); lia. Qed.

Lemma abs_len : forall s, wf s -> length (aps (abs s)) = sN s.
Proof. intros s [H _]. cbn. rewrite firstn_length. lia. Qed.

(* ---------------- add *)
Lemma grow_ok : forall a n, n <= a -> n < grow_alloc (S (S n)) a n /\ a <= grow_alloc (S (S n)) a n.
Proof.
  intros a n H. cbn [grow_alloc].
  destruct (Nat.leb_spec a n); [|lia].
  assert (a = n) by lia. subst a.
  destruct (Nat.eqb_spec n 0).
  - subst. cbn. lia.
  - destruct (Nat.leb_spec (2 * n) n); lia.
Qed.

Lemma add_spec : forall s p, wf s ->
  wf (add s p) /\ oob (add s p) = oob s /\
  abs (add s p) = mkA (acfg (abs s)) (aps (abs s) ++ [p]) (aNact (abs s)) (aNvar (abs s)) (atree (abs s) || acfg (abs s)).
Proof.
  intros s p [Hm Ht]. unfold add.
  destruct (grow_ok (length (mem s)) (sN s) Hm) as [G1 G2].
  set (alloc := grow_alloc (S (S (sN s))) (length (mem s)) (sN s)) in *.
  set (mem1 := mem s ++ repeat pzero (alloc - length (mem s))).
  assert (L1 : length mem1 = alloc) by (unfold mem1; rewrite app_length, repeat_length; lia).
  split; [|split].
  - split; cbn; auto. rewrite upd_length. lia.
  - cbn. rewrite chk_in; lia.
  - unfold abs; cbn [mem sN sNact sNvar tree aps aNact aNvar atree]. f_equal. rewrite firstn_S_upd by lia. f_equal.
    unfold mem1. rewrite firstn_app. replace (sN s - length (mem s)) with 0 by lia.
    cbn. now rewrite app_nil_r.
Qed.

(* a refused add (tree mode, identical coordinates): storage may grow and slot N is written, but N and the
   live particles are unchanged and no access leaves the storage *)
Lemma add_slot_spec : forall s p, wf s ->
  wf (add_slot_only s p) /\ oob (add_slot_only s p) = oob s /\
  abs (add_slot_only s p) = mkA (acfg (abs s)) (aps (abs s)) (aNact (abs s)) (aNvar (abs s)) (atree (abs s) || acfg (abs s)).
Proof.
  intros s p [Hm Ht]. unfold add_slot_only.
  destruct (grow_ok (length (mem s)) (sN s) Hm) as [G1 G2].
  set (alloc := grow_alloc (S (S (sN s))) (length (mem s)) (sN s)) in *.
  set (mem1 := mem s ++ repeat pzero (alloc - length (mem s))).
  assert (L1 : length mem1 = alloc) by (unfold mem1; rewrite app_length, repeat_length; lia).
  split; [|split].
  - split; cbn; auto. rewrite upd_length. lia.
  - cbn. rewrite chk_in; lia.
  - unfold abs; cbn [tcfg mem sN sNact sNvar tree acfg aps aNact aNvar atree]. f_equal.
    rewrite firstn_upd_ge by lia. unfold mem1. rewrite firstn_app.
    replace (sN s - length (mem s)) with 0 by lia. cbn. now rewrite app_nil_r.
Qed.

(* ---------------- the keep_sorted shift loop *)
Lemma shift_spec : forall cnt j m ob m' ob', j + cnt < length m -> shift cnt j m ob = (m', ob') ->
  ob' = ob /\ length m' = length m /\
  forall k, nth k m' pzero = if (j <=? k) && (k <? j + cnt) then nth (S k) m pzero else nth k m pzero.
Proof.
  induction cnt; intros j m ob m' ob' Hb H; cbn in H.
  - inversion H; subst. repeat split; auto. intros k.
    destruct ((j <=? k) && (k <? j + 0)) eqn:E; auto. lia.
  - apply IHcnt in H; [|rewrite upd_length; lia].
    destruct H as [H1 [H2 H3]]. rewrite upd_length in *.
    rewrite !chk_in in H1 by lia. repeat split; try lia.
    intros k. rewrite H3.
    destruct ((S j <=? k) && (k <? S j + cnt)) eqn:E1; destruct ((j <=? k) && (k <? j + S cnt)) eqn:E2; try lia.
    + apply nth_upd_neq. lia.
    + assert (k = j) by lia. subst. apply nth_upd_eq. lia.
    + apply nth_upd_neq. lia.
Qed.

Definition valid_idx (a : astate) (z : Z) : bool := ((0 <=? z) && (z <? Z.of_nat (length (aps a))))%Z.

Lemma swap_abs : forall (m : list particle) n i, i < n -> n <= length m ->
  firstn (n - 1) (upd m i (nth (n - 1) m pzero)) = remove_swap i (firstn n m).
Proof.
  intros m n i Hi Hn. unfold remove_swap.
  rewrite firstn_length. replace (Nat.min n (length m)) with n by lia.
  rewrite last_nth, firstn_length. replace (Nat.min n (length m)) with n by lia.
  rewrite nth_firstn_lt by lia.
  rewrite <- firstn_upd_lt by lia. rewrite firstn_firstn. f_equal. lia.
Qed.

Lemma remove_idx_spec : forall s z keep s' r, wf s -> remove_idx s z keep = (s', r) ->
  wf s' /\ oob s' = oob s /\ tab s' = tab s /\ nlook s' = nlook s /\
  if valid_idx (abs s) z && negb (refused (abs s) keep)
  then r = removed_result (abs s) (Z.to_nat z) keep /\ abs s' = aremove (abs s) (Z.to_nat z) keep
  else r = RFail /\ s' = s.
Proof.
  intros s z keep s' r Hwf H. pose proof (abs_len s Hwf) as HL. destruct Hwf as [Hm Ht].
  unfold remove_idx in H. unfold valid_idx, refused, removed_result, aremove, dec_nact, clamp_nact. rewrite HL.
  change (aNvar (abs s)) with (sNvar s). change (atree (abs s)) with (tree s).
  change (aNact (abs s)) with (sNact s). change (aps (abs s)) with (firstn (sN s) (mem s)).
  destruct ((Z.of_nat (sN s) <=? z) || (z <? 0))%Z eqn:E1.
  { inversion H; subst. replace ((0 <=? z) && (z <? Z.of_nat (sN s')))%Z with false by lia.
    cbn. unfold wf. repeat split; auto. }
  replace ((0 <=? z) && (z <? Z.of_nat (sN s)))%Z with true by lia. cbn [andb].
  destruct (sNvar s =? 0) eqn:E2; cbn [negb orb] in *.
  2:{ inversion H; subst. unfold wf. repeat split; auto. }
  rewrite Z2Nat.id by lia.
  destruct (keep && tree s) eqn:EK; cbn [negb] in *.
  { inversion H; subst. unfold wf. repeat split; auto. }
  destruct ((sN s =? 1) && negb (tree s)) eqn:E3.
  { inversion H; subst; clear H. cbn. unfold wf; cbn.
    replace (negb keep && tree s) with false by lia. repeat split; auto; lia. }
  destruct keep; cbn [andb negb] in *.
  - destruct (tree s) eqn:E4; [discriminate|]. cbn [negb andb] in *.
    destruct (shift (sN s - 1 - Z.to_nat z) (Z.to_nat z) (mem s) (oob s)) as [m1 ob] eqn:ES.
    inversion H; subst; clear H.
    apply shift_spec in ES; [|lia]. destruct ES as [S1 [S2 S3]].
    unfold wf; cbn. repeat split; auto; try lia.
    unfold abs; cbn. f_equal.
    apply nth_ext with (d := pzero) (d' := pzero).
    + rewrite remove_nth_length; rewrite !firstn_length; lia.
    + intros k Hk. rewrite firstn_length in Hk.
      rewrite nth_firstn_lt by lia. rewrite S3.
      rewrite nth_remove_nth by (rewrite firstn_length; lia).
      destruct ((Z.to_nat z <=? k) && (k <? Z.to_nat z + (sN s - 1 - Z.to_nat z))) eqn:E5;
        destruct (k <? Z.to_nat z) eqn:E6; try lia; rewrite nth_firstn_lt by lia; auto.
  - destruct (tree s) eqn:E4.
    + inversion H; subst; clear H. unfold wf; cbn. rewrite upd_length.
      repeat split; auto; try (rewrite chk_in; lia).
      unfold abs; cbn. f_equal.
      rewrite firstn_upd_lt by lia. f_equal. now rewrite nth_firstn_lt by lia.
    + inversion H; subst; clear H. unfold wf; cbn. rewrite upd_length.
      repeat split; auto; try lia; try (rewrite !chk_in; lia).
      unfold abs; cbn. f_equal. apply swap_abs; lia.
Qed.

Lemma aremove_nact : forall a i keep, i < length (aps a) -> nact_ok a -> nact_ok (aremove a i keep).
Proof.
  intros a i keep Hi Hn. unfold aremove, dec_nact, clamp_nact, nact_ok in *.
  destruct ((length (aps a) =? 1) && negb (atree a)) eqn:E1.
  { cbn. destruct (Z.of_nat i <? aNact a)%Z eqn:E; lia. }
  destruct keep.
  { cbn. rewrite remove_nth_length by auto. destruct (Z.of_nat i <? aNact a)%Z eqn:E; lia. }
  destruct (atree a).
  { cbn. rewrite upd_length. auto. }
  cbn. unfold remove_swap. rewrite firstn_length, upd_length.
  destruct (Z.of_nat (length (aps a) - 1) <? aNact a)%Z eqn:E; lia.
Qed.

Lemma set_hash_spec : forall s i h s' r, wf s -> set_hash s i h = (s', r) ->
  wf s' /\ oob s' = oob s /\
  if i <? length (aps (abs s)) then
    r = RVoid /\ abs s' = mkA (acfg (abs s)) (upd (aps (abs s)) i (mkP h (pid (nth i (aps (abs s)) pzero)) (pnan (nth i (aps (abs s)) pzero))))
                              (aNact (abs s)) (aNvar (abs s)) (atree (abs s))
  else r = RFail /\ s' = s.
Proof.
  intros s i h s' r Hwf H. pose proof (abs_len s Hwf) as HL. destruct Hwf as [Hm Ht].
  unfold set_hash in H. rewrite HL. destruct (i <? sN s) eqn:E; inversion H; subst; clear H.
  - unfold wf; cbn. rewrite upd_length. repeat split; auto; try (rewrite chk_in; lia).
    unfold abs; cbn. f_equal. rewrite firstn_upd_lt by lia. now rewrite nth_firstn_lt by lia.
  - unfold wf. repeat split; auto.
Qed.
