(* C14: glue evaluated by the correspondence check (vm_compute): canonical trace of a run of the model
   and comparison with the trace observed on the library. *)
From Coq Require Import List ZArith NArith Bool Arith.
From RV Require Import C14.Murmur C14.Model.
Import ListNotations.

(* result codes as the harness sees them: the C return value does not say which particle went away
   (that is visible in the state); a lookup reports the index of the particle returned *)
Definition rcode (r : result) : Z * Z :=
  match r with
  | RVoid => (9, 0) | RFail => (0, 0) | RRemoved _ => (1, 0) | RFlagged _ => (1, 0)
  | RFound i => (3, Z.of_nat i) | RNull => (2, 0)
  end%Z.

(* per operation: (code, index, N, N_active, N_var) *)
Definition row := (Z * Z * Z * Z * Z)%type.
Fixpoint trace (s : state) (ops : list op) : state * list row :=
  match ops with
  | [] => (s, [])
  | o :: r =>
      let '(s1, x) := step s o in
      let '(s2, xs) := trace s1 r in
      (s2, (fst (rcode x), snd (rcode x), Z.of_nat (sN s1), sNact s1, Z.of_nat (sNvar s1)) :: xs)
  end.

Definition row_eqb (a b : row) : bool :=
  let '(a1, a2, a3, a4, a5) := a in let '(b1, b2, b3, b4, b5) := b in
  ((a1 =? b1) && (a2 =? b2) && (a3 =? b3) && (a4 =? b4) && (a5 =? b5))%Z.
Definition obs_eqb (a b : N * N * bool) : bool :=
  let '(a1, a2, a3) := a in let '(b1, b2, b3) := b in ((a1 =? b1) && (a2 =? b2))%N && Bool.eqb a3 b3.
Fixpoint list_eqb {A} (f : A -> A -> bool) (x y : list A) : bool :=
  match x, y with
  | [], [] => true
  | a :: x', b :: y' => f a b && list_eqb f x' y'
  | _, _ => false
  end.

(* one correspondence case: tree flag, operations, rows observed on the library, final particles
   observed on the library.  The model must produce the same rows, the same final particle list and
   no out-of-bounds event. *)
Definition case := (bool * list op * list row * list (N * N * bool))%type.
Definition case_ok (c : case) : bool :=
  let '(tr, ops, rows, fin) := c in
  let '(s, rs) := trace (init tr) ops in
  list_eqb row_eqb rs rows && list_eqb obs_eqb (map obs_particle (firstn (sN s) (mem s))) fin
  && (oob s =? 0)%nat.

Fixpoint bad_from (i : nat) (cs : list case) : list nat :=
  match cs with
  | [] => []
  | c :: r => if case_ok c then bad_from (S i) r else i :: bad_from (S i) r
  end.
Definition bad_cases (cs : list case) : list nat := bad_from 0 cs.

(* first row at which model and library differ (diagnostics) *)
Fixpoint first_diff (i : nat) (x y : list row) : option (nat * option row * option row) :=
  match x, y with
  | [], [] => None
  | a :: x', b :: y' => if row_eqb a b then first_diff (S i) x' y' else Some (i, Some a, Some b)
  | a :: _, [] => Some (i, Some a, None)
  | [], b :: _ => Some (i, None, Some b)
  end.
Definition diag (c : case) :=
  let '(tr, ops, rows, fin) := c in
  let '(s, rs) := trace (init tr) ops in (first_diff 0 rs rows, oob s).

(* Murmur: bad indices of (key bytes, expected hash) pairs *)
Fixpoint bad_hashes (i : nat) (cs : list (list N * N)) : list nat :=
  match cs with
  | [] => []
  | (k, e) :: r => if (reb_hash k =? e)%N then bad_hashes (S i) r else i :: bad_hashes (S i) r
  end.

(* Python container: negative index normalisation, compared on (N, key, observed index or -1) *)
Fixpoint bad_pyidx (i : nat) (cs : list (nat * Z * Z)) : list nat :=
  match cs with
  | [] => []
  | (n, k, e) :: r =>
      let m := match py_index n k with Some j => Z.of_nat j | None => (-1)%Z end in
      if (m =? e)%Z then bad_pyidx (S i) r else i :: bad_pyidx (S i) r
  end.
