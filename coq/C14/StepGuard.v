(* C14: "a step whose part1 failed must not touch integrator arrays sized for an earlier N".
   Abstract model of the WHFast-family step (src/integrator_whfast.c, src/integrator_saba.c):
   ri_whfast.p_jh has N_allocated records (0 = NULL); reb_integrator_whfast_init either reports an error and
   returns BEFORE resizing, or resizes p_jh to N; every routine of the step (from_inertial, kepler/com/
   interaction steps, to_inertial) indexes p_jh[i] for i < N -- abstracted as [touch].
   part2 of WHFast is guarded by  p_jh==NULL || N_allocated != N  (since 5b9aacc);
   part2 of SABA re-checks the same plus SABA's own part1 errors (since 14faedc). *)
From Coq Require Import List Bool Arith Lia ZifyBool.
From RV Require Import C14.Model C14.ProofsA.
Import ListNotations.

Record wh := mkW { palloc : nat; woob : nat }.

Fixpoint touch_from (cnt i alloc ob : nat) : nat :=
  match cnt with O => ob | S c => touch_from c (S i) alloc (ob + chk alloc i) end.
Definition touch (n : nat) (w : wh) : wh := mkW (palloc w) (touch_from n 0 (palloc w) (woob w)).

(* reb_integrator_whfast_init: [err] = one of the configuration errors is reported *)
Definition wh_init (err : bool) (n : nat) (w : wh) : wh * bool :=
  if err then (w, true) else (mkW n (woob w), false).

(* one reb_simulation_step: part1, (gravity), part2; result: arrays, and whether t was advanced *)
Definition whfast_step (err : bool) (n : nat) (w : wh) : wh * bool :=
  let '(w1, failed) := wh_init err n w in
  let w2 := if failed then w1 else touch n w1 in
  if (palloc w2 =? 0) || negb (palloc w2 =? n) then (w2, false) else (touch n w2, true).
(* SABA: part1 returns on its own errors ([own]: variational configuration present, non-Jacobi coordinates,
   invalid type) before calling reb_integrator_whfast_init, or when that init fails; part2 re-checks
   p_jh==NULL || N_allocated != N || stages==0 || N_var_config>0 || coordinates!=JACOBI  (since 14faedc) *)
Definition saba_step (own err : bool) (n : nat) (w : wh) : wh * bool :=
  let '(w1, failed) := if own then (w, true) else wh_init err n w in
  let w2 := if failed then w1 else touch n w1 in
  if (palloc w2 =? 0) || negb (palloc w2 =? n) || own then (w2, false) else (touch n w2, true).

Lemma touch_safe : forall cnt i alloc ob, i + cnt <= alloc -> touch_from cnt i alloc ob = ob.
Proof.
  induction cnt; intros; cbn; auto. rewrite chk_in by lia. rewrite Nat.add_0_r. apply IHcnt. lia.
Qed.

(* WHFast: for every earlier allocation, every N and either outcome of init, no record outside p_jh is
   touched; a failed init leaves p_jh alone and the step does not advance t *)
Theorem whfast_step_safe : forall err n w,
  woob (fst (whfast_step err n w)) = woob w /\
  (err = true -> fst (whfast_step err n w) = w /\ snd (whfast_step err n w) = false \/ palloc w = n).
Proof.
  intros err n w. unfold whfast_step, wh_init. destruct err.
  - destruct ((palloc w =? 0) || negb (palloc w =? n)) eqn:E; cbn.
    + split; auto.
    + assert (palloc w = n) by lia. split; auto. unfold touch; cbn. apply touch_safe. lia.
  - cbn [fst snd palloc woob touch]. split; [|discriminate].
    destruct ((n =? 0) || negb (n =? n)) eqn:E; cbn.
    + apply touch_safe. lia.
    + rewrite (touch_safe n 0 n) by lia. apply touch_safe. lia.
Qed.

(* SABA: the same for every earlier allocation, every N and every combination of its own errors and the
   errors of init; when part1 failed on one of SABA's own errors nothing is touched and t does not advance;
   when init failed the step runs only if the allocation already equals N *)
Theorem saba_step_safe : forall own err n w,
  woob (fst (saba_step own err n w)) = woob w /\
  (own = true -> saba_step own err n w = (w, false)) /\
  (err = true -> fst (saba_step own err n w) = w /\ snd (saba_step own err n w) = false \/ palloc w = n).
Proof.
  intros own err n w. unfold saba_step, wh_init. destruct own.
  - rewrite orb_true_r. cbn. repeat split; auto.
  - split; [|split; [discriminate|]].
    + destruct err.
      * destruct ((palloc w =? 0) || negb (palloc w =? n) || false) eqn:E; cbn; auto.
        unfold touch; cbn. apply touch_safe. lia.
      * cbn [fst snd palloc woob touch]. destruct ((n =? 0) || negb (n =? n) || false) eqn:E; cbn.
        -- apply touch_safe. lia.
        -- rewrite (touch_safe n 0 n) by lia. apply touch_safe. lia.
    + intros ->. destruct ((palloc w =? 0) || negb (palloc w =? n) || false) eqn:E; cbn; auto. right. lia.
Qed.
