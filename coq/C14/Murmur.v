(* C14: reb_hash = MurmurHash3_x86_32 with seed 1983 (src/tools.c reb_murmur3_32), over N with explicit
   reduction mod 2^32 after every operation that can overflow a uint32_t.  The key is the list of the
   bytes of the C string (values 1..255; reb_hash uses strlen so no NUL byte can occur). *)
From Coq Require Import NArith List.
Import ListNotations.
Open Scope N_scope.

Definition M32 : N := 4294967296.
Definition w32 (x : N) : N := x mod M32.
(* ROT32(x,y) = (x << y) | (x >> (32-y)) on uint32_t, 0<y<32, x < 2^32 *)
Definition rot32 (x y : N) : N := N.lor (w32 (N.shiftl x y)) (N.shiftr x (32 - y)).
Definition mul32 (a b : N) : N := w32 (a * b).

Definition c1 : N := 3432918353.   (* 0xcc9e2d51 *)
Definition c2 : N := 461845907.    (* 0x1b873593 *)
Definition mmix (k : N) : N := mul32 (rot32 (mul32 k c1) 15) c2.

(* for (i<nblocks) { k = blocks[i] (little endian); k*=c1; k=ROT32(k,15); k*=c2; hash^=k; hash=ROT32(hash,13)*5+0xe6546b64 }
   then the tail switch (fall-through) *)
Fixpoint body (l : list N) (hash : N) : N :=
  match l with
  | b0 :: b1 :: b2 :: b3 :: r =>
      let k := b0 + N.shiftl b1 8 + N.shiftl b2 16 + N.shiftl b3 24 in
      let hash := N.lxor hash (mmix k) in
      body r (w32 (mul32 (rot32 hash 13) 5 + 3864292196))
  | [b0; b1; b2] => N.lxor hash (mmix (N.lxor (N.lxor (N.shiftl b2 16) (N.shiftl b1 8)) b0))
  | [b0; b1] => N.lxor hash (mmix (N.lxor (N.shiftl b1 8) b0))
  | [b0] => N.lxor hash (mmix b0)
  | [] => hash
  end.

Definition fmix (h : N) : N :=
  let h := N.lxor h (N.shiftr h 16) in
  let h := mul32 h 2246822507 in     (* 0x85ebca6b *)
  let h := N.lxor h (N.shiftr h 13) in
  let h := mul32 h 3266489909 in     (* 0xc2b2ae35 *)
  N.lxor h (N.shiftr h 16).

Definition murmur3_32 (key : list N) (seed : N) : N :=
  fmix (N.lxor (body key seed) (w32 (N.of_nat (length key)))).

Definition reb_hash (key : list N) : N := murmur3_32 key 1983.
