(* C14: the free_particle_ap callback of reb_simulation_remove_particle / remove_all as an event log.
   An event is the particle the callback is handed, as it is in memory at the moment of the call.
   Order in the code: N==1: N=0, callback;  keep_sorted: N--, callback, N_active, then the shift;
   unsorted with a tree: y=NaN first, then callback;  unsorted without: N--, callback, then the overwrite.
   reb_simulation_remove_all_particles calls it for every particle, in index order, before the array is freed
   (since 674afcc). *)
From Coq Require Import List ZArith NArith Bool Arith Lia ZifyBool.
From RV Require Import C14.Model C14.Lists C14.ProofsA C14.ProofsB C14.ProofsC.
Import ListNotations.

Definition remove_idx_cb (s : state) (index : Z) (keep : bool) : list particle :=
  if ((Z.of_nat (sN s) <=? index) || (index <? 0))%Z then []
  else if negb (sNvar s =? 0) then []
  else if keep && tree s then []
  else
    let i := Z.to_nat index in
    if (sN s =? 1) && negb (tree s) then [nth i (mem s) pzero]
    else if keep then [nth i (mem s) pzero]                      (* memory before the shift loop *)
    else if tree s then [nth i (upd (mem s) i (flag_nan (nth i (mem s) pzero))) pzero]   (* after y = NaN *)
    else [nth i (mem s) pzero].                                  (* memory before particles[index] = particles[N] *)

Definition step_cb (s : state) (o : op) : list particle :=
  match o with
  | RemoveIdx z k => remove_idx_cb s z k
  | RemoveHash h k => let '(s1, r) := by_hash s h in
                      match r with Some i => remove_idx_cb s1 (Z.of_nat i) k | None => [] end
  | RemoveAll => firstn (sN s) (mem s)       (* for (i<N) free_particle_ap(&particles[i]); nothing modified in between *)
  | _ => []
  end.

(* what the list specification expects: the removed particle, exactly once, as it was before its slot is
   overwritten (flagged when the removal is deferred to the tree) *)
Definition cb_spec (a : astate) (r : result) : list particle :=
  match r with
  | RRemoved i => [nth i (aps a) pzero]
  | RFlagged i => [flag_nan (nth i (aps a) pzero)]
  | _ => []
  end.

Lemma remove_idx_cb_spec : forall s z keep s' r, wf s -> remove_idx s z keep = (s', r) ->
  remove_idx_cb s z keep = cb_spec (abs s) r.
Proof.
  intros s z keep s' r [Hm Ht] H. unfold remove_idx in H. unfold remove_idx_cb, cb_spec.
  destruct ((Z.of_nat (sN s) <=? z) || (z <? 0))%Z eqn:E1; [inversion H; auto|].
  destruct (negb (sNvar s =? 0)) eqn:E2; [inversion H; auto|].
  destruct (keep && tree s) eqn:E3; [inversion H; auto|].
  assert (Hi : Z.to_nat z < sN s) by lia.
  assert (Hn : nth (Z.to_nat z) (aps (abs s)) pzero = nth (Z.to_nat z) (mem s) pzero)
    by (cbn; apply nth_firstn_lt; auto).
  destruct ((sN s =? 1) && negb (tree s)); [inversion H; subst; now rewrite Hn|].
  destruct keep.
  - destruct (shift _ _ _ _). inversion H; subst. now rewrite Hn.
  - destruct (tree s).
    + inversion H; subst. rewrite Hn. now rewrite nth_upd_eq by lia.
    + inversion H; subst. now rewrite Hn.
Qed.

(* every successful removal (by index or by hash) calls the callback exactly once, on the removed particle,
   before its slot is overwritten; failed requests call nothing *)
Theorem callback_once : forall s o s' r, wf s ->
  match o with RemoveIdx _ _ | RemoveHash _ _ => True | _ => False end ->
  step s o = (s', r) -> step_cb s o = cb_spec (abs s) r.
Proof.
  intros s o s' r Hwf Ho H. destruct o; try contradiction; cbn [step step_cb] in *.
  - eapply remove_idx_cb_spec; eauto.
  - unfold remove_hash in H. destruct (by_hash s h) as [s1 [i|]] eqn:EB.
    + apply by_hash_spec in EB; auto. destruct EB as (W1 & _ & A1 & _). rewrite <- A1.
      eapply remove_idx_cb_spec; eauto.
    + inversion H; subst. reflexivity.
Qed.

(* remove-all: once per removed particle, in index order, each as it is in the list *)
Theorem callback_remove_all : forall s, step_cb s RemoveAll = aps (abs s).
Proof. reflexivity. Qed.

(* ---- glue for the correspondence: per-operation callback events (id, y-is-NaN) *)
Fixpoint cb_trace (s : state) (ops : list op) : list (list (N * bool)) :=
  match ops with
  | [] => []
  | o :: r => map (fun p => (pid p, pnan p)) (step_cb s o) :: cb_trace (fst (step s o)) r
  end.
Fixpoint ev_eqb (a b : list (N * bool)) : bool :=
  match a, b with
  | [], [] => true
  | (x1, x2) :: a', (y1, y2) :: b' => (x1 =? y1)%N && Bool.eqb x2 y2 && ev_eqb a' b'
  | _, _ => false
  end.
Fixpoint evs_eqb (a b : list (list (N * bool))) : bool :=
  match a, b with [], [] => true | x :: a', y :: b' => ev_eqb x y && evs_eqb a' b' | _, _ => false end.
Definition cbcase := (bool * list op * list (list (N * bool)))%type.
Fixpoint bad_cb (i : nat) (cs : list cbcase) : list nat :=
  match cs with
  | [] => []
  | (tr, ops, evs) :: r => if evs_eqb (cb_trace (init tr) ops) evs then bad_cb (S i) r else i :: bad_cb (S i) r
  end.
