(* C14 property theorems ONLY (each closed by an already proved lemma) + assumptions.
   Model: coq/C14/Model.v (routines of src/particle.c in their order of checks); specification: a plain
   particle list with N_active / N_var / tree-present ([astate], [res_ok], [aspec]). *)
From Coq Require Import List ZArith NArith Bool Arith Lia.
From RV Require Import C14.Murmur C14.Model C14.ProofsA C14.ProofsB C14.ProofsC C14.PyLayer C14.Hybrid C14.HybridProofs C14.StepGuard C14.Callback.
Import ListNotations.
Close Scope N_scope.

(* Refinement, all finite operation sequences, from the empty simulation (with or without a tree):
   every reported result is one the list specification allows, and the particles / N_active / N_var after
   the run are exactly those of the specification: order preserved by keep_sorted removals; unsorted
   removal = last particle moved into the hole; growth of the storage invisible; N_active stays consistent.
   [run_ok]: the only hypothesis is that the user's own writes of N_active are consistent when made. *)
Theorem C14_refines : forall tr ops s' rs, run_ok (init tr) ops -> run (init tr) ops = (s', rs) ->
  spec_trace (mkA tr [] (-1) 0 tr) ops rs (abs s') /\ nact_ok (abs s').
Proof. exact refines. Qed.
Print Assumptions C14_refines.

(* the same for one step from ANY state satisfying the invariant (arbitrary lookup table) *)
Theorem C14_step_refines : forall s o s' r, inv s -> user_ok (abs s) o -> step s o = (s', r) ->
  inv s' /\ oob s' = oob s /\ res_ok (abs s) o r /\ abs s' = aspec (abs s) o r.
Proof. exact step_refines. Qed.
Print Assumptions C14_step_refines.

(* Lookup by hash returns a particle carrying the hash iff one exists, for any staleness of the lookup
   table, duplicate and zero hashes included; it does not change the simulation. *)
Theorem C14_lookup_correct : forall s h s' r, wf s -> by_hash s h = (s', r) ->
  abs s' = abs s /\ oob s' = oob s /\
  match r with
  | Some i => i < length (aps (abs s)) /\ phash (nth i (aps (abs s)) pzero) = h
  | None => ~ has_hash h (aps (abs s))
  end.
Proof. exact lookup_correct. Qed.
Print Assumptions C14_lookup_correct.

(* Out-of-range index / unknown hash: failure is returned and particles, N, N_active, N_var are unchanged. *)
Theorem C14_invalid_rejected : forall s o s' r, wf s -> invalid (abs s) o -> step s o = (s', r) ->
  r = RFail /\ abs s' = abs s.
Proof. exact invalid_rejected. Qed.
Print Assumptions C14_invalid_rejected.

(* No array access of any run leaves its allocation (particles and lookup table) -- no hypothesis: since
   95ccee5 the unsorted removal no longer indexes the particle array with N_active. *)
Theorem C14_memory_safe : forall tr ops, oob (fst (run (init tr) ops)) = 0.
Proof. exact memory_safe. Qed.
Print Assumptions C14_memory_safe.

(* N_active stays consistent (unset, or 0 <= N_active <= N) under every operation; only a direct
   inconsistent write by the user can break it. *)
Theorem C14_nactive_consistent : forall s o s' r, wf s -> nact_ok (abs s) -> user_ok (abs s) o ->
  step s o = (s', r) -> nact_ok (abs s').
Proof. exact nact_consistent. Qed.
Print Assumptions C14_nactive_consistent.

(* ... and exactly this is what a successful removal of index i does to N_active (the specification that
   C14_refines / C14_step_refines tie the code to): decremented iff i < N_active on the order-preserving
   path and when the last remaining particle goes (no tree); unchanged by a deferred (tree) removal;
   on the unsorted path unchanged, except clamped to the new N when it would exceed it -- so with
   N_active < N a test particle moved into an active slot becomes active and the number of active
   particles does NOT drop. *)
Theorem C14_nactive_rule : forall a i keep, aNact (aremove a i keep) =
  if (length (aps a) =? 1) && negb (atree a) then (if (Z.of_nat i <? aNact a)%Z then aNact a - 1 else aNact a)%Z
  else if keep then (if (Z.of_nat i <? aNact a)%Z then aNact a - 1 else aNact a)%Z
  else if atree a then aNact a
  else if (Z.of_nat (length (aps a) - 1) <? aNact a)%Z then Z.of_nat (length (aps a) - 1) else aNact a.
Proof.
  intros. unfold aremove, dec_nact, clamp_nact.
  destruct ((length (aps a) =? 1) && negb (atree a)); [reflexivity|].
  destruct keep; [reflexivity|]. destruct (atree a); reflexivity.
Qed.
Print Assumptions C14_nactive_rule.

(* Corner: a refused add.  In tree mode a particle whose coordinates are identical to those of a particle already
   in the tree is refused (RuntimeError in Python); since 950a4b2 the simulation is then unchanged: same
   particles, N, N_active, N_var (only the storage may have grown and slot N been written), nothing out of bounds.
   Outside tree mode coincident particles are accepted. *)
Theorem C14_refused_add_unchanged : forall s p s' r, wf s -> step s (Add p) = (s', r) -> r = RFail ->
  wf s' /\ oob s' = oob s /\ aps (abs s') = aps (abs s) /\ aNact (abs s') = aNact (abs s) /\
  aNvar (abs s') = aNvar (abs s) /\ acfg (abs s) = true.
Proof.
  intros s p s' r Hwf H Hr. cbn [step] in H. unfold add_op in H.
  destruct (add_refused s p) eqn:E; inversion H; subst; [|discriminate].
  destruct (add_slot_spec s p Hwf) as (A1 & A2 & A3). rewrite A3. cbn [aps aNact aNvar].
  repeat split; auto; try apply A1. unfold add_refused in E. cbn. destruct (tcfg s); auto.
Qed.
Print Assumptions C14_refused_add_unchanged.

(* Corner: N_active negative (-1 = unset, or any other negative value a user may have written): no removal
   path changes it (C14_nactive_consistent assumes user writes in {-1} U [0,N]; this is what happens otherwise
   for negative values; values above N are clamped by the unsorted path only, see C14_nactive_rule) *)
Theorem C14_nactive_negative_inert : forall a i keep, (aNact a < 0)%Z -> aNact (aremove a i keep) = aNact a.
Proof.
  intros a i keep H. rewrite C14_nactive_rule.
  destruct ((length (aps a) =? 1) && negb (atree a)); [destruct (Z.of_nat i <? aNact a)%Z eqn:E; lia|].
  destruct keep; [destruct (Z.of_nat i <? aNact a)%Z eqn:E; lia|].
  destruct (atree a); auto. destruct (Z.of_nat (length (aps a) - 1) <? aNact a)%Z eqn:E; lia.
Qed.
Print Assumptions C14_nactive_negative_inert.

(* ---- Python container (rebound/particles.py) as a thin layer over the model: coq/C14/PyLayer.v *)
(* reads (int / negative / c_uint32 / str keys), `del sim.particles[k]` (a no-op in the source), slices
   and len never change the simulation and touch nothing outside the storage *)
Theorem C14_py_readonly : forall s o s' r, wf s ->
  match o with PyGet _ | PyDelItem _ | PySlice _ _ _ | PyLen => True | _ => False end ->
  py_step s o = (s', r) -> wf s' /\ oob s' = oob s /\ abs s' = abs s.
Proof. exact py_readonly. Qed.
Print Assumptions C14_py_readonly.

(* a slice (CPython slice.indices + range) only yields indices of existing particles *)
Theorem C14_py_slice_in_range : forall n a b c x, (c <> 0)%Z -> In x (py_slice n a b c) -> x < n.
Proof. exact py_slice_in_range. Qed.
Print Assumptions C14_py_slice_in_range.

(* sim.particles[k] = p overwrites exactly the particle denoted by k (an index, or a particle carrying
   the hash); an unresolvable key raises and changes nothing *)
Theorem C14_py_setitem : forall s k p s' r, wf s -> py_step s (PySet k p) = (s', r) ->
  wf s' /\ oob s' = oob s /\
  ((r = PRNone /\ exists i, i < length (aps (abs s)) /\
      (match k with KInt z => py_index (length (aps (abs s))) z = Some i
                  | _ => Some (phash (nth i (aps (abs s)) pzero)) = key_hash k end) /\
      abs s' = mkA (acfg (abs s)) (upd (aps (abs s)) i p) (aNact (abs s)) (aNvar (abs s)) (atree (abs s)))
   \/ ((r = PRAttributeError \/ r = PRNotFound) /\ abs s' = abs s)).
Proof. exact py_setitem. Qed.
Print Assumptions C14_py_setitem.

(* Corner: Python ints of any size.  Simulation.remove(index=z) with z outside [0,N) -- however large -- raises
   RuntimeError and changes nothing (since 6478df5 the index is range-checked in Python before ctypes would
   keep only its low 32 bits; finding py_remove_index_truncated, fixed) *)
Theorem C14_py_remove_index_rejected : forall s z keep s' r,
  (z < 0 \/ Z.of_nat (sN s) <= z)%Z ->
  py_step s (PyRemove (Some z) None keep) = (s', r) -> r = PRRuntimeError /\ s' = s.
Proof. exact py_remove_index_rejected. Qed.
Print Assumptions C14_py_remove_index_rejected.

(* ---- MERCURIUS / TRACE bookkeeping of reb_simulation_remove_particle and reb_simulation_add:
   coq/C14/Hybrid.v (model), coq/C14/HybridProofs.v *)
(* a failed removal (out-of-range index, variational particles, tree + keep_sorted -- forced for the hybrid
   integrators) leaves the particles, dcrit, encounter_map, encounter_N, encounter_N_active, current_Ks and
   the flags exactly as they were *)
Theorem C14_hybrid_fail_untouched : forall s h z keep s' h',
  hremove s h z keep = (s', h', RFail) -> s' = s /\ h' = h.
Proof. exact hremove_fail_untouched. Qed.
Print Assumptions C14_hybrid_fail_untouched.

Theorem C14_hybrid_invalid_fails : forall s h z keep,
  ((z < 0 \/ Z.of_nat (sN s) <= z)%Z \/ sNvar s <> 0 \/ ((keep = true \/ kind h <> INone) /\ tree s = true)) ->
  hremove s h z keep = (s, h, RFail).
Proof. exact hremove_invalid_fails. Qed.
Print Assumptions C14_hybrid_invalid_fails.

(* MERCURIUS removal never leaves dcrit (whatever N_allocated_dcrit is) nor the encounter map *)
Theorem C14_merc_dcrit_safe : forall s h z keep s' h' r, kind h = IMerc -> eN h <= length (emap h) ->
  hremove s h z keep = (s', h', r) -> hoob h' = hoob h.
Proof. exact merc_remove_safe. Qed.
Print Assumptions C14_merc_dcrit_safe.

(* removal of particle [index] during the encounter step, member of the encounter or not (since 98c9aa5): the
   live part of the map becomes [renum index] of the old one (the member dropped, members above the index
   shifted by one); it is again a strictly increasing injection, now into [0,N-1); its length drops by one
   iff the particle was a member, and exactly then encounter_index >= 0; no access outside the map *)
Theorem C14_emap_remove_valid : forall N m n index ob m' e' ob',
  vmap N m n -> (0 <= index < Z.of_nat N)%Z ->
  emap_loop n 0 0 index m (-1)%Z ob = (m', e', ob') ->
  let live := firstn n m in
  let n' := n - (if member index live then 1 else 0) in
  ob' = ob /\ length m' = length m /\ firstn n' m' = renum index live /\ vmap (N - 1) m' n' /\
  (0 <=? e')%Z = member index live.
Proof. exact emap_remove_valid. Qed.
Print Assumptions C14_emap_remove_valid.

(* adding: index N is appended; the map stays a valid injection into [0,N+1); a valid map has <= N entries *)
Theorem C14_emap_add_valid : forall N m m2 n, vmap N m n -> n < length m2 ->
  (forall a, a < n -> nth a m2 zd = nth a m zd) -> vmap (S N) (upd m2 n (Z.of_nat N)) (S n).
Proof. exact emap_add_valid. Qed.
Print Assumptions C14_emap_add_valid.

(* TRACE current_Ks reshuffle on removal (in place): for EVERY N = n+1 and every index (the last one
   included), entry (a,b) of the new n x n matrix is entry (a',b') of the old N x N matrix, where a' (b')
   skips [index]; all accesses stay inside the N*N allocation *)
Theorem C14_trace_Ks_remove_exact : forall n index k ob k' ob', S n * S n <= length k ->
  ks_rows n 0 n (S n) index k ob = (k', ob') ->
  ob' = ob /\ length k' = length k /\
  forall a b, a < n -> b < n ->
    nth (a * n + b) k' 0%Z = nth ((if a <? index then a else S a) * S n + (if b <? index then b else S b)) k 0%Z.
Proof. exact ks_remove_exact. Qed.
Print Assumptions C14_trace_Ks_remove_exact.

(* TRACE current_Ks on reb_simulation_add: the in-place expansion of the stride from n to n+1 puts every old
   entry (a,b) at (a,b) of the wider matrix, writes nothing else, stays inside a block of (n+1)^2 entries, and
   (rows and columns being walked downwards) never overwrites an entry before it has been read *)
Theorem C14_trace_Ks_add_exact : forall n k ob k' ob', S n * S n <= length k -> ks_grow n n k ob = (k', ob') ->
  ob' = ob /\ length k' = length k /\
  (forall a b, a < n -> b < n -> nth (a * S n + b) k' 0%Z = nth (a * n + b) k 0%Z) /\
  (forall q, (forall a b, a < n -> b < n -> q <> a * S n + b) -> nth q k' 0%Z = nth q k 0%Z).
Proof. exact ks_grow_exact. Qed.
Print Assumptions C14_trace_Ks_add_exact.
(* ... then the column of the new particle is set to 1 exactly for encounter_map[1..encounter_N) and NOTHING
   else is written by this loop (last clause) *)
Theorem C14_trace_Ks_add_mark : forall cnt i n m k ob k' ob', i + cnt <= length m ->
  (forall t, i <= t < i + cnt -> (0 <= nth t m 0 < Z.of_nat n)%Z) -> S n * S n <= length k ->
  ks_mark cnt i (S n) n m k ob = (k', ob') ->
  ob' = ob /\ length k' = length k /\
  (forall t, i <= t < i + cnt -> nth (Z.to_nat (nth t m 0%Z) * S n + n) k' 0%Z = 1%Z) /\
  (forall q, (forall t, i <= t < i + cnt -> q <> Z.to_nat (nth t m 0%Z) * S n + n) -> nth q k' 0%Z = nth q k 0%Z).
Proof. exact ks_mark_spec. Qed.
Print Assumptions C14_trace_Ks_add_mark.

(* ... and the new column and row are zero-filled before the marking (since 0ed1db2): old entries untouched,
   every written entry is 0, all 2(n+1) targets are 0, inside the block *)
Theorem C14_trace_Ks_add_zero : forall cnt i n k ob k' ob', i + cnt = S n -> S n * S n <= length k ->
  ks_zero cnt i (S n) n k ob = (k', ob') ->
  ob' = ob /\ length k' = length k /\
  (forall a b, a < n -> b < n -> nth (a * S n + b) k' 0%Z = nth (a * S n + b) k 0%Z) /\
  (forall q, nth q k' 0%Z = nth q k 0%Z \/ nth q k' 0%Z = 0%Z) /\
  (forall t, i <= t < i + cnt -> nth (t * S n + n) k' 0%Z = 0%Z /\ nth (n * S n + t) k' 0%Z = 0%Z).
Proof. exact ks_zero_spec. Qed.
Print Assumptions C14_trace_Ks_add_zero.

(* REB_TRACE_MODE_FULL (pericentre step): removal and addition leave encounter_map, encounter_N and
   encounter_N_active alone -- the unsigned counters cannot wrap around there any more *)
Theorem C14_trace_full_remove_map_untouched : forall s h z keep s' h' r, kind h = ITrace -> hmode h = 3 ->
  hremove s h z keep = (s', h', r) -> emap h' = emap h /\ eN h' = eN h /\ eNact h' = eNact h.
Proof. exact trace_full_remove_map_untouched. Qed.
Print Assumptions C14_trace_full_remove_map_untouched.
Theorem C14_trace_full_add_map_untouched : forall s h p d s' h', kind h = ITrace -> hmode h = 3 ->
  hadd s h p d = (s', h') ->
  eN h' = eN h /\ eNact h' = eNact h /\ firstn (length (emap h)) (emap h') = emap h.
Proof. exact trace_full_add_map_untouched. Qed.
Print Assumptions C14_trace_full_add_map_untouched.

(* The hybrid arrays follow N through the encounter step.  ri_*.N_allocated (= length of encounter_map) is also
   the size of particles_backup / particles_backup_kepler (reallocated together), current_Ks has
   N_allocated^2 entries.  [hyb_ok]: encounter_map is a valid (strictly increasing) injection of its
   encounter_N live entries into [0,N), N <= N_allocated, N_allocated^2 <= |current_Ks|. *)
Theorem C14_hybrid_add_ok : forall s h p d s' h', active h = true -> hyb_ok s h -> add_refused s p = false -> hadd s h p d = (s', h') ->
  hyb_ok s' h' /\ hoob h' = hoob h /\ sN s' = S (sN s) /\ eN h' = S (eN h).
Proof. exact hadd_ok. Qed.
Print Assumptions C14_hybrid_add_ok.
Theorem C14_hybrid_remove_ok : forall s h z keep s' h' r, active h = true -> hyb_ok s h ->
  hremove s h z keep = (s', h', r) -> r <> RFail ->
  let live := firstn (eN h) (emap h) in
  hyb_ok s' h' /\ hoob h' = hoob h /\ sN s' = sN s - 1 /\
  eN h' = eN h - (if member z live then 1 else 0) /\ firstn (eN h') (emap h') = renum z live.
Proof. exact hremove_ok. Qed.
Print Assumptions C14_hybrid_remove_ok.

(* ---- free_particle_ap as an event log: coq/C14/Callback.v *)
(* every successful removal (by index or hash, all four paths) calls the callback exactly once, on the
   removed particle as it is before its slot is overwritten (already flagged y=NaN on the deferred tree
   path); failed requests call nothing *)
Theorem C14_callback_once : forall s o s' r, wf s ->
  match o with RemoveIdx _ _ | RemoveHash _ _ => True | _ => False end ->
  step s o = (s', r) -> step_cb s o = cb_spec (abs s) r.
Proof. exact callback_once. Qed.
Print Assumptions C14_callback_once.
(* remove-all calls it once per removed particle, in index order (and deletes the tree: RemoveAll leaves
   atree = false in the specification, see aspec) *)
Theorem C14_callback_remove_all : forall s, step_cb s RemoveAll = aps (abs s).
Proof. exact callback_remove_all. Qed.
Print Assumptions C14_callback_remove_all.

(* The tree update re-inserts a particle that left its cell (Hybrid.v tree_reinsert; since 794b7d9 without the
   bookkeeping for new particles): the hybrid arrays are untouched, N is unchanged, the invariant of the encounter
   step is preserved, the particle array holds the same particles (re-inserted one last), nothing outside the
   storage is touched *)
Theorem C14_tree_reinsert_ok : forall s h i s' h', wf s -> i < sN s ->
  add_refused (reinsert_mid s i) (nth i (mem s) pzero) = false ->      (* it does not coincide with another particle *)
  tree_reinsert s h i = (s', h') ->
  h' = h /\ sN s' = sN s /\ wf s' /\ oob s' = oob s /\
  aps (abs s') = remove_swap i (aps (abs s)) ++ [nth i (aps (abs s)) pzero] /\
  (hyb_ok s h -> hyb_ok s' h').
Proof. exact tree_reinsert_ok. Qed.
Print Assumptions C14_tree_reinsert_ok.

(* ---- a step whose part1 failed must not touch integrator arrays sized for an earlier N: coq/C14/StepGuard.v
   (abstract model: p_jh has N_allocated records, init fails before resizing or resizes to N, every
   routine of the step indexes p_jh[i] for i < N) *)
(* WHFast (guard p_jh==NULL || N_allocated != N in part2): nothing outside p_jh is touched for any earlier
   allocation, any N, either outcome of init; after a failed init with N_allocated != N the arrays are
   untouched and t is not advanced *)
Theorem C14_whfast_step_safe : forall err n w,
  woob (fst (whfast_step err n w)) = woob w /\
  (err = true -> fst (whfast_step err n w) = w /\ snd (whfast_step err n w) = false \/ palloc w = n).
Proof. exact whfast_step_safe. Qed.
Print Assumptions C14_whfast_step_safe.
(* SABA (part2 re-checks p_jh==NULL || N_allocated != N || its own part1 errors): the same, for every
   combination of SABA's own errors and the errors of init *)
Theorem C14_saba_step_safe : forall own err n w,
  woob (fst (saba_step own err n w)) = woob w /\
  (own = true -> saba_step own err n w = (w, false)) /\
  (err = true -> fst (saba_step own err n w) = w /\ snd (saba_step own err n w) = false \/ palloc w = n).
Proof. exact saba_step_safe. Qed.
Print Assumptions C14_saba_step_safe.

(* Non-vacuity: a reachable state with a STALE lookup table (4 entries for 3 particles: (9 -> slot 3) points
   past N, (5 -> slot 0) points at a particle that now carries hash 9), reached through an unsorted removal of
   an active particle with N_active = 2 (N_active stays 2, N becomes 3), satisfies the hypotheses; the lookups of 9 and 5
   hit the stale entries, rebuild, and return particles that carry the hash (indices 0 and 2); reb_hash of
   "star" is the library's value. *)
Example C14_hypotheses_inhabited :
  run_ok (init false) stale_ops /\ inv stale_example /\
  nlook stale_example = 4 /\ sN stale_example = 3 /\ sNact stale_example = 2%Z /\
  snd (by_hash stale_example 9%N) = Some 0 /\ snd (by_hash stale_example 5%N) = Some 2 /\
  invalid (abs stale_example) (RemoveIdx 3 true) /\
  reb_hash [115; 116; 97; 114]%N = 3376927956%N.
Proof.
  split; [vm_compute; repeat split; auto; right; split; discriminate|].
  split; [split; [split; vm_compute; lia|right; vm_compute; split; discriminate]|].
  repeat split; try (vm_compute; reflexivity).
  vm_compute. right. discriminate.
Qed.
