(* C14 property theorems ONLY (each closed by an already proved lemma) + assumptions.
   Model: coq/C14/Model.v (routines of src/particle.c in their order of checks); specification: a plain
   particle list with N_active / N_var / tree-present ([astate], [res_ok], [aspec]). *)
From Coq Require Import List ZArith NArith Bool Arith Lia.
From RV Require Import C14.Murmur C14.Model C14.ProofsA C14.ProofsB C14.ProofsC.
Import ListNotations.
Close Scope N_scope.

(* Refinement, all finite operation sequences, from the empty simulation (with or without a tree):
   every reported result is one the list specification allows, and the particles / N_active / N_var after
   the run are exactly those of the specification: order preserved by keep_sorted removals; unsorted
   removal = last particle moved into the hole (for an active particle: last active particle into the
   hole, last particle into its slot); growth of the storage invisible; N_active stays consistent.
   [run_ok]: the only hypothesis is that the user's own writes of N_active are consistent when made. *)
Theorem C14_refines : forall tr ops s' rs, run_ok (init tr) ops -> run (init tr) ops = (s', rs) ->
  spec_trace (mkA [] (-1) 0 tr) ops rs (abs s') /\ nact_ok (abs s').
Proof. exact refines. Qed.
Print Assumptions C14_refines.

(* the same for one step from ANY state satisfying the invariant (arbitrary lookup table) *)
Theorem C14_step_refines : forall s o s' r, inv s -> user_ok (abs s) o -> step s o = (s', r) ->
  inv s' /\ oob s' = oob s /\ res_ok (abs s) o r /\ abs s' = aspec (abs s) o r.
Proof. exact step_refines. Qed.
Print Assumptions C14_step_refines.

(* Lookup by hash returns a particle carrying the hash iff one exists, for any staleness of the lookup
   table, duplicate and zero hashes included; it does not change the simulation. *)
Theorem C14_lookup_correct : forall s h s' r, wf s -> by_hash s h = (s', r) ->
  abs s' = abs s /\ oob s' = oob s /\
  match r with
  | Some i => i < length (aps (abs s)) /\ phash (nth i (aps (abs s)) pzero) = h
  | None => ~ has_hash h (aps (abs s))
  end.
Proof. exact lookup_correct. Qed.
Print Assumptions C14_lookup_correct.

(* Out-of-range index / unknown hash: failure is returned and particles, N, N_active, N_var are unchanged. *)
Theorem C14_invalid_rejected : forall s o s' r, wf s -> invalid (abs s) o -> step s o = (s', r) ->
  r = RFail /\ abs s' = abs s.
Proof. exact invalid_rejected. Qed.
Print Assumptions C14_invalid_rejected.

(* No array access of any run leaves its allocation (particles and lookup table).  The hypothesis is
   needed: the unsorted removal reads particles[N_active-1], which is inside the storage only while
   N_active <= N. *)
Theorem C14_memory_safe : forall tr ops, run_ok (init tr) ops -> oob (fst (run (init tr) ops)) = 0.
Proof. exact memory_safe. Qed.
Print Assumptions C14_memory_safe.

(* N_active stays consistent (unset, or 0 <= N_active <= N) under every operation; only a direct
   inconsistent write by the user can break it. *)
Theorem C14_nactive_consistent : forall s o s' r, wf s -> nact_ok (abs s) -> user_ok (abs s) o ->
  step s o = (s', r) -> nact_ok (abs s').
Proof. exact nact_consistent. Qed.
Print Assumptions C14_nactive_consistent.

(* Non-vacuity: a reachable state with a STALE lookup table (4 entries for 3 particles: (9 -> slot 3) points
   past N, (5 -> slot 0) points at a particle that now carries hash 0), reached through an unsorted removal of
   an active particle with N_active = 2 (N_active becomes 1), satisfies the hypotheses; the lookups of 9 and 5
   hit the stale entries, rebuild, and return particles that carry the hash (indices 1 and 2); reb_hash of
   "star" is the library's value. *)
Example C14_hypotheses_inhabited :
  run_ok (init false) stale_ops /\ inv stale_example /\
  nlook stale_example = 4 /\ sN stale_example = 3 /\ sNact stale_example = 1%Z /\
  snd (by_hash stale_example 9%N) = Some 1 /\ snd (by_hash stale_example 5%N) = Some 2 /\
  invalid (abs stale_example) (RemoveIdx 3 true) /\
  reb_hash [115; 116; 97; 114]%N = 3376927956%N.
Proof.
  split; [vm_compute; repeat split; auto; right; split; discriminate|].
  split; [split; [split; vm_compute; lia|right; vm_compute; split; discriminate]|].
  repeat split; try (vm_compute; reflexivity).
  vm_compute. right. discriminate.
Qed.
