(* C14 model: particle bookkeeping of src/particle.c, transcribed routine by routine in the C order of
   checks.  Definitions only; proofs are in Proofs.v.

   What is modelled: r->particles (an array of N_allocated slots, [mem], length mem = N_allocated),
   r->N, r->N_active (C int, -1 = unset), r->N_var, r->particle_lookup_table ([tab], length tab =
   N_allocated_lookup), r->N_lookup, r->tree_root != NULL ([tree]).  Every array access goes through
   [chk], which counts an out-of-bounds event in [oob] when the index is not below the allocation.

   What is NOT modelled (stated in the manifest): the MERCURIUS / TRACE bookkeeping blocks of
   reb_simulation_add / reb_simulation_remove_particle (integrator assumed to be neither), the contents of
   the tree (only tree_root != NULL matters to the removal paths), the free_particle_ap callback (NULL),
   the box check of reb_simulation_add_local (no boundary set), MPI.  A particle is (hash, id, y-is-NaN):
   the id stands for all coordinates (the harness stores it in m and x). *)
From Coq Require Import List ZArith NArith Bool Arith.
Import ListNotations.

Record particle := mkP { phash : N; pid : N; pnan : bool }.
Definition pzero : particle := mkP 0 0 false.      (* memset(…,0,…) of fresh storage *)

Fixpoint upd {A} (l : list A) (i : nat) (v : A) : list A :=
  match l, i with
  | [], _ => []
  | _ :: r, O => v :: r
  | x :: r, S j => x :: upd r j v
  end.
(* 1 if index i is outside an allocation of len elements *)
Definition chk (len i : nat) : nat := if i <? len then 0 else 1.

Record state := mkS {
  tcfg : bool;              (* a tree code is selected (gravity or collision): reb_simulation_add puts the particle into the tree *)
  mem : list particle;      (* r->particles[0 .. N_allocated) *)
  sN : nat;                 (* r->N *)
  sNact : Z;                (* r->N_active *)
  sNvar : nat;              (* r->N_var *)
  tab : list (N * nat);     (* r->particle_lookup_table[0 .. N_allocated_lookup) : (hash, index) *)
  nlook : nat;              (* r->N_lookup *)
  tree : bool;              (* r->tree_root != NULL *)
  oob : nat                 (* out-of-bounds accesses so far *)
}.
Definition init (tr : bool) : state := mkS tr [] 0 (-1) 0 [] 0 tr 0.

Inductive op :=
| Add (p : particle)                 (* reb_simulation_add *)
| RemoveIdx (i : Z) (keep : bool)    (* reb_simulation_remove_particle *)
| RemoveHash (h : N) (keep : bool)   (* reb_simulation_remove_particle_by_hash *)
| SetHash (i : nat) (h : N)          (* r->particles[i].hash = h   (Python: sim.particles[i].hash = h) *)
| Lookup (h : N)                     (* reb_simulation_particle_by_hash *)
| RemoveAll                          (* reb_simulation_remove_all_particles *)
| SetNActive (z : Z)                 (* r->N_active = z *)
| SetNVar (k : nat).                 (* r->N_var = k (stands for variational particles being present) *)

Inductive result :=
| RVoid                 (* void function / plain field write *)
| RRemoved (i : nat)    (* returned 1: particle i removed *)
| RFlagged (i : nat)    (* returned 1: particle i flagged y=NaN, removal deferred to the next tree update *)
| RFail                 (* returned 0 / Python raised *)
| RFound (i : nat)      (* pointer to particles[i] *)
| RNull.                (* NULL / ParticleNotFound *)

(* ------------------------------------------------------------------ reb_simulation_add_local *)
(* while (r->N_allocated<=r->N) r->N_allocated = r->N_allocated ? r->N_allocated*2 : 128; *)
Fixpoint grow_alloc (fuel alloc n : nat) : nat :=
  match fuel with
  | O => alloc
  | S f => if alloc <=? n then grow_alloc f (if alloc =? 0 then 128 else 2 * alloc) n else alloc
  end.

Definition add (s : state) (p : particle) : state :=
  let alloc := grow_alloc (S (S (sN s))) (length (mem s)) (sN s) in
  let mem1 := mem s ++ repeat pzero (alloc - length (mem s)) in      (* realloc + memset of the new part *)
  mkS (tcfg s) (upd mem1 (sN s) p) (S (sN s)) (sNact s) (sNvar s) (tab s) (nlook s) (tree s || tcfg s)
      (oob s + chk (length mem1) (sN s)).

(* In tree mode reb_tree_add_particle_to_tree refuses a particle whose coordinates are identical to those of a
   particle already in the tree (error "Cannot add two particles with the same coordinates to the tree"); since
   950a4b2 reb_simulation_add_local_store then returns before N++.  The id of a particle stands for all its
   coordinates, so "same coordinates" = same id, and a particle flagged y=NaN never compares equal.
   The refused particle has been copied into slot N (beyond the live part) and the storage may have grown. *)
Definition add_refused (s : state) (p : particle) : bool :=
  tcfg s && existsb (fun q => (pid q =? pid p)%N && negb (pnan q) && negb (pnan p)) (firstn (sN s) (mem s)).
Definition add_slot_only (s : state) (p : particle) : state :=
  let alloc := grow_alloc (S (S (sN s))) (length (mem s)) (sN s) in
  let mem1 := mem s ++ repeat pzero (alloc - length (mem s)) in
  mkS (tcfg s) (upd mem1 (sN s) p) (sN s) (sNact s) (sNvar s) (tab s) (nlook s) (tree s || tcfg s)
      (oob s + chk (length mem1) (sN s)).
Definition add_op (s : state) (p : particle) : state * result :=
  if add_refused s p then (add_slot_only s p, RFail) else (add s p, RVoid).

(* ------------------------------------------------------------------ reb_search_lookup_table *)
(* binary search; left/right are C ints (right starts at N_lookup-1 and can reach -1). Returns the index
   stored in the entry when it is below N, NULL otherwise, and the updated oob counter. *)
Fixpoint search (fuel : nat) (t : list (N * nat)) (left right : Z) (n : nat) (h : N) (ob : nat)
  : option nat * nat :=
  match fuel with
  | O => (None, ob)
  | S f =>
    if (left <=? right)%Z then
      let middle := ((left + right) / 2)%Z in
      let mi := Z.to_nat middle in
      let e := nth mi t (0%N, O) in
      let ob1 := ob + chk (length t) mi in
      if (fst e <? h)%N then search f t (middle + 1) right n h ob1
      else if (h <? fst e)%N then search f t left (middle - 1) n h ob1
      else if snd e <? n then (Some (snd e), ob1) else (None, ob1)
    else (None, ob)
  end.
Definition search_tab (s : state) (h : N) : option nat * nat :=
  search (S (nlook s)) (tab s) 0 (Z.of_nat (nlook s) - 1) (sN s) h (oob s).

(* ------------------------------------------------------------------ reb_update_particle_lookup_table *)
(* qsort with compare_hash: any sorting permutation satisfies the theorems (they use sortedness and
   membership only); the executable model uses a STABLE insertion sort (equal hashes stay in index
   order), which is what glibc's qsort (merge sort) does; the harness probes the platform qsort for
   stability before it compares the exact index returned among duplicate hashes. *)
Fixpoint insert (x : N * nat) (l : list (N * nat)) : list (N * nat) :=
  match l with
  | [] => [x]
  | y :: r => if (fst x <=? fst y)%N then x :: l else y :: insert x r
  end.
Fixpoint isort (l : list (N * nat)) : list (N * nat) :=
  match l with
  | [] => []
  | x :: r => insert x (isort r)
  end.

Definition grow_tab (t : list (N * nat)) : list (N * nat) :=
  t ++ repeat (0%N, O) ((if length t =? 0 then 128 else 2 * length t) - length t).

(* the loop  for(i=0;i<r->N;i++)  with its state (table, N_hash, zerohash) *)
Fixpoint rebuild_loop (idxs : list nat) (m : list particle) (t : list (N * nat)) (nh : nat)
         (zh : option nat) (ob : nat) : list (N * nat) * nat * nat :=
  match idxs with
  | [] => (t, nh, ob)
  | i :: r =>
      let t1 := if length t <=? nh then grow_tab t else t in
      let p := nth i m pzero in
      let ob1 := ob + chk (length m) i in
      if (phash p =? 0)%N then
        match zh with
        | None =>    (* zerohash = i; table[zerohash] = (hash, i); N_hash++ *)
            rebuild_loop r m (upd t1 i (phash p, i)) (S nh) (Some i) (ob1 + chk (length t1) i)
        | Some z =>  (* table[zerohash].index = i *)
            rebuild_loop r m (upd t1 z (fst (nth z t1 (0%N, O)), i)) nh zh (ob1 + chk (length t1) z)
        end
      else rebuild_loop r m (upd t1 nh (phash p, i)) (S nh) zh (ob1 + chk (length t1) nh)
  end.

Definition rebuild (s : state) : state :=
  let '(t, nh, ob) := rebuild_loop (seq 0 (sN s)) (mem s) (tab s) 0 None (oob s) in
  mkS (tcfg s) (mem s) (sN s) (sNact s) (sNvar s) (isort (firstn nh t) ++ skipn nh t) nh (tree s) ob.

(* ------------------------------------------------------------------ reb_simulation_particle_by_hash *)
Definition with_oob (s : state) (ob : nat) : state :=
  mkS (tcfg s) (mem s) (sN s) (sNact s) (sNvar s) (tab s) (nlook s) (tree s) ob.

Definition by_hash (s : state) (h : N) : state * option nat :=
  let '(r1, ob1) := search_tab s h in
  match r1 with
  | Some i =>
      let s2 := with_oob s (ob1 + chk (length (mem s)) i) in           (* p->hash *)
      if (phash (nth i (mem s) pzero) =? h)%N then (s2, Some i)
      else let s3 := rebuild s2 in let '(r2, ob2) := search_tab s3 h in (with_oob s3 ob2, r2)
  | None =>
      let s3 := rebuild (with_oob s ob1) in let '(r2, ob2) := search_tab s3 h in (with_oob s3 ob2, r2)
  end.

(* ------------------------------------------------------------------ reb_simulation_remove_particle *)
(* for(j=index; j<r->N; j++) particles[j] = particles[j+1];   (r->N already decremented) *)
Fixpoint shift (cnt j : nat) (m : list particle) (ob : nat) : list particle * nat :=
  match cnt with
  | O => (m, ob)
  | S c => shift c (S j) (upd m j (nth (S j) m pzero)) (ob + chk (length m) (S j) + chk (length m) j)
  end.

Definition flag_nan (p : particle) : particle := mkP (phash p) (pid p) true.

Definition remove_idx (s : state) (index : Z) (keep : bool) : state * result :=
  if ((Z.of_nat (sN s) <=? index) || (index <? 0))%Z then (s, RFail)
  else if negb (sNvar s =? 0) then (s, RFail)
  else if keep && tree s then (s, RFail)      (* refused before anything is modified *)
  else
    let i := Z.to_nat index in
    if (sN s =? 1) && negb (tree s) then
      (mkS (tcfg s) (mem s) 0 (if (index <? sNact s)%Z then (sNact s - 1)%Z else sNact s) (sNvar s) (tab s) (nlook s)
           (tree s) (oob s), RRemoved i)
    else if keep then
        let n1 := sN s - 1 in
        let nact := if (index <? sNact s)%Z then (sNact s - 1)%Z else sNact s in
        let '(m1, ob) := shift (n1 - i) i (mem s) (oob s) in
        (mkS (tcfg s) m1 n1 nact (sNvar s) (tab s) (nlook s) (tree s) ob, RRemoved i)
    else if tree s then
      (mkS (tcfg s) (upd (mem s) i (flag_nan (nth i (mem s) pzero))) (sN s) (sNact s) (sNvar s) (tab s) (nlook s)
           (tree s) (oob s + chk (length (mem s)) i), RFlagged i)
    else
      (* N--; particles[index] = particles[N]; if (N_active > N) N_active = N; *)
      let n1 := sN s - 1 in
      (mkS (tcfg s) (upd (mem s) i (nth n1 (mem s) pzero)) n1
           (if (Z.of_nat n1 <? sNact s)%Z then Z.of_nat n1 else sNact s) (sNvar s) (tab s) (nlook s) (tree s)
           (oob s + chk (length (mem s)) n1 + chk (length (mem s)) i), RRemoved i).

(* reb_simulation_remove_particle_by_hash: lookup, then reb_simulation_particle_index (pointer scan, no
   particle memory read), then remove by index *)
Definition remove_hash (s : state) (h : N) (keep : bool) : state * result :=
  let '(s1, r) := by_hash s h in
  match r with
  | None => (s1, RFail)
  | Some i => remove_idx s1 (Z.of_nat i) keep
  end.

Definition set_hash (s : state) (i : nat) (h : N) : state * result :=
  if i <? sN s then
    let p := nth i (mem s) pzero in
    (mkS (tcfg s) (upd (mem s) i (mkP h (pid p) (pnan p))) (sN s) (sNact s) (sNvar s) (tab s) (nlook s) (tree s)
         (oob s + chk (length (mem s)) i), RVoid)
  else (s, RFail).     (* the Python container raises AttributeError; not reachable through the C API *)

(* free_particle_ap for every particle (see Callback.v); reb_tree_delete (tree_root = NULL); r->N=0; N_allocated=0;
   N_active=-1; N_var=0; free(particles). The lookup table is left as it is. *)
Definition remove_all (s : state) : state :=
  mkS (tcfg s) [] 0 (-1) 0 (tab s) (nlook s) false (oob s).

Definition step (s : state) (o : op) : state * result :=
  match o with
  | Add p => add_op s p
  | RemoveIdx i k => remove_idx s i k
  | RemoveHash h k => remove_hash s h k
  | SetHash i h => set_hash s i h
  | Lookup h => let '(s1, r) := by_hash s h in (s1, match r with Some i => RFound i | None => RNull end)
  | RemoveAll => (remove_all s, RVoid)
  | SetNActive z => (mkS (tcfg s) (mem s) (sN s) z (sNvar s) (tab s) (nlook s) (tree s) (oob s), RVoid)
  | SetNVar k => (mkS (tcfg s) (mem s) (sN s) (sNact s) k (tab s) (nlook s) (tree s) (oob s), RVoid)
  end.

Fixpoint run (s : state) (ops : list op) : state * list result :=
  match ops with
  | [] => (s, [])
  | o :: r => let '(s1, x) := step s o in let '(s2, xs) := run s1 r in (s2, x :: xs)
  end.

(* ------------------------------------------------------------------ abstract specification *)
(* The simulation as the user sees it: the list of live particles, N_active, N_var, tree present. *)
Record astate := mkA { acfg : bool; aps : list particle; aNact : Z; aNvar : nat; atree : bool }.
Definition abs (s : state) : astate := mkA (tcfg s) (firstn (sN s) (mem s)) (sNact s) (sNvar s) (tree s).

Definition remove_nth {A} (i : nat) (l : list A) : list A := firstn i l ++ skipn (S i) l.
(* unsorted removal: the last particle is moved into the hole *)
Definition remove_swap (i : nat) (l : list particle) : list particle :=
  firstn (length l - 1) (upd l i (last l pzero)).
Definition has_hash (h : N) (l : list particle) : Prop := exists p, In p l /\ phash p = h.

(* a removal request for a valid index i is refused: variational particles present, or order
   preservation requested while a tree exists *)
Definition refused (a : astate) (keep : bool) : bool :=
  negb (aNvar a =? 0) || (keep && atree a).

(* post-state of removing the valid index i, with the N_active rule of the code:
   - order-preserving removal and removal of the last remaining particle (no tree): N_active is
     decremented when i < N_active;
   - unsorted removal (no tree): the last particle is moved into the hole and N_active is left as it is,
     except that it is clamped to the new N when it would exceed it (so a test particle moved into an
     active slot becomes active, and N_active = N stays N_active = N);
   - with a tree the unsorted removal is deferred: the particle is only flagged, nothing else changes. *)
Definition dec_nact (a : astate) (i : nat) : Z :=
  if (Z.of_nat i <? aNact a)%Z then (aNact a - 1)%Z else aNact a.
Definition clamp_nact (a : astate) : Z :=
  if (Z.of_nat (length (aps a) - 1) <? aNact a)%Z then Z.of_nat (length (aps a) - 1) else aNact a.
Definition aremove (a : astate) (i : nat) (keep : bool) : astate :=
  if (length (aps a) =? 1) && negb (atree a) then mkA (acfg a) [] (dec_nact a i) (aNvar a) (atree a)
  else if keep then mkA (acfg a) (remove_nth i (aps a)) (dec_nact a i) (aNvar a) (atree a)
  else if atree a then mkA (acfg a) (upd (aps a) i (flag_nan (nth i (aps a) pzero))) (aNact a) (aNvar a) (atree a)
  else mkA (acfg a) (remove_swap i (aps a)) (clamp_nact a) (aNvar a) (atree a).

Definition removed_result (a : astate) (i : nat) (keep : bool) : result :=
  if negb keep && atree a then RFlagged i else RRemoved i.

(* which results the specification allows for an operation (removal by hash may pick any particle that
   carries the hash) *)
Definition res_ok (a : astate) (o : op) (r : result) : Prop :=
  match o with
  | Add p => if acfg a && existsb (fun q => (pid q =? pid p)%N && negb (pnan q) && negb (pnan p)) (aps a)
             then r = RFail else r = RVoid
  | RemoveAll | SetNActive _ | SetNVar _ => r = RVoid
  | RemoveIdx z keep =>
      if ((0 <=? z) && (z <? Z.of_nat (length (aps a))))%Z && negb (refused a keep)
      then r = removed_result a (Z.to_nat z) keep else r = RFail
  | RemoveHash h keep =>
      (r = RFail /\ (~ has_hash h (aps a) \/ refused a keep = true)) \/
      (exists i, i < length (aps a) /\ phash (nth i (aps a) pzero) = h /\ refused a keep = false /\
                 r = removed_result a i keep)
  | SetHash i _ => if i <? length (aps a) then r = RVoid else r = RFail
  | Lookup h =>
      (r = RNull /\ ~ has_hash h (aps a)) \/
      (exists i, r = RFound i /\ i < length (aps a) /\ phash (nth i (aps a) pzero) = h)
  end.

(* post-state given the reported result *)
Definition aspec (a : astate) (o : op) (r : result) : astate :=
  match o, r with
  | Add p, RFail => mkA (acfg a) (aps a) (aNact a) (aNvar a) (atree a || acfg a)     (* refused: nothing added *)
  | Add p, _ => mkA (acfg a) (aps a ++ [p]) (aNact a) (aNvar a) (atree a || acfg a)
  | RemoveAll, _ => mkA (acfg a) [] (-1) 0 false
  | SetNActive z, _ => mkA (acfg a) (aps a) z (aNvar a) (atree a)
  | SetNVar k, _ => mkA (acfg a) (aps a) (aNact a) k (atree a)
  | SetHash i h, RVoid =>
      let p := nth i (aps a) pzero in mkA (acfg a) (upd (aps a) i (mkP h (pid p) (pnan p))) (aNact a) (aNvar a) (atree a)
  | RemoveIdx _ keep, RRemoved i | RemoveIdx _ keep, RFlagged i
  | RemoveHash _ keep, RRemoved i | RemoveHash _ keep, RFlagged i => aremove a i keep
  | _, _ => a
  end.

Fixpoint spec_trace (a : astate) (ops : list op) (rs : list result) (a' : astate) : Prop :=
  match ops, rs with
  | [], [] => a' = a
  | o :: ops', r :: rs' => res_ok a o r /\ spec_trace (aspec a o r) ops' rs' a'
  | _, _ => False
  end.

(* invalid requests of the property text *)
Definition invalid (a : astate) (o : op) : Prop :=
  match o with
  | RemoveIdx z _ => (z < 0 \/ Z.of_nat (length (aps a)) <= z)%Z
  | RemoveHash h _ => ~ has_hash h (aps a)
  | _ => False
  end.

(* storage invariant *)
Definition wf (s : state) : Prop := sN s <= length (mem s) /\ nlook s <= length (tab s).

(* N_active consistency: unset, or between 0 and N *)
Definition nact_ok (a : astate) : Prop := aNact a = (-1)%Z \/ (0 <= aNact a <= Z.of_nat (length (aps a)))%Z.
(* the user's own writes of N_active are consistent when made (everything else is unconstrained) *)
Definition user_ok (a : astate) (o : op) : Prop :=
  match o with
  | SetNActive z => z = (-1)%Z \/ (0 <= z <= Z.of_nat (length (aps a)))%Z
  | _ => True
  end.
Fixpoint run_ok (s : state) (ops : list op) : Prop :=
  match ops with
  | [] => True
  | o :: r => user_ok (abs s) o /\ run_ok (fst (step s o)) r
  end.

(* ------------------------------------------------------------------ Python container layer *)
(* Particles.__getitem__(int): negative keys count from the end; out of range raises AttributeError *)
Definition py_index (n : nat) (key : Z) : option nat :=
  let k := if (key <? 0)%Z then (key + Z.of_nat n)%Z else key in
  if ((k <? 0) || (Z.of_nat n <=? k))%Z then None else Some (Z.to_nat k).

(* canonical observation used by the correspondence check *)
Definition obs_particle (p : particle) : N * N * bool := (phash p, pid p, pnan p).
Definition observe (s : state) : nat * Z * nat * list (N * N * bool) * nat :=
  (sN s, sNact s, sNvar s, map obs_particle (firstn (sN s) (mem s)), oob s).
