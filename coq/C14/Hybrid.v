(* C14: the MERCURIUS / TRACE bookkeeping of reb_simulation_remove_particle and reb_simulation_add
   (src/particle.c), on top of the particle model of Model.v.
   Hybrid state: integrator kind, ri_*.mode, dcrit (length = N_allocated_dcrit), encounter_map (length =
   ri_*.N_allocated), encounter_N, encounter_N_active, TRACE's current_Ks (flat int matrix), the two
   recalculate_* flags of MERCURIUS, and a counter of out-of-bounds accesses to these arrays.
   Values of dcrit are abstract numbers (the value computed by
   reb_integrator_mercurius_calculate_dcrit_for_particle is an input of the model).  Not modelled:
   reb_integrator_ias15_reset / reb_integrator_bs_reset (integrator scratch memory), particles_backup*. *)
From Coq Require Import List ZArith NArith Bool Arith Lia ZifyBool.
From RV Require Import C14.Model C14.Lists C14.ProofsA.
Import ListNotations.

Inductive integ := INone | IMerc | ITrace.
Record hyb := mkH {
  kind : integ;
  hmode : nat;
  dcrit : list Z;
  emap : list Z;
  eN : nat;
  eNact : Z;
  ks : list Z;
  rc_rcrit : bool;
  rc_coord : bool;
  hoob : nat
}.
Definition garbage : Z := (-1)%Z.      (* content of freshly (re)allocated, not yet written memory *)

(* for (i=0; i<N-1 && i+1<N_allocated_dcrit; i++) if (i>=index) dcrit[i] = dcrit[i+1]; *)
Fixpoint dshift (cnt i index : nat) (d : list Z) (ob : nat) : list Z * nat :=
  match cnt with
  | O => (d, ob)
  | S c => if index <=? i
           then dshift c (S i) index (upd d i (nth (S i) d 0%Z)) (ob + chk (length d) (S i) + chk (length d) i)
           else dshift c (S i) index d ob
  end.

(* j=0; for (i=0;i<encounter_N;i++){ if (map[i]==index){ encounter_index=i; continue; }
                                      map[j] = (map[i]>index) ? map[i]-1 : map[i]; j++; }
   (since 98c9aa5: the removed particle may or may not be part of the encounter; entries above index shift) *)
Definition renum1 (index v : Z) : Z := if (index <? v)%Z then (v - 1)%Z else v.
Fixpoint emap_loop (cnt i j : nat) (index : Z) (m : list Z) (eidx : Z) (ob : nat) : list Z * Z * nat :=
  match cnt with
  | O => (m, eidx, ob)
  | S c =>
      let v := nth i m 0%Z in
      let ob1 := ob + chk (length m) i in
      if (v =? index)%Z then emap_loop c (S i) j index m (Z.of_nat i) ob1
      else emap_loop c (S i) (S j) index (upd m j (renum1 index v)) eidx (ob1 + chk (length m) j)
  end.

(* TRACE: drop row and column [index] of the N x N matrix, in place:
   for(i<new_N){ oi = i<index ? i : i+1; for(j<new_N){ oj = j<index ? j : j+1; Ks[i*new_N+j] = Ks[oi*old_N+oj]; } } *)
Definition ks_src (oldN index a b : nat) : nat :=
  (if a <? index then a else S a) * oldN + (if b <? index then b else S b).
Fixpoint ks_row (cnt j i newN oldN index : nat) (k : list Z) (ob : nat) : list Z * nat :=
  match cnt with
  | O => (k, ob)
  | S c =>
      let src := ks_src oldN index i j in
      let dst := i * newN + j in
      ks_row c (S j) i newN oldN index (upd k dst (nth src k 0%Z)) (ob + chk (length k) src + chk (length k) dst)
  end.
Fixpoint ks_rows (cnt i newN oldN index : nat) (k : list Z) (ob : nat) : list Z * nat :=
  match cnt with
  | O => (k, ob)
  | S c => let '(k1, ob1) := ks_row newN 0 i newN oldN index k ob in ks_rows c (S i) newN oldN index k1 ob1
  end.

Definition hybrid_kind (h : hyb) : bool := match kind h with INone => false | _ => true end.

(* reb_simulation_remove_particle with the hybrid bookkeeping *)
Definition hremove (s : state) (h : hyb) (index : Z) (keep : bool) : state * hyb * result :=
  if ((Z.of_nat (sN s) <=? index) || (index <? 0))%Z then (s, h, RFail)
  else if negb (sNvar s =? 0) then (s, h, RFail)
  else
    let keep1 := keep || hybrid_kind h in                 (* keep_sorted forced for MERCURIUS / TRACE *)
    if keep1 && tree s then (s, h, RFail)
    else
      let i := Z.to_nat index in
      let h1 :=
        match kind h with
        | INone => h
        | IMerc =>
            let nd := length (dcrit h) in
            let '(d, ob) := if (0 <? nd) && (i <? nd)
                            then dshift (Nat.min (sN s - 1) (nd - 1)) 0 i (dcrit h) (hoob h) else (dcrit h, hoob h) in
            if hmode h =? 1 then
              let '(m, eidx, ob') := emap_loop (eN h) 0 0 index (emap h) (-1)%Z ob in
              mkH (kind h) (hmode h) d m (if (0 <=? eidx)%Z then eN h - 1 else eN h)
                  (if (0 <=? eidx)%Z && (eidx <? eNact h)%Z then (eNact h - 1)%Z else eNact h)
                  (ks h) (rc_rcrit h) (rc_coord h) ob'
            else mkH (kind h) (hmode h) d (emap h) (eN h) (eNact h) (ks h) (rc_rcrit h) (rc_coord h) ob
        | ITrace =>
            if (hmode h =? 1) || (hmode h =? 3) then
              (* only in the Kepler step (mode 1) is encounter_map a list of indices; in REB_TRACE_MODE_FULL (3)
                 the map, encounter_N and encounter_N_active are left alone *)
              let is_list := hmode h =? 1 in
              let '(m, eidx, ob') := if is_list then emap_loop (eN h) 0 0 index (emap h) (-1)%Z (hoob h)
                                     else (emap h, (-1)%Z, hoob h) in
              let '(k, ob'') := ks_rows (sN s - 1) 0 (sN s - 1) (sN s) i (ks h) ob' in
              mkH (kind h) (hmode h) (dcrit h) m
                  (if is_list && (0 <=? eidx)%Z then eN h - 1 else eN h)
                  (if is_list && (0 <=? eidx)%Z && (eidx <? eNact h)%Z then (eNact h - 1)%Z else eNact h)
                  k (rc_rcrit h) (rc_coord h) ob''
            else h
        end in
      let '(s', r) := remove_idx s index keep1 in
      (s', h1, r).

(* ---- reb_simulation_add_local, hybrid part (after the particle is stored and N incremented) *)
Definition extend (l : list Z) (n : nat) : list Z := l ++ repeat garbage (n - length l).

(* for (i=old_N-1;i>=0;i--) for (j=old_N-1;j>=0;j--) Ks[i*old_N+j+i] = Ks[i*old_N+j]; *)
Fixpoint ks_grow_row (cnt i oldN : nat) (k : list Z) (ob : nat) : list Z * nat :=
  match cnt with
  | O => (k, ob)
  | S j => let src := i * oldN + j in let dst := i * oldN + j + i in
           ks_grow_row j i oldN (upd k dst (nth src k 0%Z)) (ob + chk (length k) src + chk (length k) dst)
  end.
Fixpoint ks_grow (cnt oldN : nat) (k : list Z) (ob : nat) : list Z * nat :=
  match cnt with
  | O => (k, ob)
  | S i => let '(k1, ob1) := ks_grow_row oldN i oldN k ob in ks_grow i oldN k1 ob1
  end.
(* for (i=1;i<encounter_N;i++) Ks[encounter_map[i]*N+old_N] = 1; *)
Fixpoint ks_mark (cnt i n oldN : nat) (m k : list Z) (ob : nat) : list Z * nat :=
  match cnt with
  | O => (k, ob)
  | S c => let dst := Z.to_nat (nth i m 0%Z) * n + oldN in
           ks_mark c (S i) n oldN m (upd k dst 1%Z) (ob + chk (length m) i + chk (length k) dst)
  end.

(* for (i=0;i<N;i++){ Ks[i*N+old_N] = 0; Ks[old_N*N+i] = 0; }   the new column and row *)
Fixpoint ks_zero (cnt i n oldN : nat) (k : list Z) (ob : nat) : list Z * nat :=
  match cnt with
  | O => (k, ob)
  | S c => let d1 := i * n + oldN in let k1 := upd k d1 0%Z in
           let d2 := oldN * n + i in
           ks_zero c (S i) n oldN (upd k1 d2 0%Z) (ob + chk (length k) d1 + chk (length k1) d2)
  end.

Definition hadd (s : state) (h : hyb) (p : particle) (newd : Z) : state * hyb :=
  if add_refused s p then (add_slot_only s p, h)       (* reb_simulation_add_local returns before any bookkeeping *)
  else
  let s1 := add s p in
  let n := sN s1 in
  let h1 :=
    match kind h with
    | INone => h
    | IMerc =>
        if hmode h =? 0 then mkH (kind h) (hmode h) (dcrit h) (emap h) (eN h) (eNact h) (ks h) true true (hoob h)
        else
          let d := if length (dcrit h) <? n then extend (dcrit h) n else dcrit h in
          let d1 := upd d (n - 1) newd in
          let m := if length (emap h) <? n then extend (emap h) n else emap h in
          mkH (kind h) (hmode h) d1 (upd m (eN h) (Z.of_nat (n - 1))) (S (eN h))
              (if (sNact s =? -1)%Z then (eNact h + 1)%Z else eNact h) (ks h) (rc_rcrit h) (rc_coord h)
              (hoob h + chk (length d) (n - 1) + chk (length m) (eN h))
    | ITrace =>
        if (hmode h =? 1) || (hmode h =? 3) then
          let oldN := n - 1 in
          let grow := length (emap h) <? n in
          let k0 := if grow then extend (ks h) (n * n) else ks h in
          let m := if grow then extend (emap h) n else emap h in
          let '(k1, ob1) := ks_grow oldN oldN k0 (hoob h) in
          let '(kz, obz) := ks_zero n 0 n oldN k1 ob1 in
          if hmode h =? 1 then
            let '(k2, ob2) := ks_mark (eN h - 1) 1 n oldN m kz obz in
            mkH (kind h) (hmode h) (dcrit h) (upd m (eN h) (Z.of_nat oldN)) (S (eN h))
                (if (sNact s =? -1)%Z then (eNact h + 1)%Z else eNact h) k2 (rc_rcrit h) (rc_coord h)
                (ob2 + chk (length m) (eN h))
          else mkH (kind h) (hmode h) (dcrit h) m (eN h) (eNact h) kz (rc_rcrit h) (rc_coord h) obz
        else h
    end in
  (s1, h1).

(* ---- operations and runs, for the correspondence *)
Inductive hop := HRemove (index : Z) (keep : bool) | HAdd (p : particle) (newd : Z).
Definition hstep (s : state) (h : hyb) (o : hop) : state * hyb * result :=
  match o with
  | HRemove z k => hremove s h z k
  | HAdd p d => let '(s1, h1) := hadd s h p d in (s1, h1, RVoid)
  end.

(* ---------------------------------------------------------------- glue for the correspondence check *)
Definition hrow := (Z * Z * Z * list Z * list Z * Z * Z * list Z * bool * bool)%type.
(* ret, N, N_active, dcrit (whole allocation), encounter_map (live part), encounter_N, encounter_N_active,
   current_Ks (first N*N), recalculate_r_crit, recalculate_coordinates *)
Definition hobs (s : state) (h : hyb) (r : result) : hrow :=
  (match r with RFail => 0 | RVoid => 9 | _ => 1 end, Z.of_nat (sN s), sNact s, dcrit h, firstn (eN h) (emap h),
   Z.of_nat (eN h), eNact h, match kind h with ITrace => firstn (sN s * sN s) (ks h) | _ => [] end,
   rc_rcrit h, rc_coord h)%Z.
Fixpoint htrace (s : state) (h : hyb) (ops : list hop) : state * hyb * list hrow :=
  match ops with
  | [] => (s, h, [])
  | o :: r => let '(s1, h1, x) := hstep s h o in let '(s2, h2, xs) := htrace s1 h1 r in (s2, h2, hobs s1 h1 x :: xs)
  end.
Fixpoint zl_eqb (a b : list Z) : bool :=
  match a, b with [], [] => true | x :: a', y :: b' => (x =? y)%Z && zl_eqb a' b' | _, _ => false end.
(* dcrit: entries the model knows only as "uninitialised after realloc" or "computed by the library" ([garbage])
   match anything (what the library holds there depends on the heap) *)
Fixpoint zl_wild_eqb (a b : list Z) : bool :=
  match a, b with
  | [], [] => true
  | x :: a', y :: b' => ((x =? garbage)%Z || (x =? y)%Z) && zl_wild_eqb a' b'
  | _, _ => false
  end.
Definition hrow_eqb (a b : hrow) : bool :=
  let '(a1, a2, a3, a4, a5, a6, a7, a8, a9, a10) := a in let '(b1, b2, b3, b4, b5, b6, b7, b8, b9, b10) := b in
  ((a1 =? b1) && (a2 =? b2) && (a3 =? b3) && (a6 =? b6) && (a7 =? b7))%Z && zl_wild_eqb a4 b4 && zl_eqb a5 b5 && zl_eqb a8 b8
  && Bool.eqb a9 b9 && Bool.eqb a10 b10.
Fixpoint hrows_eqb (x y : list hrow) : bool :=
  match x, y with [], [] => true | a :: x', b :: y' => hrow_eqb a b && hrows_eqb x' y' | _, _ => false end.
(* a case: tree, set-up operations of the particle model (adds, N_active, N_var), hybrid state, operations,
   rows observed on the library, final particle ids; hoob must stay 0 unless the case says otherwise *)
Definition hcase := (bool * list op * hyb * list hop * list hrow * list N)%type.
Definition hcase_ok (c : hcase) : bool :=
  let '(tr, setup, h, ops, rows, fin) := c in
  let s0 := fst (run (init tr) setup) in
  let '(s, h', rs) := htrace s0 h ops in
  hrows_eqb rs rows && (oob s =? 0)%nat && (hoob h' =? 0)%nat &&
  (fix eq (a b : list N) := match a, b with [], [] => true | x :: a', y :: b' => (x =? y)%N && eq a' b' | _, _ => false end)
    (map pid (firstn (sN s) (mem s))) fin.
Fixpoint bad_h (i : nat) (cs : list hcase) : list nat :=
  match cs with [] => [] | c :: r => if hcase_ok c then bad_h (S i) r else i :: bad_h (S i) r end.
Definition hdiag (c : hcase) :=
  let '(tr, setup, h, ops, rows, fin) := c in
  let s0 := fst (run (init tr) setup) in
  let '(s, h', rs) := htrace s0 h ops in (rs, oob s, hoob h', map pid (firstn (sN s) (mem s))).

(* ---- the tree update (reb_simulation_update_tree_cell, src/tree.c) re-inserting a particle that left its cell:
   N--; particles[oldpos] = particles[N]; reb_simulation_reinsert_particle(r, reinsertme)  -- the particle goes
   to the end of the array through the storing half of reb_simulation_add_local only (since 794b7d9); the
   MERCURIUS / TRACE bookkeeping for new particles does not run. *)
Definition reinsert_mid (s : state) (oldpos : nat) : state :=
  let n1 := sN s - 1 in
  mkS (tcfg s) (upd (mem s) oldpos (nth n1 (mem s) pzero)) n1 (sNact s) (sNvar s) (tab s) (nlook s) (tree s)
      (oob s + chk (length (mem s)) oldpos + chk (length (mem s)) n1 + chk (length (mem s)) oldpos).
(* the storing half of reb_simulation_add_local may refuse the particle (it now coincides with another one):
   then it is dropped with an error message *)
Definition tree_reinsert (s : state) (h : hyb) (oldpos : nat) : state * hyb :=
  (fst (add_op (reinsert_mid s oldpos) (nth oldpos (mem s) pzero)), h).
