(* C14: the MERCURIUS bookkeeping of reb_simulation_remove_particle (src/particle.c), dcrit part.
   After the validation-first fix the order is: index range, N_var, then (integrator == MERCURIUS)
   keep_sorted = 1 and the dcrit shift
       if (N_allocated_dcrit>0 && index<N_allocated_dcrit) for (i=0;i<N-1;i++) if (i>=index) dcrit[i]=dcrit[i+1];
   then the common removal paths (N==1, keep_sorted with its tree refusal, ...).
   dcrit values are abstract ids; every dcrit access is checked against N_allocated_dcrit = length dcrit.
   NOT modelled here: encounter_map / encounter_N / encounter_N_active (mode 1), TRACE's current_Ks. *)
From Coq Require Import List ZArith NArith Bool Arith Lia ZifyBool.
From RV Require Import C14.Model C14.Lists C14.ProofsA.
Import ListNotations.

Record hyb := mkH { dcrit : list N; hoob : nat }.

Fixpoint dshift (cnt i index : nat) (d : list N) (ob : nat) : list N * nat :=
  match cnt with
  | O => (d, ob)
  | S c => if index <=? i
           then dshift c (S i) index (upd d i (nth (S i) d 0%N)) (ob + chk (length d) (S i) + chk (length d) i)
           else dshift c (S i) index d ob
  end.

Definition merc_remove (s : state) (h : hyb) (index : Z) : state * hyb * result :=
  if ((Z.of_nat (sN s) <=? index) || (index <? 0))%Z then (s, h, RFail)
  else if negb (sNvar s =? 0) then (s, h, RFail)
  else
    let i := Z.to_nat index in
    let h1 := if (0 <? length (dcrit h)) && (i <? length (dcrit h))
              then let '(d, ob) := dshift (sN s - 1) 0 i (dcrit h) (hoob h) in mkH d ob else h in
    let '(s', r) := remove_idx s index true in       (* keep_sorted forced to 1 *)
    (s', h1, r).

(* out-of-range index / variational particles: nothing is touched, the hybrid arrays included *)
Theorem merc_invalid_untouched : forall s h z, ((z < 0 \/ Z.of_nat (sN s) <= z)%Z \/ sNvar s <> 0) ->
  merc_remove s h z = (s, h, RFail).
Proof.
  intros s h z H. unfold merc_remove.
  destruct ((Z.of_nat (sN s) <=? z) || (z <? 0))%Z eqn:E; auto.
  destruct (sNvar s =? 0) eqn:E2; auto. lia.
Qed.

Lemma dshift_safe : forall cnt i index d ob d' ob', i + cnt < length d ->
  dshift cnt i index d ob = (d', ob') -> ob' = ob /\ length d' = length d.
Proof.
  induction cnt; intros i index d ob d' ob' Hb H; cbn [dshift] in H.
  - inversion H; auto.
  - destruct (index <=? i).
    + apply IHcnt in H; [|rewrite upd_length; lia]. rewrite upd_length in H.
      rewrite !chk_in in H by lia. destruct H. split; lia.
    + apply IHcnt in H; auto. lia.
Qed.

(* the dcrit shift stays inside the dcrit allocation when dcrit covers all particles *)
Theorem merc_dcrit_safe_partial : forall s h z s' h' r, sN s <= length (dcrit h) ->
  merc_remove s h z = (s', h', r) -> hoob h' = hoob h.
Proof.
  intros s h z s' h' r Hl H. unfold merc_remove in H.
  destruct ((Z.of_nat (sN s) <=? z) || (z <? 0))%Z; [inversion H; auto|].
  destruct (negb (sNvar s =? 0)); [inversion H; auto|].
  destruct (remove_idx s z true) as [s1 r1].
  destruct ((0 <? length (dcrit h)) && (Z.to_nat z <? length (dcrit h))) eqn:E; [|inversion H; auto].
  destruct (dshift (sN s - 1) 0 (Z.to_nat z) (dcrit h) (hoob h)) as [d ob] eqn:ED.
  inversion H; subst; clear H. cbn [hoob]. pose proof (dshift_safe (sN s - 1) 0 (Z.to_nat z) (dcrit h) (hoob h) d ob) as L. destruct L as [L _]; auto; lia.
Qed.

(* ... and leaves it otherwise: particles added after the last MERCURIUS step (N_allocated_dcrit < N).
   Witness: N_allocated_dcrit = 3, N = 5, remove index 0 -> dcrit[3], dcrit[4] are read. *)
Definition five : state :=
  fst (run (init false) [Add (mkP 0 1 false); Add (mkP 0 2 false); Add (mkP 0 3 false); Add (mkP 0 4 false); Add (mkP 0 5 false)]).
Theorem merc_dcrit_safe_refuted : exists s h z s' h' r,
  wf s /\ (0 <= z < Z.of_nat (sN s))%Z /\ hoob h = 0 /\ merc_remove s h z = (s', h', r) /\ r = RRemoved 0 /\ 0 < hoob h'.
Proof.
  exists five, (mkH [10; 11; 12]%N 0), 0%Z. eexists. eexists. eexists.
  split; [split; vm_compute; lia|]. split; [vm_compute; split; [discriminate|reflexivity]|]. split; [reflexivity|].
  split; [vm_compute; reflexivity|]. split; [reflexivity|]. vm_compute. lia.
Qed.

(* a refused request (a tree exists, keep_sorted forced) returns failure and leaves the particles alone,
   but dcrit has already been shifted *)
Definition three_tree : state :=
  fst (run (init true) [Add (mkP 0 1 false); Add (mkP 0 2 false); Add (mkP 0 3 false)]).
Theorem merc_refused_untouched_refuted : exists s h z s' h' r,
  merc_remove s h z = (s', h', r) /\ r = RFail /\ s' = s /\ dcrit h' <> dcrit h.
Proof.
  exists three_tree, (mkH [10; 11; 12]%N 0), 1%Z. eexists. eexists. eexists.
  split; [vm_compute; reflexivity|]. split; [reflexivity|]. split; [reflexivity|]. cbn. discriminate.
Qed.
