(* C14: the Python container rebound/particles.py (class Particles) and Simulation.add / remove /
   `del sim.particles` as a thin layer over the model of particle.c.
   Keys: int (negative counts from the end), c_uint32 (hash), str (hashed with reb_hash).
   __getitem__(slice) = [self[i] for i in range over key.indices(len(self))]  (CPython slice.indices).
   __setitem__(key, Particle) overwrites the whole particle found by __getitem__(key).
   __delitem__ is `pass`: `del sim.particles[key]` does nothing (not even a key check). *)
From Coq Require Import List ZArith NArith Bool Arith Lia ZifyBool.
From RV Require Import C14.Murmur C14.Model C14.Lists C14.ProofsA C14.ProofsB C14.ProofsC.
Import ListNotations.
Close Scope N_scope.

Inductive pykey := KInt (z : Z) | KHash (h : N) | KStr (bytes : list N).

Inductive pyop :=
| PyGet (k : pykey)                                        (* sim.particles[k] *)
| PySet (k : pykey) (p : particle)                          (* sim.particles[k] = p *)
| PyDelItem (k : pykey)                                     (* del sim.particles[k] *)
| PySlice (start stop : option Z) (step : Z)                (* sim.particles[start:stop:step], step <> 0 *)
| PyLen                                                     (* len(sim.particles) *)
| PyAdd (p : particle)                                      (* sim.add(p) *)
| PyRemove (index : option Z) (hash : option pykey) (keep : bool)   (* sim.remove(index=, hash=, keep_sorted=) *)
| PyDelAll.                                                 (* del sim.particles *)

Inductive pyres :=
| PRParticle (i : nat)       (* a view of particles[i] *)
| PRList (l : list nat)      (* list of views *)
| PRLen (n : nat)
| PRNone
| PRAttributeError           (* index out of range *)
| PRNotFound                 (* rebound.ParticleNotFound *)
| PRRuntimeError.            (* error message of the C library raised by process_messages *)

(* ---- CPython slice.indices(len) and range() *)
Definition slice_indices (len : Z) (start stop : option Z) (step : Z) : Z * Z :=
  let lower := if (step <? 0)%Z then (-1)%Z else 0%Z in
  let upper := if (step <? 0)%Z then (len - 1)%Z else len in
  let clamp (v : Z) := let v := if (v <? 0)%Z then (v + len)%Z else v in
                       if (v <? lower)%Z then lower else if (upper <? v)%Z then upper else v in
  (match start with Some v => clamp v | None => if (step <? 0)%Z then upper else lower end,
   match stop with Some v => clamp v | None => if (step <? 0)%Z then lower else upper end).

Fixpoint zrange (fuel : nat) (cur stop step : Z) : list nat :=
  match fuel with
  | O => []
  | S f => if (if (0 <? step)%Z then (cur <? stop)%Z else (stop <? cur)%Z)
           then Z.to_nat cur :: zrange f (cur + step) stop step else []
  end.
Definition py_slice (n : nat) (start stop : option Z) (step : Z) : list nat :=
  let '(a, b) := slice_indices (Z.of_nat n) start stop step in zrange (S n) a b step.

Definition key_hash (k : pykey) : option N :=
  match k with KInt _ => None | KHash h => Some h | KStr b => Some (reb_hash b) end.

(* Particles.__getitem__ for a non-slice key *)
Definition py_get (s : state) (k : pykey) : state * pyres :=
  match k with
  | KInt z => (s, match py_index (sN s) z with Some i => PRParticle i | None => PRAttributeError end)
  | KHash h => let '(s1, r) := by_hash s h in (s1, match r with Some i => PRParticle i | None => PRNotFound end)
  | KStr b => let '(s1, r) := by_hash s (reb_hash b) in (s1, match r with Some i => PRParticle i | None => PRNotFound end)
  end.

Definition with_mem (s : state) (m : list particle) (ob : nat) : state :=
  mkS (tcfg s) m (sN s) (sNact s) (sNvar s) (tab s) (nlook s) (tree s) ob.

(* ctypes converts a Python int argument to a uint32_t by keeping its low 32 bits, without any range check
   (values of 2^64 and beyond raise ArgumentError before the call; not modelled) *)
Definition wrap_uint32 (z : Z) : N := Z.to_N (z mod 4294967296).

Definition of_result (r : result) : pyres := match r with RFail => PRRuntimeError | _ => PRNone end.

Definition py_step (s : state) (o : pyop) : state * pyres :=
  match o with
  | PyGet k => py_get s k
  | PySet k p =>
      let '(s1, r) := py_get s k in
      match r with
      | PRParticle i => (with_mem s1 (upd (mem s1) i p) (oob s1 + chk (length (mem s1)) i), PRNone)
      | _ => (s1, r)
      end
  | PyDelItem _ => (s, PRNone)
  | PySlice a b c => (s, PRList (py_slice (sN s) a b c))
  | PyLen => (s, PRLen (sN s))
  | PyAdd p => let '(s1, r) := add_op s p in (s1, of_result r)     (* a refused add raises RuntimeError *)
  | PyRemove index hash keep =>
      (* both calls are made when both arguments are given; an error of either surfaces as RuntimeError *)
      (* since 6478df5 an index that does not fit a C int raises RuntimeError before anything is called
         (the hash argument is then not looked at either) *)
      if match index with Some z => negb ((-2147483648 <=? z) && (z <? 2147483648))%Z | None => false end
      then (s, PRRuntimeError) else
      let '(s1, r1) := match index with Some z => remove_idx s z keep | None => (s, RVoid) end in
      let '(s2, r2) := match hash with
                       | Some k => match key_hash k with
                                   | Some h => remove_hash s1 h keep
                                   | None => match k with KInt z => remove_hash s1 (wrap_uint32 z) keep | _ => (s1, RVoid) end
                                   end
                       | None => (s1, RVoid) end in
      (s2, match r1 with RFail => PRRuntimeError | _ => of_result r2 end)
  | PyDelAll => (remove_all s, PRNone)
  end.

(* ---------------------------------------------------------------- theorems *)
Lemma py_index_lt : forall n z i, py_index n z = Some i -> i < n.
Proof.
  intros n z i H. unfold py_index in H.
  destruct (z <? 0)%Z eqn:E; destruct ((_ <? 0) || (_ <=? _))%Z eqn:E2; inversion H; lia.
Qed.

Lemma py_get_spec : forall s k s' r, wf s -> py_get s k = (s', r) ->
  wf s' /\ oob s' = oob s /\ abs s' = abs s /\ mem s' = mem s /\ sN s' = sN s /\
  match r with
  | PRParticle i => i < sN s /\
      match k with
      | KInt z => py_index (sN s) z = Some i
      | KHash h => phash (nth i (mem s) pzero) = h
      | KStr b => phash (nth i (mem s) pzero) = reb_hash b
      end
  | PRAttributeError => exists z, k = KInt z /\ py_index (sN s) z = None
  | PRNotFound => exists h, key_hash k = Some h /\ forall i, i < sN s -> phash (nth i (mem s) pzero) <> h
  | _ => False
  end.
Proof.
  intros s k s' r Hwf H. destruct k as [z|h|b]; cbn [py_get] in H.
  - inversion H; subst; clear H. repeat split; auto; try apply Hwf.
    destruct (py_index (sN s') z) eqn:E; eauto. split; auto. eapply py_index_lt; eauto.
  - destruct (by_hash s h) as [s1 r1] eqn:E. inversion H; subst; clear H.
    pose proof E as E'. apply by_hash_spec in E; auto. destruct E as (W & O & A & R).
    assert (M : mem s' = mem s /\ sN s' = sN s).
    { unfold by_hash in E'. destruct (search_tab s h) as [[i|] ob1];
        [destruct (phash (nth i (mem s) pzero) =? h)%N; [inversion E'; subst; auto|]|];
        destruct (search_tab _ h) in E'; inversion E'; subst; cbn;
        match goal with |- context [rebuild ?x] => destruct (rebuild_spec x) as (R1 & R2 & _);
          [apply with_oob_wf; auto|] end; rewrite R1, R2; auto. }
    destruct M. repeat split; auto; try apply W. destruct r1; auto. eexists; split; [reflexivity|auto].
  - destruct (by_hash s (reb_hash b)) as [s1 r1] eqn:E. inversion H; subst; clear H.
    pose proof E as E'. apply by_hash_spec in E; auto. destruct E as (W & O & A & R).
    assert (M : mem s' = mem s /\ sN s' = sN s).
    { unfold by_hash in E'. destruct (search_tab s (reb_hash b)) as [[i|] ob1];
        [destruct (phash (nth i (mem s) pzero) =? reb_hash b)%N; [inversion E'; subst; auto|]|];
        destruct (search_tab _ (reb_hash b)) in E'; inversion E'; subst; cbn;
        match goal with |- context [rebuild ?x] => destruct (rebuild_spec x) as (R1 & R2 & _);
          [apply with_oob_wf; auto|] end; rewrite R1, R2; auto. }
    destruct M. repeat split; auto; try apply W. destruct r1; auto. eexists; split; [reflexivity|auto].
Qed.

(* reads, `del sim.particles[k]`, slices and len never change the simulation; a slice only yields valid
   indices *)
Lemma zrange_bound : forall fuel cur stop step n x,
  (step <> 0)%Z -> (if (0 <? step)%Z then (0 <= cur /\ stop <= Z.of_nat n)%Z else (cur < Z.of_nat n /\ -1 <= stop)%Z) ->
  In x (zrange fuel cur stop step) -> x < n.
Proof.
  induction fuel; intros cur stop step n x Hs Hb Hin; cbn [zrange] in Hin; [contradiction|].
  destruct (0 <? step)%Z eqn:E.
  - destruct (cur <? stop)%Z eqn:E2; [|contradiction]. destruct Hin as [<-|Hin]; [lia|].
    eapply IHfuel; eauto. rewrite E. lia.
  - destruct (stop <? cur)%Z eqn:E2; [|contradiction]. destruct Hin as [<-|Hin]; [lia|].
    eapply IHfuel; eauto. rewrite E. lia.
Qed.

Theorem py_slice_in_range : forall n a b c x, (c <> 0)%Z -> In x (py_slice n a b c) -> x < n.
Proof.
  intros n a b c x Hc Hin. unfold py_slice in Hin.
  destruct (slice_indices (Z.of_nat n) a b c) as [lo hi] eqn:E.
  eapply zrange_bound; eauto. unfold slice_indices in E. inversion E; subst; clear E.
  destruct (0 <? c)%Z eqn:E1; destruct (c <? 0)%Z eqn:E2; try lia.
  - split; [destruct a as [v|]|destruct b as [v|]]; try lia;
      destruct (v <? 0)%Z; repeat match goal with |- context [if ?t then _ else _] => destruct t eqn:? end; lia.
  - split; [destruct a as [v|]|destruct b as [v|]]; try lia;
      destruct (v <? 0)%Z; repeat match goal with |- context [if ?t then _ else _] => destruct t eqn:? end; lia.
Qed.

Theorem py_readonly : forall s o s' r, wf s ->
  match o with PyGet _ | PyDelItem _ | PySlice _ _ _ | PyLen => True | _ => False end ->
  py_step s o = (s', r) -> wf s' /\ oob s' = oob s /\ abs s' = abs s.
Proof.
  intros s o s' r Hwf Ho H. destruct o; try contradiction; cbn [py_step] in H.
  - apply py_get_spec in H; auto. destruct H as (W & O & A & _). auto.
  - inversion H; subst; auto.
  - inversion H; subst; auto.
  - inversion H; subst; auto.
Qed.

(* sim.particles[k] = p : the particle denoted by k (index, or any particle carrying the hash) is
   overwritten as a whole, nothing else changes; an unresolvable key raises and changes nothing *)
Theorem py_setitem : forall s k p s' r, wf s -> py_step s (PySet k p) = (s', r) ->
  wf s' /\ oob s' = oob s /\
  ((r = PRNone /\ exists i, i < length (aps (abs s)) /\
      (match k with KInt z => py_index (length (aps (abs s))) z = Some i
                  | _ => Some (phash (nth i (aps (abs s)) pzero)) = key_hash k end) /\
      abs s' = mkA (acfg (abs s)) (upd (aps (abs s)) i p) (aNact (abs s)) (aNvar (abs s)) (atree (abs s)))
   \/ ((r = PRAttributeError \/ r = PRNotFound) /\ abs s' = abs s)).
Proof.
  intros s k p s' r Hwf H. pose proof (abs_len s Hwf) as HL. cbn [py_step] in H.
  destruct (py_get s k) as [s1 r1] eqn:E. apply py_get_spec in E; auto.
  destruct E as (W & O & A & M & N1 & R).
  destruct r1; try contradiction.
  - inversion H; subst; clear H. destruct R as [Hi Hk]. destruct W as [W1 W2].
    split; [split; cbn; [rewrite upd_length|]; auto|].
    split; [cbn; rewrite chk_in; lia|].
    left. split; auto. exists i. rewrite HL. split; auto. split.
    + destruct k; auto; cbn [key_hash]; cbn; rewrite nth_firstn_lt by lia; now rewrite Hk.
    + unfold abs, with_mem in *; cbn in *. all: try (injection A as A0 A1 A2 A3 A4; rewrite A0, A2, A3, A4, M, N1; f_equal; apply firstn_upd_lt; lia).
  - inversion H; subst; clear H. split; auto.
  - inversion H; subst; clear H. split; auto.
Qed.

(* Corner: Python ints of any size as index.  Simulation.remove(index=z) with z outside [0,N) -- however large --
   raises RuntimeError and changes nothing (the range check in Python catches what a C int cannot hold, the
   C function the rest) *)
Theorem py_remove_index_rejected : forall s z keep s' r,
  (z < 0 \/ Z.of_nat (sN s) <= z)%Z ->
  py_step s (PyRemove (Some z) None keep) = (s', r) -> r = PRRuntimeError /\ s' = s.
Proof.
  intros s z keep s' r Hz H. cbn [py_step] in H.
  destruct (negb ((-2147483648 <=? z) && (z <? 2147483648))%Z) eqn:E; [inversion H; auto|].
  unfold remove_idx in H.
  replace ((Z.of_nat (sN s) <=? z) || (z <? 0))%Z with true in H by lia. inversion H; subst. auto.
Qed.

(* ---------------------------------------------------------------- glue for the correspondence check *)
Definition pycode (r : pyres) : Z * list Z :=
  match r with
  | PRParticle i => (3, [Z.of_nat i]) | PRList l => (4, map Z.of_nat l) | PRLen n => (5, [Z.of_nat n])
  | PRNone => (9, []) | PRAttributeError => (6, []) | PRNotFound => (2, []) | PRRuntimeError => (0, [])
  end%Z.
Definition pyrow := (Z * list Z * Z * Z)%type.    (* code, payload, N, N_active *)
Fixpoint pytrace (s : state) (ops : list pyop) : state * list pyrow :=
  match ops with
  | [] => (s, [])
  | o :: r => let '(s1, x) := py_step s o in let '(s2, xs) := pytrace s1 r in
              (s2, (fst (pycode x), snd (pycode x), Z.of_nat (sN s1), sNact s1) :: xs)
  end.
Fixpoint zlist_eqb (a b : list Z) : bool :=
  match a, b with [], [] => true | x :: a', y :: b' => (x =? y)%Z && zlist_eqb a' b' | _, _ => false end.
Definition pyrow_eqb (a b : pyrow) : bool :=
  let '(a1, a2, a3, a4) := a in let '(b1, b2, b3, b4) := b in
  ((a1 =? b1) && (a3 =? b3) && (a4 =? b4))%Z && zlist_eqb a2 b2.
Fixpoint rows_eqb (x y : list pyrow) : bool :=
  match x, y with [], [] => true | a :: x', b :: y' => pyrow_eqb a b && rows_eqb x' y' | _, _ => false end.
Fixpoint fin_eqb (x y : list (N * N * bool)) : bool :=
  match x, y with
  | [], [] => true
  | (a1, a2, a3) :: x', (b1, b2, b3) :: y' => ((a1 =? b1) && (a2 =? b2))%N && Bool.eqb a3 b3 && fin_eqb x' y'
  | _, _ => false
  end.
Definition pycase := (list pyop * list pyrow * list (N * N * bool))%type.
Definition pycase_ok (c : pycase) : bool :=
  let '(ops, rows, fin) := c in
  let '(s, rs) := pytrace (init false) ops in
  rows_eqb rs rows && fin_eqb (map obs_particle (firstn (sN s) (mem s))) fin && (oob s =? 0)%nat.
Fixpoint bad_py (i : nat) (cs : list pycase) : list nat :=
  match cs with [] => [] | c :: r => if pycase_ok c then bad_py (S i) r else i :: bad_py (S i) r end.
