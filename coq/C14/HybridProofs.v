(* C14: theorems about the MERCURIUS / TRACE bookkeeping model (Hybrid.v). *)
From Coq Require Import List ZArith NArith Bool Arith Lia ZifyBool Sorting.Sorted.
From RV Require Import C14.Model C14.Lists C14.ProofsA C14.Hybrid.
Import ListNotations.

(* ---------------- a request that passed the checks cannot fail later *)
Lemma remove_idx_not_fail : forall s z keep,
  ((Z.of_nat (sN s) <=? z) || (z <? 0))%Z = false -> negb (sNvar s =? 0) = false -> keep && tree s = false ->
  snd (remove_idx s z keep) <> RFail.
Proof.
  intros s z keep H1 H2 H3. unfold remove_idx. rewrite H1, H2, H3.
  destruct ((sN s =? 1) && negb (tree s)); [cbn; discriminate|].
  destruct keep.
  - destruct (shift _ _ _ _). cbn. discriminate.
  - destruct (tree s); [cbn; discriminate|]. destruct (z <? sNact s)%Z; cbn; discriminate.
Qed.

(* failure (out-of-range index, variational particles, tree + keep_sorted -- forced for MERCURIUS/TRACE)
   leaves the particles AND every hybrid array exactly as they were *)
Theorem hremove_fail_untouched : forall s h z keep s' h',
  hremove s h z keep = (s', h', RFail) -> s' = s /\ h' = h.
Proof.
  intros s h z keep s' h' H. unfold hremove in H.
  destruct ((Z.of_nat (sN s) <=? z) || (z <? 0))%Z eqn:E1; [inversion H; auto|].
  destruct (negb (sNvar s =? 0)) eqn:E2; [inversion H; auto|].
  destruct ((keep || hybrid_kind h) && tree s) eqn:E3; [inversion H; auto|].
  pose proof (remove_idx_not_fail s z (keep || hybrid_kind h) E1 E2 E3) as NF.
  destruct (remove_idx s z (keep || hybrid_kind h)) as [s1 r1]. inversion H; subst. cbn in NF. contradiction.
Qed.

Theorem hremove_invalid_fails : forall s h z keep,
  ((z < 0 \/ Z.of_nat (sN s) <= z)%Z \/ sNvar s <> 0 \/ ((keep = true \/ kind h <> INone) /\ tree s = true)) ->
  hremove s h z keep = (s, h, RFail).
Proof.
  intros s h z keep H. unfold hremove.
  destruct ((Z.of_nat (sN s) <=? z) || (z <? 0))%Z eqn:E1; auto.
  destruct (negb (sNvar s =? 0)) eqn:E2; auto.
  destruct ((keep || hybrid_kind h) && tree s) eqn:E3; auto.
  exfalso. destruct H as [H|[H|[[H|H] HT]]]; try lia.
  rewrite HT in E3. unfold hybrid_kind in E3. destruct (kind h); try contradiction; destruct keep; cbn in E3; discriminate.
Qed.

(* ---------------- memory safety of the dcrit shift and of the encounter-map loop *)
Lemma dshift_safe : forall cnt i index d ob d' ob', i + cnt < length d ->
  dshift cnt i index d ob = (d', ob') -> ob' = ob /\ length d' = length d.
Proof.
  induction cnt; intros i index d ob d' ob' Hb H; cbn [dshift] in H.
  - inversion H; auto.
  - destruct (index <=? i).
    + apply IHcnt in H; [|rewrite upd_length; lia]. rewrite upd_length in H.
      rewrite !chk_in in H by lia. destruct H. split; lia.
    + apply IHcnt in H; auto. lia.
Qed.

Definition zd := 0%Z.

(* the encounter map as a valid injection: the first n entries are strictly increasing indices in [0,N) *)
Definition vmap (N : nat) (m : list Z) (n : nat) : Prop :=
  n <= length m /\ (forall a b, a < b < n -> (nth a m zd < nth b m zd)%Z) /\
  (forall a, a < n -> (0 <= nth a m zd < Z.of_nat N)%Z).

(* what the removal of particle [index] must do to the list of encounter members: drop it if present,
   renumber the members above it *)
Definition renum (index : Z) (l : list Z) : list Z :=
  map (renum1 index) (filter (fun v => negb (v =? index)%Z) l).
Definition member (index : Z) (l : list Z) : bool := existsb (fun v => (v =? index)%Z) l.

Lemma firstn_S_nth : forall (l : list Z) i, i < length l -> firstn (S i) l = firstn i l ++ [nth i l zd].
Proof. induction l; destruct i; cbn; intros; try lia; auto. f_equal. apply IHl. lia. Qed.
Lemma renum_app : forall index l1 l2, renum index (l1 ++ l2) = renum index l1 ++ renum index l2.
Proof. intros. unfold renum. now rewrite filter_app, map_app. Qed.

(* the loop, in list form: after the loop the first j' entries are exactly [renum] of the old live entries,
   encounter_index >= 0 iff the particle was a member, and no access left the map *)
Lemma emap_loop_spec : forall cnt i j index m0 m e ob m' e' ob',
  i + cnt <= length m0 -> j <= i -> length m = length m0 ->
  (forall k, i <= k -> nth k m zd = nth k m0 zd) ->
  firstn j m = renum index (firstn i m0) ->
  (0 <=? e)%Z = member index (firstn i m0) ->
  emap_loop cnt i j index m e ob = (m', e', ob') ->
  ob' = ob /\ length m' = length m0 /\
  firstn (length (renum index (firstn (i + cnt) m0))) m' = renum index (firstn (i + cnt) m0) /\
  (0 <=? e')%Z = member index (firstn (i + cnt) m0) /\
  (forall k, i + cnt <= k -> nth k m' zd = nth k m0 zd).
Proof.
  induction cnt; intros i j index m0 m e ob m' e' ob' Hl Hj Hlen Hun Hf He H; cbn [emap_loop] in H.
  - inversion H; subst. rewrite Nat.add_0_r. rewrite <- Hf. rewrite firstn_length.
    repeat split; auto. f_equal. lia.
  - change 0%Z with zd in H. rewrite (Hun i) in H by lia.
    assert (HS : firstn (S i) m0 = firstn i m0 ++ [nth i m0 zd]) by (apply firstn_S_nth; lia).
    rewrite chk_in in H by lia. rewrite Nat.add_0_r in H.
    replace (i + S cnt) with (S i + cnt) by lia.
    destruct (nth i m0 zd =? index)%Z eqn:E.
    + assert (A1 : forall k, S i <= k -> nth k m zd = nth k m0 zd) by (intros; apply Hun; lia).
      assert (A2 : firstn j m = renum index (firstn (S i) m0)).
      { rewrite HS, renum_app. unfold renum at 2. cbn. rewrite E. cbn. now rewrite app_nil_r. }
      assert (A3 : (0 <=? Z.of_nat i)%Z = member index (firstn (S i) m0)).
      { rewrite HS. unfold member. rewrite existsb_app. cbn. rewrite E. rewrite orb_true_r. lia. }
      apply (IHcnt (S i) j index m0 m _ _ _ _ _ ltac:(lia) ltac:(lia) Hlen A1 A2 A3) in H. exact H.
    + rewrite chk_in in H by lia. rewrite Nat.add_0_r in H.
      set (m1 := upd m j (renum1 index (nth i m0 zd))) in *.
      assert (L1 : length m1 = length m0) by (unfold m1; now rewrite upd_length).
      assert (A1 : forall k, S i <= k -> nth k m1 zd = nth k m0 zd).
      { intros k Hk. unfold m1. rewrite nth_upd_neq by lia. apply Hun. lia. }
      assert (A2 : firstn (S j) m1 = renum index (firstn (S i) m0)).
      { unfold m1. rewrite firstn_S_upd by lia. rewrite Hf, HS, renum_app. f_equal.
        unfold renum. cbn. rewrite E. reflexivity. }
      assert (A3 : (0 <=? e)%Z = member index (firstn (S i) m0)).
      { rewrite HS. unfold member in *. rewrite existsb_app. cbn. rewrite E. cbn. now rewrite orb_false_r. }
      apply (IHcnt (S i) (S j) index m0 m1 _ _ _ _ _ ltac:(lia) ltac:(lia) L1 A1 A2 A3) in H. exact H.
Qed.

(* strictly increasing lists of indices below N *)
Definition vlist (N : nat) (l : list Z) : Prop :=
  StronglySorted Z.lt l /\ Forall (fun v => (0 <= v < Z.of_nat N)%Z) l.

Lemma renum1_mono : forall index x y, x <> index -> y <> index -> (x < y)%Z -> (renum1 index x < renum1 index y)%Z.
Proof. intros. unfold renum1. destruct (index <? x)%Z eqn:E1; destruct (index <? y)%Z eqn:E2; lia. Qed.

Lemma renum_vlist : forall N index l, (0 <= index < Z.of_nat N)%Z -> vlist N l -> vlist (N - 1) (renum index l).
Proof.
  intros N index l Hi [HS HF]. induction HS as [|x l HS IH HX]; [split; constructor|].
  inversion HF as [|? ? Hx HF']; subst. destruct (IH HF') as [IS IF].
  unfold renum in *. cbn. destruct (x =? index)%Z eqn:E; cbn; [split; auto|].
  split.
  - constructor; auto. rewrite Forall_forall in *. intros y Hy.
    apply in_map_iff in Hy. destruct Hy as [v [<- Hv]]. apply filter_In in Hv. destruct Hv as [Hv1 Hv2].
    apply renum1_mono; try lia. apply HX; auto.
  - constructor; auto. unfold renum1. destruct (index <? x)%Z eqn:E2; lia.
Qed.

Lemma renum_length : forall index l, StronglySorted Z.lt l ->
  length (renum index l) = length l - (if member index l then 1 else 0).
Proof.
  intros index l HS. unfold renum, member. rewrite map_length.
  induction HS as [|x l HS IH HX]; cbn; auto.
  destruct (x =? index)%Z eqn:E; cbn.
  - assert (F : filter (fun v => negb (v =? index)%Z) l = l).
    { clear IH. induction l; cbn; auto. inversion HX; subst. inversion HS; subst.
      replace (a =? index)%Z with false by lia. cbn. f_equal. apply IHl; auto. }
    rewrite F. lia.
  - rewrite IH. destruct (existsb (fun v => (v =? index)%Z) l) eqn:EX; try lia.
    destruct l; [discriminate|cbn; lia].
Qed.

(* bridges between the nth form and the list form *)
Lemma vmap_vlist : forall N m n, vmap N m n -> vlist N (firstn n m).
Proof.
  intros N m n (V1 & V2 & V3).
  assert (G : forall l, (forall a b, a < b < length l -> (nth a l zd < nth b l zd)%Z) -> StronglySorted Z.lt l).
  { induction l; intros Hl; constructor.
    - apply IHl. intros a0 b Hab. apply (Hl (S a0) (S b)). cbn. lia.
    - apply Forall_forall. intros y Hy. apply (In_nth_lt _ _ _ zd) in Hy. destruct Hy as [k [Hk <-]].
      apply (Hl 0 (S k)). cbn. lia. }
  split.
  - apply G. intros a b Hab. rewrite firstn_length in Hab. rewrite !nth_firstn_lt by lia. apply V2. lia.
  - apply Forall_forall. intros y Hy. apply (In_nth_lt _ _ _ zd) in Hy. destruct Hy as [k [Hk <-]].
    rewrite firstn_length in Hk. rewrite nth_firstn_lt by lia. apply V3. lia.
Qed.
Lemma ssorted_nth : forall l, StronglySorted Z.lt l -> forall a b, a < b < length l -> (nth a l zd < nth b l zd)%Z.
Proof.
  induction 1; intros a0 b Hab; cbn in Hab; [lia|].
  destruct a0, b; try lia; cbn.
  - rewrite Forall_forall in H0. apply H0. apply nth_In. lia.
  - apply IHStronglySorted. lia.
Qed.
Lemma vlist_vmap : forall N m n, n <= length m -> vlist N (firstn n m) -> vmap N m n.
Proof.
  intros N m n Hn [HS HF]. split; auto. split.
  - intros a b Hab. rewrite <- (nth_firstn_lt _ m n a) by lia. rewrite <- (nth_firstn_lt _ m n b) by lia.
    apply ssorted_nth; auto. rewrite firstn_length. lia.
  - intros a Ha. rewrite <- (nth_firstn_lt _ m n a) by lia. rewrite Forall_forall in HF. apply HF.
    apply nth_In. rewrite firstn_length. lia.
Qed.

(* removal of particle [index] (a member of the encounter or not): the live part of the map becomes exactly
   [renum] of the old one; it is again a strictly increasing injection, now into [0,N-1); its length drops by
   one iff the particle was a member, and then (and only then) encounter_index >= 0; no access outside the map *)
Theorem emap_remove_valid : forall N m n index ob m' e' ob',
  vmap N m n -> (0 <= index < Z.of_nat N)%Z ->
  emap_loop n 0 0 index m (-1)%Z ob = (m', e', ob') ->
  let live := firstn n m in
  let n' := n - (if member index live then 1 else 0) in
  ob' = ob /\ length m' = length m /\ firstn n' m' = renum index live /\ vmap (N - 1) m' n' /\
  (0 <=? e')%Z = member index live.
Proof.
  intros N m n index ob m' e' ob' V Hi H. pose proof V as (V1 & _).
  apply (emap_loop_spec n 0 0 index m m) in H; auto; try lia.
  destruct H as (-> & HL & HF & HE & _). cbn [Nat.add] in *.
  pose proof (vmap_vlist _ _ _ V) as VL. pose proof (renum_length index _ (proj1 VL)) as RL.
  rewrite firstn_length in RL. replace (Nat.min n (length m)) with n in RL by lia.
  cbn zeta. rewrite RL in HF. split; [auto|]. split; [auto|]. split; [auto|]. split; [|auto].
  apply vlist_vmap; [lia|]. rewrite HF. apply renum_vlist; auto.
Qed.

(* adding: the new particle (index N) is appended to the map; the map stays a valid injection into [0,N+1) *)
Theorem emap_add_valid : forall N m m2 n, vmap N m n -> n < length m2 ->
  (forall a, a < n -> nth a m2 zd = nth a m zd) ->
  vmap (S N) (upd m2 n (Z.of_nat N)) (S n).
Proof.
  intros N m m2 n (V1 & V2 & V3) Hl Heq. unfold vmap. rewrite upd_length. split; [lia|]. split.
  - intros a b Hab. destruct (Nat.eq_dec b n) as [->|].
    + rewrite nth_upd_eq by lia. rewrite nth_upd_neq by lia. rewrite Heq by lia. pose proof (V3 a ltac:(lia)). lia.
    + rewrite !nth_upd_neq by lia. rewrite !Heq by lia. apply V2. lia.
  - intros a Ha. destruct (Nat.eq_dec a n) as [->|].
    + rewrite nth_upd_eq by lia. lia.
    + rewrite nth_upd_neq by lia. rewrite Heq by lia. pose proof (V3 a ltac:(lia)). lia.
Qed.

(* a valid map has at most N live entries, so the slot written by add is inside an allocation of N+1 *)
Lemma vmap_le : forall N m n, vmap N m n -> n <= N.
Proof.
  intros N m n (V1 & V2 & V3).
  assert (H : forall k, k < n -> (Z.of_nat k <= nth k m zd)%Z).
  { induction k; intros Hk; [apply V3; lia|]. specialize (IHk ltac:(lia)). pose proof (V2 k (S k) ltac:(lia)). lia. }
  destruct n; [lia|]. specialize (H n ltac:(lia)). pose proof (V3 n ltac:(lia)). lia.
Qed.

(* MERCURIUS removal never leaves dcrit or the encounter map (no hypothesis on N_allocated_dcrit) *)
Lemma emap_loop_safe : forall cnt i j index m e ob m' e' ob', j <= i -> i + cnt <= length m ->
  emap_loop cnt i j index m e ob = (m', e', ob') -> ob' = ob /\ length m' = length m.
Proof.
  induction cnt; intros i j index m e ob m' e' ob' Hj Hl H; cbn [emap_loop] in H.
  - inversion H; auto.
  - rewrite chk_in in H by lia. destruct (_ =? index)%Z.
    + apply IHcnt in H; lia.
    + rewrite chk_in in H by lia. apply IHcnt in H; [rewrite upd_length in H; lia|lia|rewrite upd_length; lia].
Qed.

Theorem merc_remove_safe : forall s h z keep s' h' r, kind h = IMerc -> eN h <= length (emap h) ->
  hremove s h z keep = (s', h', r) -> hoob h' = hoob h.
Proof.
  intros s h z keep s' h' r HK HE H. unfold hremove in H. rewrite HK in H.
  destruct ((Z.of_nat (sN s) <=? z) || (z <? 0))%Z; [inversion H; auto|].
  destruct (negb (sNvar s =? 0)); [inversion H; auto|].
  destruct ((keep || hybrid_kind h) && tree s); [inversion H; auto|].
  destruct (remove_idx s z (keep || hybrid_kind h)) as [s1 r1].
  set (nd := length (dcrit h)) in *.
  destruct ((0 <? nd) && (Z.to_nat z <? nd)) eqn:E.
  - destruct (dshift (Nat.min (sN s - 1) (nd - 1)) 0 (Z.to_nat z) (dcrit h) (hoob h)) as [d ob] eqn:ED.
    apply dshift_safe in ED; [|unfold nd in *; lia]. destruct ED as [-> _].
    destruct (hmode h =? 1).
    + destruct (emap_loop (eN h) 0 0 z (emap h) (-1)%Z (hoob h)) as [[m e] ob'] eqn:EM.
      apply emap_loop_safe in EM; try lia. destruct EM as [-> _]. inversion H; subst. reflexivity.
    + inversion H; subst. reflexivity.
  - destruct (hmode h =? 1).
    + destruct (emap_loop (eN h) 0 0 z (emap h) (-1)%Z (hoob h)) as [[m e] ob'] eqn:EM.
      apply emap_loop_safe in EM; try lia. destruct EM as [-> _]. inversion H; subst. reflexivity.
    + inversion H; subst. reflexivity.
Qed.

(* ---------------- TRACE current_Ks: the in-place reshuffle yields exactly the sub-matrix, for every N *)
Lemma lin_lt : forall n a b i j, a < i -> b < n -> a * n + b < i * n + j.
Proof. intros. nia. Qed.
Lemma lin_inj : forall n a b i j, b < n -> j < n -> a * n + b = i * n + j -> a = i /\ b = j.
Proof.
  intros n a b i j Hb Hj H. destruct (Nat.lt_trichotomy a i) as [L|[E|L]].
  - pose proof (lin_lt n a b i j L Hb). lia.
  - subst. split; auto. lia.
  - pose proof (lin_lt n i j a b L Hj). lia.
Qed.
Lemma src_ge : forall n index i j, i * n + j <= ks_src (S n) index i j.
Proof. intros. unfold ks_src. destruct (i <? index); destruct (j <? index); nia. Qed.
Lemma src_lt : forall n index i j, i < n -> j < n -> ks_src (S n) index i j < S n * S n.
Proof. intros. unfold ks_src. destruct (i <? index); destruct (j <? index); nia. Qed.
Lemma dst_lt : forall n i j, i < n -> j < n -> i * n + j < S n * S n.
Proof. intros. nia. Qed.

(* loop invariant: entries before position (i,j) hold their final value, entries from it on are untouched *)
Definition ks_inv (n index : nat) (k0 k : list Z) (i j : nat) : Prop :=
  length k = length k0 /\
  (forall a b, b < n -> (a < i \/ (a = i /\ b < j)) -> nth (a * n + b) k 0%Z = nth (ks_src (S n) index a b) k0 0%Z) /\
  (forall q, i * n + j <= q -> nth q k 0%Z = nth q k0 0%Z).

Lemma ks_row_inv : forall cnt j i n index k0 k ob k' ob', j + cnt = n -> i < n -> S n * S n <= length k0 ->
  ks_inv n index k0 k i j -> ks_row cnt j i n (S n) index k ob = (k', ob') ->
  ks_inv n index k0 k' (S i) 0 /\ ob' = ob.
Proof.
  induction cnt; intros j i n index k0 k ob k' ob' Hj Hi Hl (I1 & I2 & I3) H; cbn [ks_row] in H.
  - inversion H; subst. split; auto. unfold ks_inv. split; auto. split.
    + intros a b Hb [Ha|[_ Hb0]]; [|lia]. apply I2; auto. lia.
    + intros q Hq. apply I3. lia.
  - pose proof (src_ge n index i j). pose proof (src_lt n index i j Hi ltac:(lia)). pose proof (dst_lt n i j Hi ltac:(lia)).
    rewrite !chk_in in H by lia. rewrite !Nat.add_0_r in H.
    apply IHcnt with (k0 := k0) in H; auto; try lia.
    unfold ks_inv. rewrite upd_length. split; auto. split.
    + intros a b Hb Hab. destruct (Nat.eq_dec (a * n + b) (i * n + j)) as [E|NE].
      * apply lin_inj in E; try lia. destruct E; subst. rewrite nth_upd_eq by lia. apply I3. lia.
      * rewrite nth_upd_neq by lia. apply I2; auto. destruct Hab as [Ha|[Ha Hb2]]; [left; auto|].
        subst a. right. split; auto. destruct (Nat.eq_dec b j); [subst; lia|lia].
    + intros q Hq. rewrite nth_upd_neq by lia. apply I3. lia.
Qed.

Lemma ks_rows_inv : forall cnt i n index k0 k ob k' ob', i + cnt = n -> S n * S n <= length k0 ->
  ks_inv n index k0 k i 0 -> ks_rows cnt i n (S n) index k ob = (k', ob') ->
  ks_inv n index k0 k' n 0 /\ ob' = ob.
Proof.
  induction cnt; intros i n index k0 k ob k' ob' Hi Hl HI H; cbn [ks_rows] in H.
  - inversion H; subst k' ob'. assert (i = n) by lia. subst i. auto.
  - destruct (ks_row n 0 i n (S n) index k ob) as [k1 ob1] eqn:ER.
    apply ks_row_inv with (k0 := k0) in ER; auto; try lia. destruct ER as [HI1 ->].
    apply IHcnt with (k0 := k0) in H; auto. lia.
Qed.

(* removal of ANY index (the last one included) from an N x N matrix, N = n+1: entry (a,b) of the new
   n x n matrix (stride n) is entry (a', b') of the old one (stride N), a' = a or a+1 skipping [index];
   every access stays inside the N*N allocation *)
Theorem ks_remove_exact : forall n index k ob k' ob', S n * S n <= length k ->
  ks_rows n 0 n (S n) index k ob = (k', ob') ->
  ob' = ob /\ length k' = length k /\
  forall a b, a < n -> b < n ->
    nth (a * n + b) k' 0%Z = nth ((if a <? index then a else S a) * S n + (if b <? index then b else S b)) k 0%Z.
Proof.
  intros n index k ob k' ob' Hl H.
  apply ks_rows_inv with (k0 := k) in H; auto.
  - destruct H as [(I1 & I2 & _) ->]. split; auto. split; auto. intros a b Ha Hb. apply I2; auto.
  - unfold ks_inv. split; auto. split; [intros a b Hb [Ha|[_ Hb0]]; lia|auto].
Qed.

(* ---------------- TRACE current_Ks on reb_simulation_add: in-place expansion of the stride from n to n+1 *)
(* state before row [r-1] is processed (rows are processed from n-1 down to 0, columns from n-1 down to 0):
   rows >= r are in their new place, everything below linear position r*n is still the old matrix, and
   positions that are not the new place of an old entry are never written *)
Definition kg_inv (n : nat) (k0 k : list Z) (i j : nat) : Prop :=
  length k = length k0 /\
  (forall a b, a < n -> b < n -> (i < a \/ (a = i /\ j <= b)) -> nth (a * S n + b) k 0%Z = nth (a * n + b) k0 0%Z) /\
  (forall q, q < i * n + j -> nth q k 0%Z = nth q k0 0%Z) /\
  (forall q, (forall a b, a < n -> b < n -> q <> a * S n + b) -> nth q k 0%Z = nth q k0 0%Z).

Lemma kg_row : forall cnt i n k0 k ob k' ob', cnt <= n -> i < n -> S n * S n <= length k0 ->
  kg_inv n k0 k i cnt -> ks_grow_row cnt i n k ob = (k', ob') -> kg_inv n k0 k' i 0 /\ ob' = ob.
Proof.
  induction cnt; intros i n k0 k ob k' ob' Hc Hi Hl (I1 & I2 & I3 & I4) H; cbn [ks_grow_row] in H.
  - inversion H; subst. split; auto. unfold kg_inv. auto.
  - assert (Hs : i * n + cnt < S n * S n) by nia. assert (Hd : i * n + cnt + i < S n * S n) by nia.
    rewrite !chk_in in H by lia. rewrite !Nat.add_0_r in H.
    apply IHcnt with (k0 := k0) in H; auto; try lia.
    unfold kg_inv. rewrite upd_length. split; auto. split; [|split].
    + intros a b Ha Hb Hab. destruct (Nat.eq_dec (a * S n + b) (i * n + cnt + i)) as [E|NE].
      * assert (E2 : a * S n + b = i * S n + cnt) by lia. apply lin_inj in E2; try lia. destruct E2; subst.
        rewrite E. rewrite nth_upd_eq by lia. apply I3. lia.
      * rewrite nth_upd_neq by lia. apply I2; auto. destruct Hab as [Hab|[Hab Hb2]]; [left; auto|].
        subst a. right. split; auto. destruct (Nat.eq_dec b cnt); [subst; exfalso; apply NE; lia|lia].
    + intros q Hq. rewrite nth_upd_neq by lia. apply I3. lia.
    + intros q Hq. rewrite nth_upd_neq. { apply I4; auto. }
      intro E. apply (Hq i cnt); try lia.
Qed.

Lemma kg_rows : forall cnt n k0 k ob k' ob', cnt <= n -> S n * S n <= length k0 ->
  kg_inv n k0 k cnt 0 -> ks_grow cnt n k ob = (k', ob') -> kg_inv n k0 k' 0 0 /\ ob' = ob.
Proof.
  induction cnt; intros n k0 k ob k' ob' Hc Hl HI H; cbn [ks_grow] in H.
  - inversion H; subst. auto.
  - destruct (ks_grow_row n cnt n k ob) as [k1 ob1] eqn:ER.
    apply kg_row with (k0 := k0) in ER; auto; try lia.
    + destruct ER as [HI1 ->]. apply IHcnt with (k0 := k0) in H; auto; try lia.
    + destruct HI as (I1 & I2 & I3 & I4). unfold kg_inv. split; auto. split; [|split]; auto.
      * intros a b Ha Hb [Hab|[Hab Hb2]]; [|lia]. apply I2; auto. lia.
      * intros q Hq. apply I3. lia.
Qed.

(* the expansion: every old entry (a,b) is found at (a,b) of the wider matrix, nothing else is written,
   every access stays inside a block of (n+1)^2 entries, and -- because rows and columns are walked
   downwards -- no entry is overwritten before it has been read (otherwise the first clause would fail) *)
Theorem ks_grow_exact : forall n k ob k' ob', S n * S n <= length k -> ks_grow n n k ob = (k', ob') ->
  ob' = ob /\ length k' = length k /\
  (forall a b, a < n -> b < n -> nth (a * S n + b) k' 0%Z = nth (a * n + b) k 0%Z) /\
  (forall q, (forall a b, a < n -> b < n -> q <> a * S n + b) -> nth q k' 0%Z = nth q k 0%Z).
Proof.
  intros n k ob k' ob' Hl H. apply kg_rows with (k0 := k) in H; auto.
  - destruct H as [(I1 & I2 & _ & I4) ->]. repeat split; auto. intros a b Ha Hb. apply I2; auto. lia.
  - unfold kg_inv. repeat split; auto. intros a b Ha Hb [Hab|[Hab Hb2]]; lia.
Qed.

Lemma classic_in : forall i cnt n (m : list Z) q,
  (exists t, S i <= t < S i + cnt /\ q = Z.to_nat (nth t m 0%Z) * S n + n) \/
  (forall t, S i <= t < S i + cnt -> q <> Z.to_nat (nth t m 0%Z) * S n + n).
Proof.
  intros i cnt n m q. induction cnt.
  - right. intros; lia.
  - destruct IHcnt as [[t [Ht E]]|NE].
    + left. exists t. split; auto. lia.
    + destruct (Nat.eq_dec q (Z.to_nat (nth (S i + cnt) m 0%Z) * S n + n)) as [E|NE2].
      * left. exists (S i + cnt). split; auto. lia.
      * right. intros t Ht. destruct (Nat.eq_dec t (S i + cnt)) as [->|]; auto. apply NE. lia.
Qed.

(* marking the new column: Ks[map[i]*N + n] = 1 for i = 1 .. encounter_N-1 *)
Lemma ks_mark_spec : forall cnt i n m k ob k' ob', i + cnt <= length m ->
  (forall t, i <= t < i + cnt -> (0 <= nth t m 0 < Z.of_nat n)%Z) -> S n * S n <= length k ->
  ks_mark cnt i (S n) n m k ob = (k', ob') ->
  ob' = ob /\ length k' = length k /\
  (forall t, i <= t < i + cnt -> nth (Z.to_nat (nth t m 0%Z) * S n + n) k' 0%Z = 1%Z) /\
  (forall q, (forall t, i <= t < i + cnt -> q <> Z.to_nat (nth t m 0%Z) * S n + n) -> nth q k' 0%Z = nth q k 0%Z).
Proof.
  induction cnt; intros i n m k ob k' ob' Hm Hv Hl H; cbn [ks_mark] in H.
  - inversion H; subst. repeat split; auto. intros; lia.
  - pose proof (Hv i ltac:(lia)) as Hvi.
    assert (Hd : Z.to_nat (nth i m 0%Z) * S n + n < S n * S n) by nia.
    rewrite !chk_in in H by lia. rewrite !Nat.add_0_r in H.
    apply IHcnt in H; try (rewrite upd_length); try lia.
    2:{ intros t Ht. apply Hv. lia. }
    destruct H as (-> & H2 & H3 & H4). rewrite upd_length in H2. repeat split; auto.
    + intros t Ht. destruct (Nat.eq_dec t i) as [->|].
      * destruct (classic_in i cnt n m (Z.to_nat (nth i m 0%Z) * S n + n)) as [[t' [Ht' E]]|NE].
        -- rewrite E. apply H3. lia.
        -- rewrite H4 by (intros t' Ht'; apply NE; lia). apply nth_upd_eq. lia.
      * apply H3. lia.
    + intros q Hq. rewrite H4 by (intros t Ht; apply Hq; lia). apply nth_upd_neq. apply Hq. lia.
Qed.

(* ---------------- the hybrid arrays follow N through every add / remove (encounter step) *)
(* ri_*.N_allocated = length (emap h) is the size of encounter_map AND of particles_backup,
   particles_backup_kepler (they are (re)allocated together); current_Ks has N_allocated^2 entries *)
Definition active (h : hyb) : bool :=
  match kind h with
  | INone => false
  | IMerc => hmode h =? 1
  | ITrace => hmode h =? 1      (* Kepler step; in REB_TRACE_MODE_FULL the map is not an index list: see trace_full_* *)
  end.
Definition hyb_ok (s : state) (h : hyb) : Prop :=
  vmap (sN s) (emap h) (eN h) /\ sN s <= length (emap h) /\
  (kind h = ITrace -> length (emap h) * length (emap h) <= length (ks h)).

(* zero fill of the new column and row *)
Lemma ks_zero_spec : forall cnt i n k ob k' ob', i + cnt = S n -> S n * S n <= length k ->
  ks_zero cnt i (S n) n k ob = (k', ob') ->
  ob' = ob /\ length k' = length k /\
  (forall a b, a < n -> b < n -> nth (a * S n + b) k' 0%Z = nth (a * S n + b) k 0%Z) /\
  (forall q, nth q k' 0%Z = nth q k 0%Z \/ nth q k' 0%Z = 0%Z) /\
  (forall t, i <= t < i + cnt -> nth (t * S n + n) k' 0%Z = 0%Z /\ nth (n * S n + t) k' 0%Z = 0%Z).
Proof.
  induction cnt; intros i n k ob k' ob' Hi Hl H; cbn [ks_zero] in H.
  - inversion H; subst. split; [auto|]. split; [auto|]. split; [auto|]. split; [auto|]. intros; lia.
  - assert (D1 : i * S n + n < S n * S n) by nia. assert (D2 : n * S n + i < S n * S n) by nia.
    rewrite upd_length in H. rewrite !chk_in in H by lia. rewrite !Nat.add_0_r in H.
    apply IHcnt in H; try (rewrite !upd_length); try lia.
    destruct H as (-> & H2 & H3 & H4 & H5). rewrite !upd_length in H2. split; [auto|]. split; [auto|]. split; [|split].
    + intros a b Ha Hb. rewrite H3 by auto.
      rewrite !nth_upd_neq; auto.
      * intro E. apply lin_inj in E; lia.
      * intro E. apply lin_inj in E; lia.
    + intros q. destruct (H4 q) as [E|E]; [|auto]. rewrite E.
      destruct (Nat.eq_dec q (n * S n + i)) as [->|]; [right; apply nth_upd_eq; rewrite upd_length; lia|].
      rewrite nth_upd_neq by auto.
      destruct (Nat.eq_dec q (i * S n + n)) as [->|]; [right; apply nth_upd_eq; lia|].
      left. now rewrite nth_upd_neq by auto.
    + intros t Ht. destruct (Nat.eq_dec t i) as [->|]; [|apply H5; lia].
      assert (Z1 : nth (i * S n + n) (upd (upd k (i * S n + n) 0%Z) (n * S n + i) 0%Z) 0%Z = 0%Z).
      { destruct (Nat.eq_dec (i * S n + n) (n * S n + i)) as [E|NE].
        - rewrite E. apply nth_upd_eq. rewrite upd_length. lia.
        - rewrite nth_upd_neq by auto. apply nth_upd_eq. lia. }
      assert (Z2 : nth (n * S n + i) (upd (upd k (i * S n + n) 0%Z) (n * S n + i) 0%Z) 0%Z = 0%Z)
        by (apply nth_upd_eq; rewrite upd_length; lia).
      split; [destruct (H4 (i * S n + n)) as [E|E]|destruct (H4 (n * S n + i)) as [E|E]]; congruence.
Qed.

Lemma extend_length : forall l n, length l < n -> length (extend l n) = n.
Proof. intros. unfold extend. rewrite app_length, repeat_length. lia. Qed.
Lemma extend_nth : forall l n a, a < length l -> nth a (extend l n) zd = nth a l zd.
Proof. intros. unfold extend. now rewrite app_nth1. Qed.

Lemma ks_mark_safe : forall cnt i n m k ob k' ob', i + cnt <= length m ->
  (forall t, i <= t < i + cnt -> (0 <= nth t m 0 < Z.of_nat n)%Z) -> S n * S n <= length k ->
  ks_mark cnt i (S n) n m k ob = (k', ob') -> ob' = ob /\ length k' = length k.
Proof. intros. eapply ks_mark_spec in H2; eauto. destruct H2 as (? & ? & _). auto. Qed.

(* adding a particle during the encounter step: all arrays cover the new N, the map stays a valid injection
   (the new index appended), no access outside dcrit / encounter_map / current_Ks *)
Theorem hadd_ok : forall s h p d s' h', active h = true -> hyb_ok s h -> add_refused s p = false -> hadd s h p d = (s', h') ->
  hyb_ok s' h' /\ hoob h' = hoob h /\ sN s' = S (sN s) /\ eN h' = S (eN h).
Proof.
  intros s h p d s' h' Ha (V & HN & HK) HR H. unfold hadd in H. rewrite HR in H.
  assert (Hn : sN (add s p) = S (sN s)) by reflexivity.
  remember (add s p) as s1 eqn:Es1. clear Es1. cbv zeta in H. injection H as Hs Hh. subst s'.
  assert (E1 : S (sN s) - 1 = sN s) by lia.
  pose proof (vmap_le _ _ _ V) as HeN. unfold active in Ha.
  destruct (kind h) eqn:EK; [discriminate| |].
  - destruct (hmode h =? 0) eqn:EM; [lia|]. rewrite Hn in *. rewrite !E1 in Hh. subst h'. cbn [hoob emap eN ks kind].
    set (m := if length (emap h) <? S (sN s) then extend (emap h) (S (sN s)) else emap h).
    set (dd := if length (dcrit h) <? S (sN s) then extend (dcrit h) (S (sN s)) else dcrit h).
    assert (Lm : S (sN s) <= length m /\ forall a, a < eN h -> nth a m zd = nth a (emap h) zd).
    { unfold m. destruct (Nat.ltb_spec (length (emap h)) (S (sN s))).
      - rewrite extend_length by lia. split; auto. intros. apply extend_nth. destruct V. lia.
      - split; auto. }
    assert (Ld : S (sN s) <= length dd).
    { unfold dd. destruct (Nat.ltb_spec (length (dcrit h)) (S (sN s))); [rewrite extend_length; lia|lia]. }
    destruct Lm as [Lm1 Lm2].
    rewrite !chk_in by lia. split; [|repeat split; auto; lia].
    unfold hyb_ok. cbn [emap eN ks kind]. rewrite upd_length, Hn. split; [|split; [lia|intros; congruence]].
    apply emap_add_valid with (m := emap h); auto. lia.
  - destruct ((hmode h =? 1) || (hmode h =? 3)) eqn:EM; [|lia]. rewrite Hn in *. rewrite !E1 in Hh. rewrite Ha in Hh.
    set (grow := length (emap h) <? S (sN s)) in *.
    set (k0 := if grow then extend (ks h) (S (sN s) * S (sN s)) else ks h) in *.
    set (m := if grow then extend (emap h) (S (sN s)) else emap h) in *.
    specialize (HK eq_refl).
    assert (Lm : S (sN s) <= length m /\ (forall a, a < length (emap h) -> nth a m zd = nth a (emap h) zd) /\ length (emap h) <= length m).
    { unfold m, grow. destruct (Nat.ltb_spec (length (emap h)) (S (sN s))).
      - rewrite extend_length by lia. repeat split; auto; try lia. intros. now apply extend_nth.
      - repeat split; auto. }
    assert (Lk : S (sN s) * S (sN s) <= length k0 /\ length m * length m <= length k0).
    { unfold k0, m, grow. destruct (Nat.ltb_spec (length (emap h)) (S (sN s))).
      - rewrite (extend_length (emap h)) by lia.
        destruct (Nat.lt_ge_cases (length (ks h)) (S (sN s) * S (sN s))).
        + rewrite extend_length by lia. lia.
        + unfold extend. rewrite app_length. lia.
      - split; [nia|auto]. }
    destruct Lm as (Lm1 & Lm2 & Lm3). destruct Lk as [Lk1 Lk2]. destruct V as (V1 & V2 & V3).
    destruct (ks_grow (sN s) (sN s) k0 (hoob h)) as [k1 ob1] eqn:EG.
    apply ks_grow_exact in EG; auto. destruct EG as (-> & LG & _).
    destruct (ks_zero (S (sN s)) 0 (S (sN s)) (sN s) k1 (hoob h)) as [kz obz] eqn:EZ.
    apply ks_zero_spec in EZ; try lia. destruct EZ as (-> & LZ & _).
    destruct (ks_mark (eN h - 1) 1 (S (sN s)) (sN s) m kz (hoob h)) as [k2 ob2] eqn:EMk.
    apply ks_mark_safe in EMk; try lia.
    2:{ intros t Ht. change 0%Z with zd. rewrite Lm2 by lia. apply V3. lia. }
    destruct EMk as [-> LM]. subst h'. cbn [hoob emap eN ks kind]. rewrite chk_in by lia.
    split; [|repeat split; auto; lia].
    unfold hyb_ok. cbn [emap eN ks kind]. rewrite upd_length, Hn. split; [|split; [lia|intros; lia]].
    apply emap_add_valid with (m := emap h); auto; try lia. { unfold vmap; auto. } intros. apply Lm2. lia.
Qed.

Lemma remove_idx_keep_N : forall s z,
  ((Z.of_nat (sN s) <=? z) || (z <? 0))%Z = false -> negb (sNvar s =? 0) = false -> tree s = false ->
  sN (fst (remove_idx s z true)) = sN s - 1.
Proof.
  intros s z H1 H2 H3. unfold remove_idx. rewrite H1, H2, H3. cbn [andb negb].
  destruct (sN s =? 1) eqn:E; cbn [andb].
  - cbn. lia.
  - destruct (shift _ _ _ _). reflexivity.
Qed.

(* removing a particle during the encounter step, whether it is a member of the encounter or not: the arrays
   still cover N-1, the live part of the map becomes [renum] of the old one (member dropped, members above
   the index shifted by one) and is again a valid injection into [0,N-1); encounter_N drops by one iff the
   particle was a member; no access outside the arrays *)
Theorem hremove_ok : forall s h z keep s' h' r, active h = true -> hyb_ok s h ->
  hremove s h z keep = (s', h', r) -> r <> RFail ->
  let live := firstn (eN h) (emap h) in
  hyb_ok s' h' /\ hoob h' = hoob h /\ sN s' = sN s - 1 /\
  eN h' = eN h - (if member z live then 1 else 0) /\ firstn (eN h') (emap h') = renum z live.
Proof.
  intros s h z keep s' h' r Ha (V & HN & HK) H Hr. cbn zeta. unfold hremove in H.
  destruct ((Z.of_nat (sN s) <=? z) || (z <? 0))%Z eqn:E1; [inversion H; subst; contradiction|].
  destruct (negb (sNvar s =? 0)) eqn:E2; [inversion H; subst; contradiction|].
  assert (HH : hybrid_kind h = true) by (unfold active, hybrid_kind in *; destruct (kind h); auto; discriminate).
  rewrite HH, orb_true_r in H. cbn [andb] in H.
  destruct (tree s) eqn:E3; [inversion H; subst; contradiction|].
  pose proof (remove_idx_keep_N s z E1 E2 E3) as HNs.
  destruct (remove_idx s z true) as [s1 r1]. cbn [fst] in HNs.
  pose proof V as (V1 & _).
  destruct (emap_loop (eN h) 0 0 z (emap h) (-1)%Z (hoob h)) as [[m e] ob'] eqn:EL.
  pose proof EL as EL0.
  apply (emap_remove_valid (sN s)) in EL; auto; try lia. cbn zeta in EL.
  destruct EL as (-> & LM & HF & VM & HE).
  unfold active in Ha. destruct (kind h) eqn:EK; [discriminate| |].
  - set (nd := length (dcrit h)) in *.
    assert (exists d, (if (0 <? nd) && (Z.to_nat z <? nd)
             then dshift (Nat.min (sN s - 1) (nd - 1)) 0 (Z.to_nat z) (dcrit h) (hoob h) else (dcrit h, hoob h)) = (d, hoob h)) as [d ED].
    { destruct ((0 <? nd) && (Z.to_nat z <? nd)) eqn:E; [|eauto].
      destruct (dshift _ _ _ _ _) as [d ob] eqn:EDS. apply dshift_safe in EDS; [|unfold nd in *; lia].
      destruct EDS as [-> _]. eauto. }
    rewrite ED in H. rewrite Ha in H. rewrite EL0 in H. inversion H; subst; clear H. cbn [hoob emap eN ks kind].
    rewrite HE. destruct (member z (firstn (eN h) (emap h))) eqn:EM; rewrite ?Nat.sub_0_r in *;
      (split; [|repeat split; auto; lia]);
      unfold hyb_ok; cbn [emap eN ks kind]; rewrite HNs; (split; [exact VM|split; [lia|intros; congruence]]).
  - destruct ((hmode h =? 1) || (hmode h =? 3)) eqn:EM3; [|lia].
    specialize (HK eq_refl). cbv zeta in H. rewrite Ha in H. cbn [andb] in H.
    destruct (ks_rows (sN s - 1) 0 (sN s - 1) (sN s) (Z.to_nat z) (ks h) (hoob h)) as [k ob''] eqn:EKS.
    assert (HS : sN s = S (sN s - 1)) by lia. rewrite HS in EKS at 3.
    apply ks_remove_exact in EKS; [|rewrite <- HS; nia]. destruct EKS as (-> & LK & _).
    inversion H; subst; clear H. cbn [hoob emap eN ks kind].
    rewrite HE. destruct (member z (firstn (eN h) (emap h))) eqn:EM; rewrite ?Nat.sub_0_r in *;
      (split; [|repeat split; auto; lia]);
      unfold hyb_ok; cbn [emap eN ks kind]; rewrite HNs; (split; [exact VM|split; [lia|intros; lia]]).
Qed.

(* REB_TRACE_MODE_FULL (pericentre step): the encounter map is the flag array of the pre-timestep check; a
   removal or an addition leaves it, encounter_N and encounter_N_active alone (no unsigned wrap-around) *)
Theorem trace_full_remove_map_untouched : forall s h z keep s' h' r, kind h = ITrace -> hmode h = 3 ->
  hremove s h z keep = (s', h', r) -> emap h' = emap h /\ eN h' = eN h /\ eNact h' = eNact h.
Proof.
  intros s h z keep s' h' r HK HM H. unfold hremove in H. rewrite HK, HM in H. cbn [Nat.eqb orb andb] in H.
  destruct ((Z.of_nat (sN s) <=? z) || (z <? 0))%Z; [inversion H; auto|].
  destruct (negb (sNvar s =? 0)); [inversion H; auto|].
  destruct ((keep || hybrid_kind h) && tree s); [inversion H; auto|].
  destruct (remove_idx s z (keep || hybrid_kind h)) as [s1 r1]. cbv zeta in H.
  destruct (ks_rows _ _ _ _ _ _ _) as [k ob]. inversion H; subst. cbn. auto.
Qed.
Theorem trace_full_add_map_untouched : forall s h p d s' h', kind h = ITrace -> hmode h = 3 ->
  hadd s h p d = (s', h') ->
  eN h' = eN h /\ eNact h' = eNact h /\ firstn (length (emap h)) (emap h') = emap h.
Proof.
  intros s h p d s' h' HK HM H. unfold hadd in H.
  destruct (add_refused s p); [inversion H; subst; repeat split; auto; apply firstn_all|].
  rewrite HK, HM in H. cbn [Nat.eqb orb] in H. cbv zeta in H.
  destruct (ks_grow _ _ _ _) as [k1 ob1]. destruct (ks_zero _ _ _ _ _ _) as [kz obz].
  inversion H; subst. cbn [eN eNact emap]. split; auto. split; auto.
  destruct (length (emap h) <? S (sN s)).
  - unfold extend. rewrite firstn_app, Nat.sub_diag, firstn_all. cbn. now rewrite app_nil_r.
  - apply firstn_all.
Qed.

(* ---------------- tree re-insertion of a particle that left its cell (any integrator mode): the hybrid arrays are
   untouched, N is unchanged, so the invariant of the encounter step is preserved; the particle array keeps
   the same particles (the re-inserted one moves to the end, the last one into its slot), no access outside
   the particle storage *)
Theorem tree_reinsert_ok : forall s h i s' h', wf s -> i < sN s ->
  add_refused (reinsert_mid s i) (nth i (mem s) pzero) = false ->      (* it does not coincide with another particle *)
  tree_reinsert s h i = (s', h') ->
  h' = h /\ sN s' = sN s /\ wf s' /\ oob s' = oob s /\
  aps (abs s') = remove_swap i (aps (abs s)) ++ [nth i (aps (abs s)) pzero] /\
  (hyb_ok s h -> hyb_ok s' h').
Proof.
  intros s h i s' h' [Hm Ht] Hi HR H. unfold tree_reinsert, add_op in H. rewrite HR in H. cbn [fst] in H.
  injection H as Hs Hh. subst h'. unfold reinsert_mid in *.
  set (s1 := mkS (tcfg s) (upd (mem s) i (nth (sN s - 1) (mem s) pzero)) (sN s - 1) (sNact s) (sNvar s) (tab s) (nlook s) (tree s)
                 (oob s + chk (length (mem s)) i + chk (length (mem s)) (sN s - 1) + chk (length (mem s)) i)) in *.
  assert (W1 : wf s1) by (split; cbn; [rewrite upd_length; lia|auto]).
  destruct (add_spec s1 (nth i (mem s) pzero) W1) as (WA & OA & AA). rewrite Hs in *.
  assert (HN : sN s' = sN s) by (subst s'; cbn; lia).
  split; auto. split; auto. split; auto. split.
  - rewrite OA. cbn. rewrite !chk_in by lia. lia.
  - split.
    + rewrite AA. cbn [aps abs]. f_equal.
      * unfold s1. cbn [mem sN]. apply swap_abs; lia.
      * f_equal. cbn. now rewrite nth_firstn_lt by lia.
    + intros (V & HL & HK). unfold hyb_ok. rewrite HN. auto.
Qed.
