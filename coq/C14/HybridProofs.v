(* C14: theorems about the MERCURIUS / TRACE bookkeeping model (Hybrid.v). *)
From Coq Require Import List ZArith NArith Bool Arith Lia ZifyBool.
From RV Require Import C14.Model C14.Lists C14.ProofsA C14.Hybrid.
Import ListNotations.

(* ---------------- a request that passed the checks cannot fail later *)
Lemma remove_idx_not_fail : forall s z keep,
  ((Z.of_nat (sN s) <=? z) || (z <? 0))%Z = false -> negb (sNvar s =? 0) = false -> keep && tree s = false ->
  snd (remove_idx s z keep) <> RFail.
Proof.
  intros s z keep H1 H2 H3. unfold remove_idx. rewrite H1, H2, H3.
  destruct ((sN s =? 1) && negb (tree s)); [cbn; discriminate|].
  destruct keep.
  - destruct (shift _ _ _ _). cbn. discriminate.
  - destruct (tree s); [cbn; discriminate|]. destruct (z <? sNact s)%Z; cbn; discriminate.
Qed.

(* failure (out-of-range index, variational particles, tree + keep_sorted -- forced for MERCURIUS/TRACE)
   leaves the particles AND every hybrid array exactly as they were *)
Theorem hremove_fail_untouched : forall s h z keep s' h',
  hremove s h z keep = (s', h', RFail) -> s' = s /\ h' = h.
Proof.
  intros s h z keep s' h' H. unfold hremove in H.
  destruct ((Z.of_nat (sN s) <=? z) || (z <? 0))%Z eqn:E1; [inversion H; auto|].
  destruct (negb (sNvar s =? 0)) eqn:E2; [inversion H; auto|].
  destruct ((keep || hybrid_kind h) && tree s) eqn:E3; [inversion H; auto|].
  pose proof (remove_idx_not_fail s z (keep || hybrid_kind h) E1 E2 E3) as NF.
  destruct (remove_idx s z (keep || hybrid_kind h)) as [s1 r1]. inversion H; subst. cbn in NF. contradiction.
Qed.

Theorem hremove_invalid_fails : forall s h z keep,
  ((z < 0 \/ Z.of_nat (sN s) <= z)%Z \/ sNvar s <> 0 \/ ((keep = true \/ kind h <> INone) /\ tree s = true)) ->
  hremove s h z keep = (s, h, RFail).
Proof.
  intros s h z keep H. unfold hremove.
  destruct ((Z.of_nat (sN s) <=? z) || (z <? 0))%Z eqn:E1; auto.
  destruct (negb (sNvar s =? 0)) eqn:E2; auto.
  destruct ((keep || hybrid_kind h) && tree s) eqn:E3; auto.
  exfalso. destruct H as [H|[H|[[H|H] HT]]]; try lia.
  rewrite HT in E3. unfold hybrid_kind in E3. destruct (kind h); try contradiction; destruct keep; cbn in E3; discriminate.
Qed.

(* ---------------- memory safety of the dcrit shift and of the encounter-map loop *)
Lemma dshift_safe : forall cnt i index d ob d' ob', i + cnt < length d ->
  dshift cnt i index d ob = (d', ob') -> ob' = ob /\ length d' = length d.
Proof.
  induction cnt; intros i index d ob d' ob' Hb H; cbn [dshift] in H.
  - inversion H; auto.
  - destruct (index <=? i).
    + apply IHcnt in H; [|rewrite upd_length; lia]. rewrite upd_length in H.
      rewrite !chk_in in H by lia. destruct H. split; lia.
    + apply IHcnt in H; auto. lia.
Qed.

Definition zd := 0%Z.

Lemma emap_after : forall cnt i m e ob index m' e' ob', 1 <= i -> i + cnt <= length m ->
  (forall k, i <= k < i + cnt -> nth k m zd <> index) ->
  emap_loop cnt i index m true e ob = (m', e', ob') ->
  e' = e /\ ob' = ob /\ length m' = length m /\
  forall k, nth k m' zd = if (i - 1 <=? k) && (k <? i - 1 + cnt) then (nth (S k) m zd - 1)%Z else nth k m zd.
Proof.
  induction cnt; intros i m e ob index m' e' ob' Hi Hl Hne H; cbn [emap_loop] in H.
  - inversion H; subst. repeat split; auto. intros k. destruct ((i - 1 <=? k) && (k <? i - 1 + 0)) eqn:E; auto; lia.
  - change 0%Z with zd in H. rewrite upd_length in H. rewrite !chk_in in H by lia.
    rewrite (nth_upd_neq _ m (i - 1) i) in H by lia.
    destruct (nth i m zd =? index)%Z eqn:E; [exfalso; apply (Hne i); lia|].
    apply IHcnt in H; try (rewrite upd_length); try lia.
    2:{ intros k Hk. rewrite nth_upd_neq by lia. apply Hne. lia. }
    destruct H as (-> & H2 & H3 & H4). rewrite upd_length in H3. repeat split; auto; try lia.
    intros k. rewrite H4.
    destruct ((S i - 1 <=? k) && (k <? S i - 1 + cnt)) eqn:E1; destruct ((i - 1 <=? k) && (k <? i - 1 + S cnt)) eqn:E2; try lia.
    + rewrite nth_upd_neq by lia. auto.
    + assert (k = i - 1) by lia. subst k. rewrite nth_upd_eq by lia. f_equal. f_equal. lia.
    + rewrite nth_upd_neq by lia. auto.
Qed.

Lemma emap_before : forall cnt i m e ob index p m' e' ob', i <= p < i + cnt -> i + cnt <= length m ->
  (forall k, i <= k < i + cnt -> k <> p -> nth k m zd <> index) -> nth p m zd = index ->
  emap_loop cnt i index m false e ob = (m', e', ob') ->
  e' = Z.of_nat p /\ ob' = ob /\ length m' = length m /\
  forall k, nth k m' zd = if (p <=? k) && (k <? i + cnt - 1) then (nth (S k) m zd - 1)%Z else nth k m zd.
Proof.
  induction cnt; intros i m e ob index p m' e' ob' Hp Hl Hne Hidx H; [lia|]. cbn [emap_loop] in H.
  change 0%Z with zd in H. rewrite chk_in in H by lia. rewrite Nat.add_0_r in H.
  destruct (Nat.eq_dec i p) as [->|Hip].
  - rewrite Hidx, Z.eqb_refl in H.
    apply emap_after in H; try lia.
    2:{ intros k Hk. apply Hne; lia. }
    destruct H as (-> & H2 & H3 & H4). repeat split; auto. intros k. rewrite H4.
    replace (S p - 1) with p by lia. replace (p + S cnt - 1) with (p + cnt) by lia. reflexivity.
  - destruct (nth i m zd =? index)%Z eqn:E; [exfalso; apply (Hne i); lia|].
    apply (IHcnt (S i) m e ob index p) in H; try lia; auto.
    + destruct H as (-> & H2 & H3 & H4). repeat split; auto. intros k. rewrite H4.
      replace (S i + cnt - 1) with (i + S cnt - 1) by lia. reflexivity.
    + intros k Hk Hkp. apply Hne; lia.
Qed.

(* the encounter map as a valid injection: the first n entries are strictly increasing indices in [0,N) *)
Definition vmap (N : nat) (m : list Z) (n : nat) : Prop :=
  n <= length m /\ (forall a b, a < b < n -> (nth a m zd < nth b m zd)%Z) /\
  (forall a, a < n -> (0 <= nth a m zd < Z.of_nat N)%Z).

(* removing a particle that is in the map: the entry is dropped, later entries are renumbered, the result
   is again a valid injection into [0,N-1); encounter_index is the position of the entry; no access
   outside the map *)
Theorem emap_remove_valid : forall N m n p index ob m' e' ob',
  vmap N m n -> p < n -> nth p m zd = index ->
  emap_loop n 0 index m false (-1)%Z ob = (m', e', ob') ->
  e' = Z.of_nat p /\ ob' = ob /\ vmap (N - 1) m' (n - 1) /\
  forall k, k < n - 1 -> nth k m' zd = if p <=? k then (nth (S k) m zd - 1)%Z else nth k m zd.
Proof.
  intros N m n p index ob m' e' ob' (V1 & V2 & V3) Hp Hidx H.
  apply (emap_before n 0 m (-1)%Z ob index p) in H; try lia; auto.
  2:{ intros k Hk Hkp. rewrite <- Hidx. destruct (Nat.lt_ge_cases k p).
      - pose proof (V2 k p ltac:(lia)). lia.
      - pose proof (V2 p k ltac:(lia)). lia. }
  destruct H as (-> & -> & HL & HN). split; auto. split; auto.
  assert (HK : forall k, k < n - 1 -> nth k m' zd = if p <=? k then (nth (S k) m zd - 1)%Z else nth k m zd).
  { intros k Hk. rewrite HN. destruct ((p <=? k) && (k <? 0 + n - 1)) eqn:E2; destruct (p <=? k) eqn:E1; auto; lia. }
  split; auto. unfold vmap. split; [lia|]. split.
  - intros a b Hab. rewrite !HK by lia.
    destruct (p <=? a) eqn:Ea; destruct (p <=? b) eqn:Eb; try lia.
    + pose proof (V2 (S a) (S b) ltac:(lia)). lia.
    + pose proof (V2 a (S b) ltac:(lia)). pose proof (V2 a p ltac:(lia)). pose proof (V2 p (S b) ltac:(lia)). lia.
    + pose proof (V2 a b ltac:(lia)). lia.
  - intros a Ha. rewrite HK by lia. pose proof (V3 p Hp). destruct (p <=? a) eqn:Ea.
    + pose proof (V2 p (S a) ltac:(lia)). pose proof (V3 (S a) ltac:(lia)). lia.
    + pose proof (V2 a p ltac:(lia)). pose proof (V3 a ltac:(lia)). lia.
Qed.

(* adding: the new particle (index N) is appended to the map; the map stays a valid injection into [0,N+1) *)
Theorem emap_add_valid : forall N m m2 n, vmap N m n -> n < length m2 ->
  (forall a, a < n -> nth a m2 zd = nth a m zd) ->
  vmap (S N) (upd m2 n (Z.of_nat N)) (S n).
Proof.
  intros N m m2 n (V1 & V2 & V3) Hl Heq. unfold vmap. rewrite upd_length. split; [lia|]. split.
  - intros a b Hab. destruct (Nat.eq_dec b n) as [->|].
    + rewrite nth_upd_eq by lia. rewrite nth_upd_neq by lia. rewrite Heq by lia. pose proof (V3 a ltac:(lia)). lia.
    + rewrite !nth_upd_neq by lia. rewrite !Heq by lia. apply V2. lia.
  - intros a Ha. destruct (Nat.eq_dec a n) as [->|].
    + rewrite nth_upd_eq by lia. lia.
    + rewrite nth_upd_neq by lia. rewrite Heq by lia. pose proof (V3 a ltac:(lia)). lia.
Qed.

(* a valid map has at most N live entries, so the slot written by add is inside an allocation of N+1 *)
Lemma vmap_le : forall N m n, vmap N m n -> n <= N.
Proof.
  intros N m n (V1 & V2 & V3).
  assert (H : forall k, k < n -> (Z.of_nat k <= nth k m zd)%Z).
  { induction k; intros Hk; [apply V3; lia|]. specialize (IHk ltac:(lia)). pose proof (V2 k (S k) ltac:(lia)). lia. }
  destruct n; [lia|]. specialize (H n ltac:(lia)). pose proof (V3 n ltac:(lia)). lia.
Qed.

(* MERCURIUS removal never leaves dcrit or the encounter map (no hypothesis on N_allocated_dcrit) *)
Lemma emap_loop_safe : forall cnt i index m after e ob m' e' ob', (after = true -> 1 <= i) -> i + cnt <= length m ->
  emap_loop cnt i index m after e ob = (m', e', ob') -> ob' = ob /\ length m' = length m.
Proof.
  induction cnt; intros i index m after e ob m' e' ob' Ha Hl H; cbn [emap_loop] in H.
  - inversion H; auto.
  - destruct after.
    + specialize (Ha eq_refl). rewrite upd_length in H. rewrite !chk_in in H by lia.
      destruct (_ =? index)%Z; apply IHcnt in H; try (rewrite upd_length); try lia; rewrite upd_length in H; destruct H; split; lia.
    + rewrite chk_in in H by lia.
      destruct (_ =? index)%Z; apply IHcnt in H; try lia; destruct H; split; lia.
Qed.

Theorem merc_remove_safe : forall s h z keep s' h' r, kind h = IMerc -> eN h <= length (emap h) ->
  hremove s h z keep = (s', h', r) -> hoob h' = hoob h.
Proof.
  intros s h z keep s' h' r HK HE H. unfold hremove in H. rewrite HK in H.
  destruct ((Z.of_nat (sN s) <=? z) || (z <? 0))%Z; [inversion H; auto|].
  destruct (negb (sNvar s =? 0)); [inversion H; auto|].
  destruct ((keep || hybrid_kind h) && tree s); [inversion H; auto|].
  destruct (remove_idx s z (keep || hybrid_kind h)) as [s1 r1].
  set (nd := length (dcrit h)) in *.
  destruct ((0 <? nd) && (Z.to_nat z <? nd)) eqn:E.
  - destruct (dshift (Nat.min (sN s - 1) (nd - 1)) 0 (Z.to_nat z) (dcrit h) (hoob h)) as [d ob] eqn:ED.
    apply dshift_safe in ED; [|unfold nd in *; lia]. destruct ED as [-> _].
    destruct (hmode h =? 1).
    + destruct (emap_loop (eN h) 0 z (emap h) false (-1)%Z (hoob h)) as [[m e] ob'] eqn:EM.
      apply emap_loop_safe in EM; [|discriminate|lia]. destruct EM as [-> _]. inversion H; subst. reflexivity.
    + inversion H; subst. reflexivity.
  - destruct (hmode h =? 1).
    + destruct (emap_loop (eN h) 0 z (emap h) false (-1)%Z (hoob h)) as [[m e] ob'] eqn:EM.
      apply emap_loop_safe in EM; [|discriminate|lia]. destruct EM as [-> _]. inversion H; subst. reflexivity.
    + inversion H; subst. reflexivity.
Qed.

(* ---------------- TRACE current_Ks: the in-place reshuffle yields exactly the sub-matrix, for every N *)
Lemma lin_lt : forall n a b i j, a < i -> b < n -> a * n + b < i * n + j.
Proof. intros. nia. Qed.
Lemma lin_inj : forall n a b i j, b < n -> j < n -> a * n + b = i * n + j -> a = i /\ b = j.
Proof.
  intros n a b i j Hb Hj H. destruct (Nat.lt_trichotomy a i) as [L|[E|L]].
  - pose proof (lin_lt n a b i j L Hb). lia.
  - subst. split; auto. lia.
  - pose proof (lin_lt n i j a b L Hj). lia.
Qed.
Lemma src_ge : forall n index i j, i * n + j <= ks_src (S n) index i j.
Proof. intros. unfold ks_src. destruct (i <? index); destruct (j <? index); nia. Qed.
Lemma src_lt : forall n index i j, i < n -> j < n -> ks_src (S n) index i j < S n * S n.
Proof. intros. unfold ks_src. destruct (i <? index); destruct (j <? index); nia. Qed.
Lemma dst_lt : forall n i j, i < n -> j < n -> i * n + j < S n * S n.
Proof. intros. nia. Qed.

(* loop invariant: entries before position (i,j) hold their final value, entries from it on are untouched *)
Definition ks_inv (n index : nat) (k0 k : list Z) (i j : nat) : Prop :=
  length k = length k0 /\
  (forall a b, b < n -> (a < i \/ (a = i /\ b < j)) -> nth (a * n + b) k 0%Z = nth (ks_src (S n) index a b) k0 0%Z) /\
  (forall q, i * n + j <= q -> nth q k 0%Z = nth q k0 0%Z).

Lemma ks_row_inv : forall cnt j i n index k0 k ob k' ob', j + cnt = n -> i < n -> S n * S n <= length k0 ->
  ks_inv n index k0 k i j -> ks_row cnt j i n (S n) index k ob = (k', ob') ->
  ks_inv n index k0 k' (S i) 0 /\ ob' = ob.
Proof.
  induction cnt; intros j i n index k0 k ob k' ob' Hj Hi Hl (I1 & I2 & I3) H; cbn [ks_row] in H.
  - inversion H; subst. split; auto. unfold ks_inv. split; auto. split.
    + intros a b Hb [Ha|[_ Hb0]]; [|lia]. apply I2; auto. lia.
    + intros q Hq. apply I3. lia.
  - pose proof (src_ge n index i j). pose proof (src_lt n index i j Hi ltac:(lia)). pose proof (dst_lt n i j Hi ltac:(lia)).
    rewrite !chk_in in H by lia. rewrite !Nat.add_0_r in H.
    apply IHcnt with (k0 := k0) in H; auto; try lia.
    unfold ks_inv. rewrite upd_length. split; auto. split.
    + intros a b Hb Hab. destruct (Nat.eq_dec (a * n + b) (i * n + j)) as [E|NE].
      * apply lin_inj in E; try lia. destruct E; subst. rewrite nth_upd_eq by lia. apply I3. lia.
      * rewrite nth_upd_neq by lia. apply I2; auto. destruct Hab as [Ha|[Ha Hb2]]; [left; auto|].
        subst a. right. split; auto. destruct (Nat.eq_dec b j); [subst; lia|lia].
    + intros q Hq. rewrite nth_upd_neq by lia. apply I3. lia.
Qed.

Lemma ks_rows_inv : forall cnt i n index k0 k ob k' ob', i + cnt = n -> S n * S n <= length k0 ->
  ks_inv n index k0 k i 0 -> ks_rows cnt i n (S n) index k ob = (k', ob') ->
  ks_inv n index k0 k' n 0 /\ ob' = ob.
Proof.
  induction cnt; intros i n index k0 k ob k' ob' Hi Hl HI H; cbn [ks_rows] in H.
  - inversion H; subst k' ob'. assert (i = n) by lia. subst i. auto.
  - destruct (ks_row n 0 i n (S n) index k ob) as [k1 ob1] eqn:ER.
    apply ks_row_inv with (k0 := k0) in ER; auto; try lia. destruct ER as [HI1 ->].
    apply IHcnt with (k0 := k0) in H; auto. lia.
Qed.

(* removal of ANY index (the last one included) from an N x N matrix, N = n+1: entry (a,b) of the new
   n x n matrix (stride n) is entry (a', b') of the old one (stride N), a' = a or a+1 skipping [index];
   every access stays inside the N*N allocation *)
Theorem ks_remove_exact : forall n index k ob k' ob', S n * S n <= length k ->
  ks_rows n 0 n (S n) index k ob = (k', ob') ->
  ob' = ob /\ length k' = length k /\
  forall a b, a < n -> b < n ->
    nth (a * n + b) k' 0%Z = nth ((if a <? index then a else S a) * S n + (if b <? index then b else S b)) k 0%Z.
Proof.
  intros n index k ob k' ob' Hl H.
  apply ks_rows_inv with (k0 := k) in H; auto.
  - destruct H as [(I1 & I2 & _) ->]. split; auto. split; auto. intros a b Ha Hb. apply I2; auto.
  - unfold ks_inv. split; auto. split; [intros a b Hb [Ha|[_ Hb0]]; lia|auto].
Qed.
