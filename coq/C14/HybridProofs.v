(* C14: theorems about the MERCURIUS / TRACE bookkeeping model (Hybrid.v). *)
From Coq Require Import List ZArith NArith Bool Arith Lia ZifyBool.
From RV Require Import C14.Model C14.Lists C14.ProofsA C14.Hybrid.
Import ListNotations.

(* ---------------- a request that passed the checks cannot fail later *)
Lemma remove_idx_not_fail : forall s z keep,
  ((Z.of_nat (sN s) <=? z) || (z <? 0))%Z = false -> negb (sNvar s =? 0) = false -> keep && tree s = false ->
  snd (remove_idx s z keep) <> RFail.
Proof.
  intros s z keep H1 H2 H3. unfold remove_idx. rewrite H1, H2, H3.
  destruct ((sN s =? 1) && negb (tree s)); [cbn; discriminate|].
  destruct keep.
  - destruct (shift _ _ _ _). cbn. discriminate.
  - destruct (tree s); [cbn; discriminate|]. destruct (z <? sNact s)%Z; cbn; discriminate.
Qed.

(* failure (out-of-range index, variational particles, tree + keep_sorted -- forced for MERCURIUS/TRACE)
   leaves the particles AND every hybrid array exactly as they were *)
Theorem hremove_fail_untouched : forall s h z keep s' h',
  hremove s h z keep = (s', h', RFail) -> s' = s /\ h' = h.
Proof.
  intros s h z keep s' h' H. unfold hremove in H.
  destruct ((Z.of_nat (sN s) <=? z) || (z <? 0))%Z eqn:E1; [inversion H; auto|].
  destruct (negb (sNvar s =? 0)) eqn:E2; [inversion H; auto|].
  destruct ((keep || hybrid_kind h) && tree s) eqn:E3; [inversion H; auto|].
  pose proof (remove_idx_not_fail s z (keep || hybrid_kind h) E1 E2 E3) as NF.
  destruct (remove_idx s z (keep || hybrid_kind h)) as [s1 r1]. inversion H; subst. cbn in NF. contradiction.
Qed.

Theorem hremove_invalid_fails : forall s h z keep,
  ((z < 0 \/ Z.of_nat (sN s) <= z)%Z \/ sNvar s <> 0 \/ ((keep = true \/ kind h <> INone) /\ tree s = true)) ->
  hremove s h z keep = (s, h, RFail).
Proof.
  intros s h z keep H. unfold hremove.
  destruct ((Z.of_nat (sN s) <=? z) || (z <? 0))%Z eqn:E1; auto.
  destruct (negb (sNvar s =? 0)) eqn:E2; auto.
  destruct ((keep || hybrid_kind h) && tree s) eqn:E3; auto.
  exfalso. destruct H as [H|[H|[[H|H] HT]]]; try lia.
  rewrite HT in E3. unfold hybrid_kind in E3. destruct (kind h); try contradiction; destruct keep; cbn in E3; discriminate.
Qed.

(* ---------------- memory safety of the dcrit shift and of the encounter-map loop *)
Lemma dshift_safe : forall cnt i index d ob d' ob', i + cnt < length d ->
  dshift cnt i index d ob = (d', ob') -> ob' = ob /\ length d' = length d.
Proof.
  induction cnt; intros i index d ob d' ob' Hb H; cbn [dshift] in H.
  - inversion H; auto.
  - destruct (index <=? i).
    + apply IHcnt in H; [|rewrite upd_length; lia]. rewrite upd_length in H.
      rewrite !chk_in in H by lia. destruct H. split; lia.
    + apply IHcnt in H; auto. lia.
Qed.

Definition zd := 0%Z.

Lemma emap_after : forall cnt i m e ob index m' e' ob', 1 <= i -> i + cnt <= length m ->
  (forall k, i <= k < i + cnt -> nth k m zd <> index) ->
  emap_loop cnt i index m true e ob = (m', e', ob') ->
  e' = e /\ ob' = ob /\ length m' = length m /\
  forall k, nth k m' zd = if (i - 1 <=? k) && (k <? i - 1 + cnt) then (nth (S k) m zd - 1)%Z else nth k m zd.
Proof.
  induction cnt; intros i m e ob index m' e' ob' Hi Hl Hne H; cbn [emap_loop] in H.
  - inversion H; subst. repeat split; auto. intros k. destruct ((i - 1 <=? k) && (k <? i - 1 + 0)) eqn:E; auto; lia.
  - change 0%Z with zd in H. rewrite upd_length in H. rewrite !chk_in in H by lia.
    rewrite (nth_upd_neq _ m (i - 1) i) in H by lia.
    destruct (nth i m zd =? index)%Z eqn:E; [exfalso; apply (Hne i); lia|].
    apply IHcnt in H; try (rewrite upd_length); try lia.
    2:{ intros k Hk. rewrite nth_upd_neq by lia. apply Hne. lia. }
    destruct H as (-> & H2 & H3 & H4). rewrite upd_length in H3. repeat split; auto; try lia.
    intros k. rewrite H4.
    destruct ((S i - 1 <=? k) && (k <? S i - 1 + cnt)) eqn:E1; destruct ((i - 1 <=? k) && (k <? i - 1 + S cnt)) eqn:E2; try lia.
    + rewrite nth_upd_neq by lia. auto.
    + assert (k = i - 1) by lia. subst k. rewrite nth_upd_eq by lia. f_equal. f_equal. lia.
    + rewrite nth_upd_neq by lia. auto.
Qed.

Lemma emap_before : forall cnt i m e ob index p m' e' ob', i <= p < i + cnt -> i + cnt <= length m ->
  (forall k, i <= k < i + cnt -> k <> p -> nth k m zd <> index) -> nth p m zd = index ->
  emap_loop cnt i index m false e ob = (m', e', ob') ->
  e' = Z.of_nat p /\ ob' = ob /\ length m' = length m /\
  forall k, nth k m' zd = if (p <=? k) && (k <? i + cnt - 1) then (nth (S k) m zd - 1)%Z else nth k m zd.
Proof.
  induction cnt; intros i m e ob index p m' e' ob' Hp Hl Hne Hidx H; [lia|]. cbn [emap_loop] in H.
  change 0%Z with zd in H. rewrite chk_in in H by lia. rewrite Nat.add_0_r in H.
  destruct (Nat.eq_dec i p) as [->|Hip].
  - rewrite Hidx, Z.eqb_refl in H.
    apply emap_after in H; try lia.
    2:{ intros k Hk. apply Hne; lia. }
    destruct H as (-> & H2 & H3 & H4). repeat split; auto. intros k. rewrite H4.
    replace (S p - 1) with p by lia. replace (p + S cnt - 1) with (p + cnt) by lia. reflexivity.
  - destruct (nth i m zd =? index)%Z eqn:E; [exfalso; apply (Hne i); lia|].
    apply (IHcnt (S i) m e ob index p) in H; try lia; auto.
    + destruct H as (-> & H2 & H3 & H4). repeat split; auto. intros k. rewrite H4.
      replace (S i + cnt - 1) with (i + S cnt - 1) by lia. reflexivity.
    + intros k Hk Hkp. apply Hne; lia.
Qed.

(* the encounter map as a valid injection: the first n entries are strictly increasing indices in [0,N) *)
Definition vmap (N : nat) (m : list Z) (n : nat) : Prop :=
  n <= length m /\ (forall a b, a < b < n -> (nth a m zd < nth b m zd)%Z) /\
  (forall a, a < n -> (0 <= nth a m zd < Z.of_nat N)%Z).

(* removing a particle that is in the map: the entry is dropped, later entries are renumbered, the result
   is again a valid injection into [0,N-1); encounter_index is the position of the entry; no access
   outside the map *)
Theorem emap_remove_valid : forall N m n p index ob m' e' ob',
  vmap N m n -> p < n -> nth p m zd = index ->
  emap_loop n 0 index m false (-1)%Z ob = (m', e', ob') ->
  e' = Z.of_nat p /\ ob' = ob /\ vmap (N - 1) m' (n - 1) /\
  forall k, k < n - 1 -> nth k m' zd = if p <=? k then (nth (S k) m zd - 1)%Z else nth k m zd.
Proof.
  intros N m n p index ob m' e' ob' (V1 & V2 & V3) Hp Hidx H.
  apply (emap_before n 0 m (-1)%Z ob index p) in H; try lia; auto.
  2:{ intros k Hk Hkp. rewrite <- Hidx. destruct (Nat.lt_ge_cases k p).
      - pose proof (V2 k p ltac:(lia)). lia.
      - pose proof (V2 p k ltac:(lia)). lia. }
  destruct H as (-> & -> & HL & HN). split; auto. split; auto.
  assert (HK : forall k, k < n - 1 -> nth k m' zd = if p <=? k then (nth (S k) m zd - 1)%Z else nth k m zd).
  { intros k Hk. rewrite HN. destruct ((p <=? k) && (k <? 0 + n - 1)) eqn:E2; destruct (p <=? k) eqn:E1; auto; lia. }
  split; auto. unfold vmap. split; [lia|]. split.
  - intros a b Hab. rewrite !HK by lia.
    destruct (p <=? a) eqn:Ea; destruct (p <=? b) eqn:Eb; try lia.
    + pose proof (V2 (S a) (S b) ltac:(lia)). lia.
    + pose proof (V2 a (S b) ltac:(lia)). pose proof (V2 a p ltac:(lia)). pose proof (V2 p (S b) ltac:(lia)). lia.
    + pose proof (V2 a b ltac:(lia)). lia.
  - intros a Ha. rewrite HK by lia. pose proof (V3 p Hp). destruct (p <=? a) eqn:Ea.
    + pose proof (V2 p (S a) ltac:(lia)). pose proof (V3 (S a) ltac:(lia)). lia.
    + pose proof (V2 a p ltac:(lia)). pose proof (V3 a ltac:(lia)). lia.
Qed.

(* adding: the new particle (index N) is appended to the map; the map stays a valid injection into [0,N+1) *)
Theorem emap_add_valid : forall N m m2 n, vmap N m n -> n < length m2 ->
  (forall a, a < n -> nth a m2 zd = nth a m zd) ->
  vmap (S N) (upd m2 n (Z.of_nat N)) (S n).
Proof.
  intros N m m2 n (V1 & V2 & V3) Hl Heq. unfold vmap. rewrite upd_length. split; [lia|]. split.
  - intros a b Hab. destruct (Nat.eq_dec b n) as [->|].
    + rewrite nth_upd_eq by lia. rewrite nth_upd_neq by lia. rewrite Heq by lia. pose proof (V3 a ltac:(lia)). lia.
    + rewrite !nth_upd_neq by lia. rewrite !Heq by lia. apply V2. lia.
  - intros a Ha. destruct (Nat.eq_dec a n) as [->|].
    + rewrite nth_upd_eq by lia. lia.
    + rewrite nth_upd_neq by lia. rewrite Heq by lia. pose proof (V3 a ltac:(lia)). lia.
Qed.

(* a valid map has at most N live entries, so the slot written by add is inside an allocation of N+1 *)
Lemma vmap_le : forall N m n, vmap N m n -> n <= N.
Proof.
  intros N m n (V1 & V2 & V3).
  assert (H : forall k, k < n -> (Z.of_nat k <= nth k m zd)%Z).
  { induction k; intros Hk; [apply V3; lia|]. specialize (IHk ltac:(lia)). pose proof (V2 k (S k) ltac:(lia)). lia. }
  destruct n; [lia|]. specialize (H n ltac:(lia)). pose proof (V3 n ltac:(lia)). lia.
Qed.

(* MERCURIUS removal never leaves dcrit or the encounter map (no hypothesis on N_allocated_dcrit) *)
Lemma emap_loop_safe : forall cnt i index m after e ob m' e' ob', (after = true -> 1 <= i) -> i + cnt <= length m ->
  emap_loop cnt i index m after e ob = (m', e', ob') -> ob' = ob /\ length m' = length m.
Proof.
  induction cnt; intros i index m after e ob m' e' ob' Ha Hl H; cbn [emap_loop] in H.
  - inversion H; auto.
  - destruct after.
    + specialize (Ha eq_refl). rewrite upd_length in H. rewrite !chk_in in H by lia.
      destruct (_ =? index)%Z; apply IHcnt in H; try (rewrite upd_length); try lia; rewrite upd_length in H; destruct H; split; lia.
    + rewrite chk_in in H by lia.
      destruct (_ =? index)%Z; apply IHcnt in H; try lia; destruct H; split; lia.
Qed.

Theorem merc_remove_safe : forall s h z keep s' h' r, kind h = IMerc -> eN h <= length (emap h) ->
  hremove s h z keep = (s', h', r) -> hoob h' = hoob h.
Proof.
  intros s h z keep s' h' r HK HE H. unfold hremove in H. rewrite HK in H.
  destruct ((Z.of_nat (sN s) <=? z) || (z <? 0))%Z; [inversion H; auto|].
  destruct (negb (sNvar s =? 0)); [inversion H; auto|].
  destruct ((keep || hybrid_kind h) && tree s); [inversion H; auto|].
  destruct (remove_idx s z (keep || hybrid_kind h)) as [s1 r1].
  set (nd := length (dcrit h)) in *.
  destruct ((0 <? nd) && (Z.to_nat z <? nd)) eqn:E.
  - destruct (dshift (Nat.min (sN s - 1) (nd - 1)) 0 (Z.to_nat z) (dcrit h) (hoob h)) as [d ob] eqn:ED.
    apply dshift_safe in ED; [|unfold nd in *; lia]. destruct ED as [-> _].
    destruct (hmode h =? 1).
    + destruct (emap_loop (eN h) 0 z (emap h) false (-1)%Z (hoob h)) as [[m e] ob'] eqn:EM.
      apply emap_loop_safe in EM; [|discriminate|lia]. destruct EM as [-> _]. inversion H; subst. reflexivity.
    + inversion H; subst. reflexivity.
  - destruct (hmode h =? 1).
    + destruct (emap_loop (eN h) 0 z (emap h) false (-1)%Z (hoob h)) as [[m e] ob'] eqn:EM.
      apply emap_loop_safe in EM; [|discriminate|lia]. destruct EM as [-> _]. inversion H; subst. reflexivity.
    + inversion H; subst. reflexivity.
Qed.

(* ---------------- TRACE current_Ks: bounded exhaustive check (N <= 7) and the refuted clause *)
(* the matrix that should result: rows and columns [index] deleted from the N x N matrix *)
Definition ks_expected (n index : nat) (k : list Z) : list Z :=
  flat_map (fun i => map (fun j => nth ((if i <? index then i else S i) * n + (if j <? index then j else S j)) k 0%Z)
                         (seq 0 (n - 1))) (seq 0 (n - 1)).
Definition ks_case_ok (n index : nat) : bool :=
  let k := map Z.of_nat (seq 1000 (n * n)) in
  let '(k', ob) := ks_rows (n - 1) 0 (n - 1) n index k 0 0 in
  zl_eqb (firstn ((n - 1) * (n - 1)) k') (ks_expected n index k) && (ob =? 0).
(* for every N in 2..7 and every index except the last one the reshuffle is exactly the sub-matrix and
   stays inside the N*N allocation *)
Theorem ks_remove_ok_bounded :
  forallb (fun n => forallb (fun i => ks_case_ok n i) (seq 0 (n - 1))) (seq 2 6) = true.
Proof. vm_compute. reflexivity. Qed.
(* removing the LAST particle (index = N-1): neither `i == index` nor `j == index` ever fires, the rows keep
   their old stride and the matrix is misaligned.  N = 3, index 2: [1000;1001;1002;1003] instead of
   [1000;1001;1003;1004].  Confirmed on the library. *)
Theorem ks_remove_last_refuted : exists n, 2 <= n /\ ks_case_ok n (n - 1) = false.
Proof. exists 3. split; [lia|vm_compute; reflexivity]. Qed.
