(* C14: list lemmas used by the refinement proofs (upd / nth / firstn / remove_nth / insertion sort). *)
From Coq Require Import List ZArith NArith Bool Arith Lia Permutation.
From RV Require Import C14.Model.
Import ListNotations.

Lemma upd_length : forall A (l : list A) i v, length (upd l i v) = length l.
Proof. induction l; destruct i; cbn; intros; auto. Qed.

Lemma nth_upd_eq : forall A (l : list A) i v d, i < length l -> nth i (upd l i v) d = v.
Proof. induction l; destruct i; cbn; intros; try lia; auto; try (apply IHl; lia). Qed.

Lemma nth_upd_neq : forall A (l : list A) i j v d, j <> i -> nth j (upd l i v) d = nth j l d.
Proof. induction l; destruct i; destruct j; cbn; intros; try lia; auto; try (apply IHl; lia). Qed.

Lemma upd_oob : forall A (l : list A) i v, length l <= i -> upd l i v = l.
Proof. induction l; destruct i; cbn; intros; try lia; auto; try (f_equal; apply IHl; lia). Qed.

Lemma firstn_upd_ge : forall A (l : list A) n i v, n <= i -> firstn n (upd l i v) = firstn n l.
Proof. induction l; destruct n; destruct i; cbn; intros; try lia; auto; try (f_equal; apply IHl; lia). Qed.

Lemma firstn_upd_lt : forall A (l : list A) n i v, i < n -> firstn n (upd l i v) = upd (firstn n l) i v.
Proof. induction l; destruct n; destruct i; cbn; intros; try lia; auto; try (f_equal; apply IHl; lia). Qed.

Lemma nth_firstn_lt : forall A (l : list A) n k d, k < n -> nth k (firstn n l) d = nth k l d.
Proof. induction l; destruct n; destruct k; cbn; intros; try lia; auto; try (apply IHl; lia). Qed.

Lemma firstn_S_upd : forall A (l : list A) n v, n < length l -> firstn (S n) (upd l n v) = firstn n l ++ [v].
Proof. induction l; destruct n; cbn; intros; try lia; auto; try (f_equal; apply IHl; lia). Qed.

Lemma last_nth : forall A (l : list A) d, last l d = nth (length l - 1) l d.
Proof.
  induction l; intros; auto. destruct l; auto.
  change (last (a :: a0 :: l) d) with (last (a0 :: l) d). rewrite IHl. cbn. now rewrite Nat.sub_0_r.
Qed.

Lemma nth_skipn' : forall A (l : list A) n k d, nth k (skipn n l) d = nth (n + k) l d.
Proof. induction l; destruct n; cbn; intros; auto. destruct k; auto. Qed.

Lemma nth_remove_nth : forall A (l : list A) i k d, i < length l ->
  nth k (remove_nth i l) d = if k <? i then nth k l d else nth (S k) l d.
Proof.
  intros. unfold remove_nth. destruct (Nat.ltb_spec k i).
  - rewrite app_nth1 by (rewrite firstn_length; lia). apply nth_firstn_lt; auto.
  - rewrite app_nth2 by (rewrite firstn_length; lia). rewrite firstn_length, nth_skipn'.
    f_equal. lia.
Qed.

Lemma remove_nth_length : forall A (l : list A) i, i < length l -> length (remove_nth i l) = length l - 1.
Proof. intros. unfold remove_nth. rewrite app_length, firstn_length, skipn_length. lia. Qed.

Lemma In_nth_lt : forall A (l : list A) (x : A) d, In x l <-> exists j, j < length l /\ nth j l d = x.
Proof.
  split.
  - intros H. destruct (In_nth l x d H) as [j [? ?]]. eauto.
  - intros [j [? ?]]. subst. now apply nth_In.
Qed.

(* ---- insertion sort: permutation + sortedness (in nth form) *)
Lemma insert_perm : forall x l, Permutation (insert x l) (x :: l).
Proof.
  induction l; cbn; auto. destruct (fst x <=? fst a)%N; auto.
  rewrite IHl. apply perm_swap.
Qed.
Lemma isort_perm : forall l, Permutation (isort l) l.
Proof. induction l; cbn; auto. rewrite insert_perm. now constructor. Qed.

Inductive hsorted : list (N * nat) -> Prop :=
| hs_nil : hsorted []
| hs_cons : forall x l, (forall y, In y l -> (fst x <= fst y)%N) -> hsorted l -> hsorted (x :: l).

Lemma insert_sorted : forall x l, hsorted l -> hsorted (insert x l).
Proof.
  induction 1; cbn.
  - constructor; [intros ? []|constructor].
  - destruct (N.leb_spec (fst x) (fst x0)).
    + constructor; [|constructor; auto]. intros y [<-|Hy]; auto. specialize (H _ Hy). lia.
    + constructor; auto. intros y Hy.
      apply (Permutation_in _ (insert_perm x l)) in Hy. destruct Hy as [<-|Hy]; [lia|auto].
Qed.
Lemma isort_sorted : forall l, hsorted (isort l).
Proof. induction l; cbn; [constructor|now apply insert_sorted]. Qed.

Lemma hsorted_nth : forall l, hsorted l -> forall i j d, i <= j -> j < length l ->
  (fst (nth i l d) <= fst (nth j l d))%N.
Proof.
  induction 1; cbn; intros; try lia.
  destruct i, j; try lia.
  - apply H. apply nth_In. lia.
  - apply IHhsorted; lia.
Qed.
