(* C03: which shared simulation flags reb_integrator_whfast_init (re-)establishes on every step.
   The statement tree of the function is regenerated from the source (coq/Gen/WhfastInit.v, tools/translate_whfast_init.py);
   this file defines the tree type and the path analysis:  normal_exits req body  = for every path through the body that
   reaches a NORMAL exit (return 0, or the end), whether it assigned r-><one of req>.  Loops run 0 or 1 times (0 is the
   weakest case for "must assign"); error exits (return <> 0) abort the step and are not counted. *)
From Coq Require Import List String ZArith Bool.
Import ListNotations.
Open Scope string_scope.
Open Scope list_scope.

(* conditions of if statements: comparisons of a location "obj.field" with an enumerator / integer, &&, ||;
   everything else is opaque (both branches possible) *)
Inductive cond : Type :=
| CEq (loc const : string)
| CNe (loc const : string)
| CAnd (a b : cond)
| COr (a b : cond)
| COpaque.

Inductive stmt : Type :=
| SAssign (obj field value : string)
| SIf (c : cond) (t e : list stmt)
| SLoop (body : list stmt)
| SReturn (z : Z)
| SCall (f : string)
| SDecl.

Definition mem (s : string) (l : list string) : bool := existsb (String.eqb s) l.

(* run one statement from the state "assigned = a": (flags of the paths that continue, flags at normal exits) *)
Fixpoint run_s (req : list string) (s : stmt) (a : bool) {struct s} : list bool * list bool :=
  let run_l := fix run_l (l : list stmt) (cs : list bool) {struct l} : list bool * list bool :=
    match l with
    | [] => (cs, [])
    | s' :: r =>
        let step := map (run_s req s') cs in
        let '(c2, e2) := run_l r (flat_map fst step) in
        (c2, flat_map snd step ++ e2)
    end in
  match s with
  | SAssign o f _ => ([orb a (andb (String.eqb o "r") (mem f req))], [])
  | SIf _ t e => let rt := run_l t [a] in let re := run_l e [a] in (fst rt ++ fst re, snd rt ++ snd re)
  | SLoop b => let rb := run_l b [a] in (a :: fst rb, snd rb)
  | SReturn z => if Z.eqb z 0 then ([], [a]) else ([], [])
  | SCall _ => ([a], [])
  | SDecl => ([a], [])
  end.

Definition normal_exits (req : list string) (body : list stmt) : list bool :=
  let r := run_s req (SIf COpaque body []) false in
  (* paths falling off the end of [body] are normal exits too; the empty else-branch contributes one spurious
     "nothing executed" path, removed here *)
  snd r ++ removelast (fst r).

Definition always_assigns (req : list string) (body : list stmt) : bool :=
  let ex := normal_exits req body in andb (negb (Nat.eqb (List.length ex) 0)) (forallb (fun b => b) ex).
Definition some_path_inherits (req : list string) (body : list stmt) : bool :=
  existsb negb (normal_exits req body).

(* r-> fields assigned anywhere in the body *)
Fixpoint fields_s (s : stmt) : list string :=
  let fields_l := fix fields_l (l : list stmt) : list string :=
    match l with [] => [] | s' :: r => fields_s s' ++ fields_l r end in
  match s with
  | SAssign o f _ => if String.eqb o "r" then [f] else []
  | SIf _ t e => fields_l t ++ fields_l e
  | SLoop b => fields_l b
  | _ => []
  end.
Definition shared_fields_written (body : list stmt) : list string := flat_map fields_s body.

(* sanity of the analysis on small trees *)
Example init_analysis_examples :
  always_assigns ["x"] [SIf COpaque [SAssign "r" "x" "1"] [SAssign "r" "x" "2"]; SReturn 0] = true /\
  always_assigns ["x"] [SIf COpaque [SAssign "r" "x" "1"] []; SReturn 0] = false /\
  always_assigns ["x"] [SIf COpaque [SReturn 1] []; SAssign "r" "x" "1"] = true /\
  always_assigns ["x"] [SIf COpaque [SCall "f"] [SAssign "r" "x" "1"]; SIf COpaque [SCall "g"] [SAssign "r" "x" "1"]] = false /\
  always_assigns ["x"] [SAssign "q" "x" "1"; SReturn 0] = false /\
  always_assigns ["x"; "y"] [SIf COpaque [SAssign "r" "y" "1"] [SAssign "r" "x" "2"]] = true.
Proof. vm_compute. repeat split. Qed.

(* ------------------------------------------------------------------ execution with tracked locations *)
(* Environment: the values (enumerator names) of the tracked locations; an untracked or unknown value is None.
   A condition evaluates to Some b when it is decided by the tracked locations, None otherwise (both branches run).
   Distinct enumerator names denote distinct values (checked by the translator), so name equality decides ==. *)
Definition env : Type := list (string * option string).
Fixpoint lookup (σ : env) (l : string) : option (option string) :=
  match σ with [] => None | (k, v) :: r => if String.eqb k l then Some v else lookup r l end.
Fixpoint update (σ : env) (l : string) (v : option string) : env :=
  match σ with [] => [] | (k, w) :: r => if String.eqb k l then (k, v) :: r else (k, w) :: update r l v end.

Definition and3 (a b : option bool) : option bool :=
  match a, b with
  | Some false, _ | _, Some false => Some false
  | Some true, Some true => Some true
  | _, _ => None
  end.
Definition or3 (a b : option bool) : option bool :=
  match a, b with
  | Some true, _ | _, Some true => Some true
  | Some false, Some false => Some false
  | _, _ => None
  end.
Fixpoint evalc (σ : env) (c : cond) : option bool :=
  match c with
  | CEq l k => match lookup σ l with Some (Some v) => Some (String.eqb v k) | _ => None end
  | CNe l k => match lookup σ l with Some (Some v) => Some (negb (String.eqb v k)) | _ => None end
  | CAnd a b => and3 (evalc σ a) (evalc σ b)
  | COr a b => or3 (evalc σ a) (evalc σ b)
  | COpaque => None
  end.

(* (environments of the paths that continue, environments at normal exits) *)
Fixpoint exec_s (s : stmt) (σ : env) {struct s} : list env * list env :=
  let exec_l := fix exec_l (l : list stmt) (cs : list env) {struct l} : list env * list env :=
    match l with
    | [] => (cs, [])
    | s' :: r =>
        let step := map (exec_s s') cs in
        let '(c2, e2) := exec_l r (flat_map fst step) in
        (c2, flat_map snd step ++ e2)
    end in
  match s with
  | SAssign o f v => ([update σ (o ++ "." ++ f)%string (if String.eqb v "expr" then None else Some v)], [])
  | SIf c t e =>
      match evalc σ c with
      | Some true => exec_l t [σ]
      | Some false => exec_l e [σ]
      | None => let rt := exec_l t [σ] in let re := exec_l e [σ] in (fst rt ++ fst re, snd rt ++ snd re)
      end
  | SLoop b => let rb := exec_l b [σ] in (σ :: fst rb, snd rb)
  | SReturn z => if Z.eqb z 0 then ([], [σ]) else ([], [])
  | SCall _ => ([σ], [])
  | SDecl => ([σ], [])
  end.
Fixpoint exec_block (l : list stmt) (cs : list env) : list env * list env :=
  match l with
  | [] => (cs, [])
  | s :: r =>
      let step := map (exec_s s) cs in
      let '(c2, e2) := exec_block r (flat_map fst step) in
      (c2, flat_map snd step ++ e2)
  end.
(* environments at the normal exits (return 0, or falling off the end) *)
Definition exec_exits (body : list stmt) (σ : env) : list env :=
  let r := exec_block body [σ] in snd r ++ fst r.

Definition K := "ri_whfast.kernel".
Definition Cc := "ri_whfast.coordinates".
Definition Gg := "r.gravity".
Definition init_env (k c g : string) : env := [(K, Some k); (Cc, Some c); (Gg, Some g)].

(* at a normal exit: gravity == REB_GRAVITY_JACOBI only together with Jacobi coordinates *)
Definition jacobi_ok (σ : env) : bool :=
  match lookup σ Gg, lookup σ Cc with
  | Some (Some g), Some (Some c) =>
      if String.eqb g "REB_GRAVITY_JACOBI" then String.eqb c "REB_WHFAST_COORDINATES_JACOBI" else true
  | _, _ => false
  end.
Definition all_starts (ks cs gs : list string) (body : list stmt) (P : env -> bool) : bool :=
  forallb (fun k => forallb (fun c => forallb (fun g => forallb P (exec_exits body (init_env k c g))) gs) cs) ks.
Definition count_exits (ks cs gs : list string) (body : list stmt) : nat :=
  List.length (flat_map (fun k => flat_map (fun c => flat_map (fun g => exec_exits body (init_env k c g)) gs) cs) ks).
