(* C03 round 3: (A) the f-g determinant of the model's update, in the form used by C04;
   (B) the model's Newton step over R is the Newton iterate of the universal Kepler function, its fixed points are the
       roots, and the error contracts by (Q-q)/q when q <= r <= Q along the way;
   (C) the model's bisection loop over R terminates within its fuel for brackets bounded away from 0. *)
From Coq Require Import List ZArith Reals Lra Lia Nsatz Bool.
From RV Require Import Common.Num Common.RealNum C03.Model C03.Proofs.
Import ListNotations.
Open Scope R_scope.

(* ------------------------------------------------------------------ A. determinant *)
(* With f = 1 + f_code, gd = 1 + gd_code (the code stores f-1 and gd-1 and adds x, v back):  f gd - fd g = 1,
   and the model's update is the linear map (x,v) -> (f x + g v, fd x + gd v). *)
Theorem fg_determinant (p : P6) (M dt r0 beta X G0 G1 G2 G3 : R) :
  kepler_hyp p M dt r0 beta X G0 G1 G2 G3 ->
  let '(fc, g, fd, gdc) := fg_coeffs RNum M dt (1 / r0) (1 / new_radius p M r0 beta G1 G2) G1 G2 G3 in
  let f := 1 + fc in let gd := 1 + gdc in
  f * gd - fd * g = 1 /\
  forall x y z vx vy vz,
    fg_apply RNum (fc, g, fd, gdc) (x, y, z, vx, vy, vz) =
    (f * x + g * vx, f * y + g * vy, f * z + g * vz, fd * x + gd * vx, fd * y + gd * vy, fd * z + gd * vz).
Proof.
  unfold kepler_hyp, new_radius. cbv zeta.
  intros (Hr0 & Hr02 & Hb & HG0 & HG1 & Hh & Hk & Hrp).
  set (eta0 := xdotv p) in *. set (r := r0 + eta0 * G1 + (M - beta * r0) * G2) in *.
  assert (Ha : r0 * (1 / r0) = 1) by (field; lra).
  assert (Hr : r * (1 / r) = 1) by (field; lra).
  assert (H3 : G1 * G1 = G2 * (2 - beta * G2)) by (rewrite Hh, HG0; ring).
  pose proof (sc_wronskian M r0 (1 / r0) r (1 / r) beta eta0 X G1 G2 G3 Ha Hr eq_refl H3 HG1) as HW.
  cbv zeta in HW. rewrite Hk in HW.
  unfold fg_coeffs. cbn [nadd nsub nmul nneg RNum]. cbv zeta beta iota. split.
  - etransitivity; [|exact HW]. ring.
  - intros. unfold fg_apply. cbn [nadd nmul RNum]. repeat (f_equal; try ring).
Qed.

(* ------------------------------------------------------------------ B. the model's Newton step over R *)
(* newton_step at the reals is the Newton iterate X - F(X)/F'(X) of F(X) = r0 X + eta0 G2 + zeta0 G3 - dt, with
   F' = r = r0 + eta0 G1 + zeta0 G2, for the G's the model computes; its fixed points are exactly the roots, so the
   loop's exit test `X==oldX` means (over R) that X solves the equation being iterated. *)
Theorem newton_step_R beta r0 eta0 zeta0 dt X :
  let '(G0, G1, G2, G3) := fst (stiefel_Gs3 RNum beta X) in
  let r := r0 + (eta0 * G1 + zeta0 * G2) in
  let F := r0 * X + eta0 * G2 + zeta0 * G3 - dt in
  r <> 0 ->
  fst (fst (fst (newton_step RNum beta r0 eta0 zeta0 dt X))) = X - F / r /\
  (fst (fst (fst (newton_step RNum beta r0 eta0 zeta0 dt X))) = X <-> F = 0).
Proof.
  unfold newton_step. destruct (stiefel_Gs3 RNum beta X) as [[[[G0 G1] G2] G3] h]. cbn [fst snd].
  cbn [nadd nsub nmul ndiv none RNum]. intros Hr.
  set (r := r0 + (eta0 * G1 + zeta0 * G2)) in *.
  assert (E : 1 / r * (X * (eta0 * G1 + zeta0 * G2) - eta0 * G2 - zeta0 * G3 + dt) =
              X - (r0 * X + eta0 * G2 + zeta0 * G3 - dt) / r) by (unfold r; field; exact Hr).
  split; [exact E|]. rewrite E. split.
  - intros H. assert (Q : (r0 * X + eta0 * G2 + zeta0 * G3 - dt) / r = 0) by lra.
    unfold Rdiv in Q. apply Rmult_integral in Q. destruct Q as [Q|Q]; [exact Q|].
    exfalso. apply (Rinv_neq_0_compat r Hr Q).
  - intros H. rewrite H. unfold Rdiv. ring.
Qed.

(* ------------------------------------------------------------------ C. the model's bisection over R *)
Lemma fastabs_R x : fastabs RNum x = Rabs x.
Proof.
  unfold fastabs. cbn [nltb nzero nneg RNum]. unfold Rltb. destruct (Rlt_dec 0 x).
  - rewrite Rabs_pos_eq; lra.
  - rewrite Rabs_left1; lra.
Qed.

Lemma bisect_loop_eq {T} (N : Num T) beta r0 eta0 zeta0 dt sf f X Xmin Xmax Gs cnt hang :
  bisect_loop N beta r0 eta0 zeta0 dt sf (S f) X Xmin Xmax Gs cnt hang =
  let '((G0, G1, G2, G3), h) := stiefel_Gs3 N beta X in
  let s := nsub N (nadd N (nadd N (nmul N r0 X) (nmul N eta0 G2)) (nmul N zeta0 G3)) dt in
  let take_max := if andb sf (nisnan N (nsub N s s)) then nltb N (nzero N) dt else nleb N (nzero N) s in
  let Xmax' := if take_max then X else Xmax in
  let Xmin' := if take_max then Xmin else X in
  let X' := ndiv N (nadd N Xmax' Xmin') (cz N 2) in
  if nltb N (fastabs N (nmul N (nadd N Xmax' Xmin') (c_1em15 N))) (fastabs N (nsub N Xmax' Xmin'))
  then bisect_loop N beta r0 eta0 zeta0 dt sf f X' Xmin' Xmax' (G0, G1, G2, G3) (S cnt) (orb hang h)
  else (X', (G0, G1, G2, G3), S cnt, orb hang h, false).
Proof. reflexivity. Qed.

(* For a bracket bounded away from 0 (0 < m <= Xmin <= Xmax, or Xmin <= Xmax <= -m < 0; X the midpoint) of width
   <= 2^fuel * 2m/10^15 the loop exits by its own test within fuel+1 iterations (out-of-fuel flag false) and returns a
   point of the bracket.  (The decision `take_max` may be arbitrary: only the halving matters.) *)
Theorem bisect_terminates_R beta r0 eta0 zeta0 dt sf m : 0 < m ->
  forall fuel X Xmin Xmax Gs cnt hang,
  (m <= Xmin \/ Xmax <= - m) -> Xmin <= Xmax -> X = (Xmax + Xmin) / 2 ->
  Xmax - Xmin <= 2 ^ fuel * (2 * m / 10 ^ 15) ->
  let res := bisect_loop RNum beta r0 eta0 zeta0 dt sf (S fuel) X Xmin Xmax Gs cnt hang in
  snd res = false /\ Xmin <= fst (fst (fst (fst res))) <= Xmax /\
  (snd (fst (fst res)) <= cnt + S fuel)%nat.
Proof.
  intros Hm. induction fuel as [|fuel IH]; intros X Xmin Xmax Gs cnt hang Hmin Hle HX Hw; cbv zeta;
    rewrite bisect_loop_eq; destruct (stiefel_Gs3 RNum beta X) as [[[[G0 G1] G2] G3] h]; cbv zeta;
    match goal with |- context [if ?b then nltb RNum ?z0 dt else ?c] => set (tm := if b then nltb RNum z0 dt else c) end;
    set (Xmax' := if tm then X else Xmax); set (Xmin' := if tm then Xmin else X);
    assert (Hb : (m <= Xmin' \/ Xmax' <= - m) /\ Xmin' <= Xmax' /\ Xmax' - Xmin' = (Xmax - Xmin) / 2 /\
                 Xmin <= Xmin' /\ Xmax' <= Xmax)
      by (unfold Xmax', Xmin'; destruct tm; subst X; (split; [destruct Hmin; [left|right]; lra|]); repeat split; lra);
    destruct Hb as (B1 & B2 & B3 & B4 & B5);
    assert (Habs : 2 * m <= Rabs (Xmax' + Xmin'))
      by (destruct B1; [rewrite Rabs_pos_eq by lra; lra | rewrite Rabs_left1 by lra; lra]);
    rewrite !fastabs_R; unfold c_1em15, ndec, cz; cbn [nadd nsub nmul ndiv nofZ nltb RNum]; unfold Rltb;
    rewrite Rabs_mult, (Rabs_pos_eq (1 / 1000000000000000)) by lra;
    rewrite (Rabs_pos_eq (Xmax' - Xmin')) by lra;
    destruct (Rlt_dec _ _) as [Ht|Ht].
  - exfalso. simpl pow in Hw. lra.
  - cbn [fst snd]. repeat split; try lra; lia.
  - specialize (IH ((Xmax' + Xmin') / 2) Xmin' Xmax' (G0, G1, G2, G3) (S cnt) (orb hang h) B1 B2 eq_refl).
    cbv zeta in IH. destruct IH as (I1 & I2 & I3).
    { rewrite B3. rewrite <- tech_pow_Rmult in Hw. lra. }
    repeat split; try exact I1; try lra; lia.
  - cbn [fst snd]. repeat split; try lra; lia.
Qed.

(* ------------------------------------------------------------------ D. corners of the f-g theorem's hypotheses *)
(* M = 0 (no central mass): whatever X and the G's are, the model's update is uniform motion x + dt v, v unchanged.
   (kepler_hyp has no M > 0 hypothesis: fg_exact covers M = 0 and M < 0 as well.) *)
Theorem zero_mass_uniform_motion (dt r0i ri G1 G2 G3 : R) (p : P6) :
  let '(x, y, z, vx, vy, vz) := p in
  fg_update RNum 0 dt r0i ri G1 G2 G3 p = (x + dt * vx, y + dt * vy, z + dt * vz, vx, vy, vz).
Proof.
  destruct p as [[[[[x y] z] vx] vy] vz]. unfold fg_update, fg_coeffs, fg_apply.
  cbn [nneg nmul nsub nadd RNum]. repeat (f_equal; try ring).
Qed.

(* dt = 0 with X = 0 (G1 = G2 = G3 = 0): the update is the identity for every M, r0i, ri
   (the code reaches X = 0 in one Newton step because its residual is 0 there). *)
Theorem zero_step_identity (M r0i ri : R) (p : P6) : fg_update RNum M 0 r0i ri 0 0 0 p = p.
Proof.
  destruct p as [[[[[x y] z] vx] vy] vz]. unfold fg_update, fg_coeffs, fg_apply.
  cbn [nneg nmul nsub nadd RNum]. repeat (f_equal; try ring).
Qed.
