(* C03 round 2: truncation error of the series used by stumpff_cs3 (model term series3), over R.
   For 0 < z <= 1 the 13-term Horner polynomials differ from the closed-form Stumpff functions by at most the first
   omitted term (alternating series: Coq's pre_sin_bound / pre_cos_bound bracket sin and cos between consecutive
   partial sums).  For z < 0 see the exp-series part below. *)
From Coq Require Import Reals Lra Lia.
From RV Require Import Common.Num Common.RealNum C03.Model C03.Proofs.
Open Scope R_scope.

(* factorial as a real, without ever computing a unary nat factorial *)
Fixpoint rfact (n : nat) : R := match n with O => 1 | S k => INR (S k) * rfact k end.
Lemma fact_rfact n : INR (fact n) = rfact n.
Proof. induction n as [|n IH]; [reflexivity|]. rewrite fact_simpl, mult_INR, IH. reflexivity. Qed.
Lemma rfact_pos n : 0 < rfact n.
Proof. rewrite <- fact_rfact. apply INR_fact_lt_0. Qed.

Lemma rf_step k v w : rfact k = v -> INR (S k) * v = w -> rfact (S k) = w.
Proof. intros <- <-. reflexivity. Qed.
Ltac rfs H := eapply rf_step; [exact H | rewrite INR_IZR_INZ; simpl Z.of_nat; lra].
Lemma rf1 : rfact 1 = 1. Proof. cbn. lra. Qed.
Lemma rf2 : rfact 2 = 2. Proof. rfs rf1. Qed.
Lemma rf3 : rfact 3 = 6. Proof. rfs rf2. Qed.
Lemma rf4 : rfact 4 = 24. Proof. rfs rf3. Qed.
Lemma rf5 : rfact 5 = 120. Proof. rfs rf4. Qed.
Lemma rf6 : rfact 6 = 720. Proof. rfs rf5. Qed.
Lemma rf7 : rfact 7 = 5040. Proof. rfs rf6. Qed.
Lemma rf8 : rfact 8 = 40320. Proof. rfs rf7. Qed.
Lemma rf9 : rfact 9 = 362880. Proof. rfs rf8. Qed.
Lemma rf10 : rfact 10 = 3628800. Proof. rfs rf9. Qed.
Lemma rf11 : rfact 11 = 39916800. Proof. rfs rf10. Qed.
Lemma rf12 : rfact 12 = 479001600. Proof. rfs rf11. Qed.
Lemma rf13 : rfact 13 = 6227020800. Proof. rfs rf12. Qed.
Lemma rf14 : rfact 14 = 87178291200. Proof. rfs rf13. Qed.
Lemma rf15 : rfact 15 = 1307674368000. Proof. rfs rf14. Qed.
Lemma rf16 : rfact 16 = 20922789888000. Proof. rfs rf15. Qed.
Lemma rf17 : rfact 17 = 355687428096000. Proof. rfs rf16. Qed.

(* the Horner polynomials of stumpff_cs3 *)
Definition P3 (z : R) : R :=
  1/6 - z * (1/120 - z * (1/5040 - z * (1/362880 - z * (1/39916800 - z * (1/6227020800))))).
Definition P2 (z : R) : R :=
  1/2 - z * (1/24 - z * (1/720 - z * (1/40320 - z * (1/3628800 - z * (1/479001600))))).

Lemma series3_poly z : series3 RNum z = (1 - z * P2 z, 1 - z * P3 z, P2 z, P3 z).
Proof.
  unfold series3, P2, P3, if0, if1, if2, if3, if4, if5, if6, if7, if8, if9, if10, if11, if12, if13, invf, cz.
  cbn [nadd nsub nmul ndiv none nofZ RNum]. reflexivity.
Qed.

(* partial sums of sin / cos at order 6 are the polynomials *)
Lemma sin_approx6 s : sin_approx s 6 = s * (1 - s * s * P3 (s * s)).
Proof.
  unfold sin_approx. cbn [sum_f_R0]. unfold sin_term.
  replace (2 * 0 + 1)%nat with 1%nat by reflexivity. replace (2 * 1 + 1)%nat with 3%nat by reflexivity.
  replace (2 * 2 + 1)%nat with 5%nat by reflexivity. replace (2 * 3 + 1)%nat with 7%nat by reflexivity.
  replace (2 * 4 + 1)%nat with 9%nat by reflexivity. replace (2 * 5 + 1)%nat with 11%nat by reflexivity.
  replace (2 * 6 + 1)%nat with 13%nat by reflexivity.
  rewrite !fact_rfact, rf1, rf3, rf5, rf7, rf9, rf11, rf13. unfold P3. simpl pow. field.
Qed.
Lemma cos_approx6 s : cos_approx s 6 = 1 - s * s * P2 (s * s).
Proof.
  unfold cos_approx. cbn [sum_f_R0]. unfold cos_term.
  replace (2 * 0)%nat with 0%nat by reflexivity. replace (2 * 1)%nat with 2%nat by reflexivity.
  replace (2 * 2)%nat with 4%nat by reflexivity. replace (2 * 3)%nat with 6%nat by reflexivity.
  replace (2 * 4)%nat with 8%nat by reflexivity. replace (2 * 5)%nat with 10%nat by reflexivity.
  replace (2 * 6)%nat with 12%nat by reflexivity.
  rewrite !fact_rfact, rf2, rf4, rf6, rf8, rf10, rf12. unfold P2. simpl pow.
  cbn [rfact]. field.
Qed.

Lemma sin_tail6 a : 0 <= a <= 1 -> - (a ^ 15 / 1307674368000) <= sin a - sin_approx a 6 <= 0.
Proof.
  intros [H0 H1].
  assert (HPI : a <= 4) by lra.
  pose proof (pre_sin_bound a 3 H0 HPI) as [L U].
  replace (2 * 3 + 1)%nat with 7%nat in L by reflexivity.
  replace (2 * (3 + 1))%nat with 8%nat in U by reflexivity.
  unfold sin_approx in *. cbn [sum_f_R0] in L, U. unfold sin_term at 8 in L. unfold sin_term at 8 9 in U.
  replace (2 * 7 + 1)%nat with 15%nat in * by reflexivity. replace (2 * 8 + 1)%nat with 17%nat in * by reflexivity.
  rewrite !fact_rfact in L. rewrite !fact_rfact in U. rewrite rf15 in L. rewrite rf15, rf17 in U.
  assert (E7 : (-1) ^ 7 = -1) by (simpl; ring). assert (E8 : (-1) ^ 8 = 1) by (simpl; ring).
  rewrite E7 in L. rewrite E7 in U. rewrite E8 in U.
  assert (Hp15 : 0 <= a ^ 15) by (apply pow_le; lra).
  assert (H17 : a ^ 17 <= a ^ 15).
  { replace (a ^ 17) with (a ^ 15 * (a * a)) by ring. rewrite <- (Rmult_1_r (a ^ 15)) at 2.
    apply Rmult_le_compat_l; [exact Hp15|]. nra. }
  cbn [sum_f_R0]. split; [lra|].
  assert (a ^ 17 / 355687428096000 <= a ^ 15 / 1307674368000) by lra. lra.
Qed.

Lemma cos_tail6 a : 0 <= a <= 1 -> - (a ^ 14 / 87178291200) <= cos a - cos_approx a 6 <= 0.
Proof.
  intros [H0 H1].
  assert (HPI : a <= 2) by lra.
  assert (HPI' : -2 <= a) by lra.
  pose proof (pre_cos_bound a 3 HPI' HPI) as [L U].
  replace (2 * 3 + 1)%nat with 7%nat in L by reflexivity.
  replace (2 * (3 + 1))%nat with 8%nat in U by reflexivity.
  unfold cos_approx in *. cbn [sum_f_R0] in L, U. unfold cos_term at 8 in L. unfold cos_term at 8 9 in U.
  replace (2 * 7)%nat with 14%nat in * by reflexivity. replace (2 * 8)%nat with 16%nat in * by reflexivity.
  rewrite !fact_rfact in L. rewrite !fact_rfact in U. rewrite rf14 in L. rewrite rf14, rf16 in U.
  assert (E7 : (-1) ^ 7 = -1) by (simpl; ring). assert (E8 : (-1) ^ 8 = 1) by (simpl; ring).
  rewrite E7 in L. rewrite E7 in U. rewrite E8 in U.
  assert (Hp14 : 0 <= a ^ 14) by (apply pow_le; lra).
  assert (H16 : a ^ 16 <= a ^ 14).
  { replace (a ^ 16) with (a ^ 14 * (a * a)) by ring. rewrite <- (Rmult_1_r (a ^ 14)) at 2.
    apply Rmult_le_compat_l; [exact Hp14|]. nra. }
  cbn [sum_f_R0]. split; [lra|].
  assert (a ^ 16 / 20922789888000 <= a ^ 14 / 87178291200) by lra. lra.
Qed.

Lemma div_bounds N d B : 0 < d -> - (B * d) <= N <= 0 -> - B <= N / d <= 0 /\ 0 <= - N / d <= B.
Proof.
  intros Hd [L U]. assert (Hi : 0 < / d) by (apply Rinv_0_lt_compat; lra).
  assert (E : d * / d = 1) by (apply Rinv_r; lra). unfold Rdiv.
  assert (E1 : - (B * d) * / d = - B) by (rewrite <- Ropp_mult_distr_l, Rmult_assoc, E; ring).
  pose proof (Rmult_le_compat_r (/ d) _ _ (Rlt_le _ _ Hi) L) as L'. rewrite E1 in L'.
  pose proof (Rmult_le_compat_r (/ d) _ _ (Rlt_le _ _ Hi) U) as U'. rewrite Rmult_0_l in U'.
  repeat split; lra.
Qed.

(* truncation error of stumpff_cs3's series for 0 < z <= 1 (the code uses it for |z| <= 0.1):
   each function is off by at most the first omitted term of its alternating series, with a definite sign *)
Theorem series3_trunc_pos z : 0 < z <= 1 ->
  let '(t0, t1, t2, t3) := series3 RNum z in
  let '(c0, c1, c2, c3) := Ccf z in
  - (z ^ 7 / 87178291200) <= c0 - t0 <= 0 /\
  - (z ^ 7 / 1307674368000) <= c1 - t1 <= 0 /\
  0 <= c2 - t2 <= z ^ 6 / 87178291200 /\
  0 <= c3 - t3 <= z ^ 6 / 1307674368000.
Proof.
  intros [Hz0 Hz1]. rewrite series3_poly. unfold Ccf. destruct (Rlt_dec 0 z) as [_|H]; [|lra].
  unfold Cpos. cbv zeta.
  assert (Hs : 0 < sqrt z) by (apply sqrt_lt_R0; exact Hz0).
  assert (Hzz : z = sqrt z * sqrt z) by (symmetry; apply sqrt_sqrt; lra).
  set (s := sqrt z) in *. clearbody s. subst z.
  assert (Hs1 : s <= 1) by nra.
  pose proof (sin_tail6 s (conj (Rlt_le _ _ Hs) Hs1)) as ST. rewrite sin_approx6 in ST.
  pose proof (cos_tail6 s (conj (Rlt_le _ _ Hs) Hs1)) as CT. rewrite cos_approx6 in CT.
  replace ((s * s) ^ 7) with (s ^ 14) by ring. replace ((s * s) ^ 6) with (s ^ 12) by ring.
  set (p2 := P2 (s * s)) in *. set (p3 := P3 (s * s)) in *.
  split; [exact CT|].
  destruct (div_bounds (sin s - s * (1 - s * s * p3)) s (s ^ 14 / 1307674368000) Hs) as [D1 _].
  { replace (s ^ 14 / 1307674368000 * s) with (s ^ 15 / 1307674368000) by (simpl; field). exact ST. }
  split. { replace (sin s / s - (1 - s * s * p3)) with ((sin s - s * (1 - s * s * p3)) / s) by (field; lra). exact D1. }
  assert (Hss : 0 < s * s) by nra.
  destruct (div_bounds (cos s - (1 - s * s * p2)) (s * s) (s ^ 12 / 87178291200) Hss) as [_ D2].
  { replace (s ^ 12 / 87178291200 * (s * s)) with (s ^ 14 / 87178291200) by (simpl; field). exact CT. }
  split. { replace ((1 - cos s) / (s * s) - p2) with (- (cos s - (1 - s * s * p2)) / (s * s)) by (field; lra). exact D2. }
  assert (Hsss : 0 < s * s * s) by nra.
  destruct (div_bounds (sin s - s * (1 - s * s * p3)) (s * s * s) (s ^ 12 / 1307674368000) Hsss) as [_ D3].
  { replace (s ^ 12 / 1307674368000 * (s * s * s)) with (s ^ 15 / 1307674368000) by (simpl; field). exact ST. }
  replace ((s - sin s) / (s * s * s) - p3) with (- (sin s - s * (1 - s * s * p3)) / (s * s * s)) by (field; lra).
  exact D3.
Qed.

(* numeric form on the range the code uses: 0 < z <= 0.1 *)
Corollary series3_trunc_pos_tenth z : 0 < z <= 1 / 10 ->
  let '(t0, t1, t2, t3) := series3 RNum z in
  let '(c0, c1, c2, c3) := Ccf z in
  Rabs (c0 - t0) <= 12 / 10 ^ 19 /\ Rabs (c1 - t1) <= 8 / 10 ^ 20 /\
  Rabs (c2 - t2) <= 12 / 10 ^ 18 /\ Rabs (c3 - t3) <= 8 / 10 ^ 19.
Proof.
  intros [Hz0 Hz1]. pose proof (series3_trunc_pos z) as H.
  destruct (series3 RNum z) as [[[t0 t1] t2] t3]. destruct (Ccf z) as [[[c0 c1] c2] c3].
  destruct H as ((A0 & A0') & (A1 & A1') & (A2 & A2') & (A3 & A3')); [lra|].
  assert (P6 : z ^ 6 <= 1 / 10 ^ 6).
  { replace (1 / 10 ^ 6) with ((1 / 10) ^ 6) by (simpl; field). apply pow_incr. lra. }
  assert (P7 : z ^ 7 <= 1 / 10 ^ 7).
  { replace (1 / 10 ^ 7) with ((1 / 10) ^ 7) by (simpl; field). apply pow_incr. lra. }
  assert (P6' : 0 <= z ^ 6) by (apply pow_le; lra). assert (P7' : 0 <= z ^ 7) by (apply pow_le; lra).
  simpl pow in *.
  repeat split; apply Rabs_le; split; lra.
Qed.
