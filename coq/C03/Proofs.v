(* C03 proofs over the Coq reals about the model of coq/C03/Model.v:
   A. scalar identities of the universal-variable f-g step (ideal membership, nsatz);
   B. the model's fg_update conserves angular momentum, energy and the eccentricity vector and
      lands at radius r0 + eta0 G1 + zeta0 G2, given the Stumpff/Stiefel identities and the
      universal Kepler equation;
   C. the argument-quartering / doubling loop of stumpff_cs3 preserves the defining identities of
      the Stumpff functions; the closed-form functions (cos/sin, cosh/sinh) satisfy them and the
      four doubling recurrences; stiefel_Gs3's scaling turns them into the G identities;
   D. every loop of the model runs within its fuel (iteration counters bounded), for every Num. *)
From Coq Require Import List ZArith Reals Lra Lia Nsatz Bool.
From RV Require Import Common.Num Common.RealNum C03.Model.
Import ListNotations.
Open Scope R_scope.

(* ------------------------------------------------------------------ A. scalar identities *)
Section Scalar.
Variables (M a ai rho rhoi beta eta X G1 G2 G3 : R).
Hypothesis Ha : a * ai = 1.
Hypothesis Hr : rho * rhoi = 1.
Hypothesis Hrho : rho = a + eta * G1 + (M - beta * a) * G2.
Hypothesis H3 : G1 * G1 = G2 * (2 - beta * G2).
Hypothesis H2 : G1 = X - beta * G3.

Let dt := a * X + eta * G2 + (M - beta * a) * G3.
Let f := - M * G2 * ai.
Let g := dt - M * G3.
Let fd := - M * G1 * ai * rhoi.
Let gd := - M * G2 * rhoi.
Let v2 := 2 * M * ai - beta.
Let eta' := eta * (1 - beta * G2) + (M - beta * a) * G1.

Lemma sc_wronskian : (1 + f) * (1 + gd) - g * fd = 1.
Proof. unfold f, g, fd, gd, dt. nsatz. Qed.

Lemma sc_radius : (1 + f) * (1 + f) * (a * a) + 2 * (1 + f) * g * eta + g * g * v2 = rho * rho.
Proof. unfold f, g, dt, v2. nsatz. Qed.

Lemma sc_speed : fd * fd * (a * a) + 2 * fd * (1 + gd) * eta + (1 + gd) * (1 + gd) * v2 = 2 * M * rhoi - beta.
Proof. unfold fd, gd, v2. nsatz. Qed.

Lemma sc_eta : (1 + f) * fd * (a * a) + ((1 + f) * (1 + gd) + g * fd) * eta + g * (1 + gd) * v2 = eta'.
Proof. unfold f, g, fd, gd, dt, v2, eta'. nsatz. Qed.

Lemma sc_evec_x : (M * rhoi - beta) * (1 + f) - eta' * fd = M * ai - beta.
Proof. unfold f, fd, eta'. nsatz. Qed.

Lemma sc_evec_v : (M * rhoi - beta) * g - eta' * (1 + gd) = - eta.
Proof. unfold g, gd, dt, eta'. nsatz. Qed.
End Scalar.

(* ------------------------------------------------------------------ B. the model's f-g update *)
Definition P6 : Type := (R * R * R * R * R * R)%type.
Definition pos2 (p : P6) : R := let '(x, y, z, _, _, _) := p in x * x + y * y + z * z.
Definition vel2 (p : P6) : R := let '(_, _, _, vx, vy, vz) := p in vx * vx + vy * vy + vz * vz.
Definition xdotv (p : P6) : R := let '(x, y, z, vx, vy, vz) := p in x * vx + y * vy + z * vz.
Definition radius (p : P6) : R := sqrt (pos2 p).
(* angular momentum vector x × v *)
Definition angmom (p : P6) : R * R * R :=
  let '(x, y, z, vx, vy, vz) := p in (y * vz - z * vy, z * vx - x * vz, x * vy - y * vx).
(* specific energy v²/2 - M/|x| *)
Definition energy (M : R) (p : P6) : R := vel2 p / 2 - M / radius p.
(* M * (eccentricity vector) = (v² - M/|x|) x - (x.v) v *)
Definition evecM (M : R) (p : P6) : R * R * R :=
  let '(x, y, z, vx, vy, vz) := p in
  let c := vel2 p - M / radius p in let e := xdotv p in
  (c * x - e * vx, c * y - e * vy, c * z - e * vz).

(* The hypotheses under which the update is exact: the quantities are constrained exactly as the
   code's quantities are (r0, beta, eta0, zeta0 from the state; G0..G3 obey the Stumpff/Stiefel
   identities for this beta and X; X solves the universal Kepler equation for dt; the new radius is
   positive). No sign condition on beta, X or dt. *)
Definition kepler_hyp (p : P6) (M dt r0 beta X G0 G1 G2 G3 : R) : Prop :=
  let eta0 := xdotv p in let zeta0 := M - beta * r0 in
  0 < r0 /\ r0 * r0 = pos2 p /\
  beta = 2 * M * (1 / r0) - vel2 p /\
  G0 = 1 - beta * G2 /\ G1 = X - beta * G3 /\ G1 * G1 = G2 * (1 + G0) /\
  r0 * X + eta0 * G2 + zeta0 * G3 = dt /\
  0 < r0 + eta0 * G1 + zeta0 * G2.

Definition new_radius (p : P6) (M r0 beta G1 G2 : R) : R :=
  r0 + xdotv p * G1 + (M - beta * r0) * G2.

Lemma sqrt_of_square r s : 0 < r -> r * r = s -> sqrt s = r.
Proof. intros Hp <-. apply sqrt_square. lra. Qed.

Lemma fg_generic (x y z vx vy vz f g fd gd : R) :
  let p := (x, y, z, vx, vy, vz) in
  let p' := fg_apply RNum (f, g, fd, gd) p in
  (1 + f) * (1 + gd) - g * fd = 1 ->
  angmom p' = angmom p /\
  pos2 p' = (1 + f) * (1 + f) * pos2 p + 2 * (1 + f) * g * xdotv p + g * g * vel2 p /\
  vel2 p' = fd * fd * pos2 p + 2 * fd * (1 + gd) * xdotv p + (1 + gd) * (1 + gd) * vel2 p /\
  xdotv p' = (1 + f) * fd * pos2 p + ((1 + f) * (1 + gd) + g * fd) * xdotv p + g * (1 + gd) * vel2 p.
Proof.
  cbv zeta. unfold fg_apply, angmom, pos2, vel2, xdotv. cbn [nadd nmul RNum]. intros HW.
  split; [|split; [|split]]; try ring.
  f_equal; [f_equal|]; nsatz.
Qed.

Theorem fg_exact (p : P6) (M dt r0 beta X G0 G1 G2 G3 : R) :
  kepler_hyp p M dt r0 beta X G0 G1 G2 G3 ->
  let r := new_radius p M r0 beta G1 G2 in
  let p' := fg_update RNum M dt (1 / r0) (1 / r) G1 G2 G3 p in
  angmom p' = angmom p /\
  radius p' = r /\
  energy M p' = energy M p /\
  evecM M p' = evecM M p /\
  2 * M * (1 / radius p') - vel2 p' = beta /\
  xdotv p' = xdotv p * G0 + (M - beta * r0) * G1.
Proof.
  unfold kepler_hyp, new_radius. cbv zeta.
  intros (Hr0 & Hr02 & Hb & HG0 & HG1 & Hh & Hk & Hrp).
  set (eta0 := xdotv p) in *. set (r := r0 + eta0 * G1 + (M - beta * r0) * G2) in *.
  assert (Ha : r0 * (1 / r0) = 1) by (field; lra).
  assert (Hr : r * (1 / r) = 1) by (field; lra).
  assert (H3 : G1 * G1 = G2 * (2 - beta * G2)) by (rewrite Hh, HG0; ring).
  assert (Hv2 : vel2 p = 2 * M * (1 / r0) - beta) by lra.
  pose proof (sc_wronskian M r0 (1 / r0) r (1 / r) beta eta0 X G1 G2 G3 Ha Hr eq_refl H3 HG1) as HW.
  pose proof (sc_radius M r0 (1 / r0) r (1 / r) beta eta0 X G1 G2 G3 Ha Hr eq_refl H3 HG1) as HR.
  pose proof (sc_speed M r0 (1 / r0) r (1 / r) beta eta0 X G1 G2 G3 Ha Hr eq_refl H3 HG1) as HS.
  pose proof (sc_eta M r0 (1 / r0) r (1 / r) beta eta0 X G1 G2 G3 Ha Hr eq_refl H3 HG1) as HE.
  pose proof (sc_evec_x M r0 (1 / r0) r (1 / r) beta eta0 X G1 G2 G3 Ha Hr eq_refl H3 HG1) as HX.
  pose proof (sc_evec_v M r0 (1 / r0) r (1 / r) beta eta0 X G1 G2 G3 Ha Hr eq_refl H3 HG1) as HV.
  cbv zeta in HW, HR, HS, HE, HX, HV. rewrite Hk in HW, HR, HE, HV.
  unfold fg_update, fg_coeffs. cbn [nadd nsub nmul nneg RNum].
  set (f := - M * G2 * (1 / r0)) in *. set (g := dt - M * G3) in *.
  set (fd := - M * G1 * (1 / r0) * (1 / r)) in *. set (gd := - M * G2 * (1 / r)) in *.
  destruct p as [[[[[x y] z] vx] vy] vz].
  pose proof (fg_generic x y z vx vy vz f g fd gd HW) as (Hang & Hp2 & Hvv & Hxv).
  cbv zeta in Hang, Hp2, Hvv, Hxv.
  set (p := (x, y, z, vx, vy, vz)) in *. set (p' := fg_apply RNum (f, g, fd, gd) p) in *.
  fold eta0 in Hp2, Hvv, Hxv.
  rewrite <- Hr02 in Hp2, Hvv, Hxv. rewrite Hv2 in Hp2, Hvv, Hxv.
  rewrite HR in Hp2. rewrite HS in Hvv. rewrite HE in Hxv.
  assert (Hrad' : radius p' = r) by (apply sqrt_of_square; [exact Hrp | symmetry; exact Hp2]).
  assert (Hrad : radius p = r0) by (apply sqrt_of_square; [exact Hr0 | exact Hr02]).
  split; [exact Hang|]. split; [exact Hrad'|].
  split; [unfold energy; rewrite Hrad', Hrad, Hvv, Hv2; field; lra|].
  split.
  - unfold evecM. rewrite Hrad', Hrad, Hvv, Hxv. fold eta0. rewrite Hv2.
    unfold p', p, fg_apply. cbn [nadd nmul RNum].
    replace (2 * M * (1 / r) - beta - M / r) with (M * (1 / r) - beta) by (field; lra).
    replace (2 * M * (1 / r0) - beta - M / r0) with (M * (1 / r0) - beta) by (field; lra).
    set (eta' := eta0 * (1 - beta * G2) + (M - beta * r0) * G1) in *.
    set (A := M * (1 / r) - beta) in *.
    f_equal; [f_equal|].
    + replace (A * (x + (f * x + g * vx)) - eta' * (vx + (fd * x + gd * vx)))
        with ((A * (1 + f) - eta' * fd) * x + (A * g - eta' * (1 + gd)) * vx) by ring.
      rewrite HX, HV. ring.
    + replace (A * (y + (f * y + g * vy)) - eta' * (vy + (fd * y + gd * vy)))
        with ((A * (1 + f) - eta' * fd) * y + (A * g - eta' * (1 + gd)) * vy) by ring.
      rewrite HX, HV. ring.
    + replace (A * (z + (f * z + g * vz)) - eta' * (vz + (fd * z + gd * vz)))
        with ((A * (1 + f) - eta' * fd) * z + (A * g - eta' * (1 + gd)) * vz) by ring.
      rewrite HX, HV. ring.
  - split; [rewrite Hrad', Hvv; ring|]. rewrite Hxv, HG0. reflexivity.
Qed.

(* ------------------------------------------------------------------ C. Stumpff identities *)
Definition CS : Type := (R * R * R * R)%type.

(* defining identities of the Stumpff functions c0..c3 at argument z
   (the third one is the half-angle form of c0² + z c1² = 1, valid also at z = 0) *)
Definition cs_inv (z : R) (cs : CS) : Prop :=
  let '(c0, c1, c2, c3) := cs in
  c0 = 1 - z * c2 /\ c1 = 1 - z * c3 /\ c1 * c1 = c2 * (1 + c0).

Lemma cs_inv_pythagoras z c0 c1 c2 c3 : cs_inv z (c0, c1, c2, c3) -> c0 * c0 + z * (c1 * c1) = 1.
Proof. unfold cs_inv. intros (H0 & H1 & H2). nsatz. Qed.

Lemma cs_inv_ext z z' cs : z = z' -> cs_inv z cs -> cs_inv z' cs.
Proof. intros <-. auto. Qed.

(* one pass of the doubling loop of stumpff_cs3 maps the identities at z to the identities at 4z *)
Lemma dbl3_inv z cs : cs_inv z cs -> cs_inv (4 * z) (dbl3 RNum cs).
Proof.
  destruct cs as [[[c0 c1] c2] c3]. unfold cs_inv, dbl3, c_quarter, c_half, cz, ndec.
  cbn [nadd nsub nmul ndiv none nofZ RNum]. intros (H0 & H1 & H2).
  assert (Hz2 : z * c2 = 1 - c0) by lra.
  assert (Hz3 : z * c3 = 1 - c1) by lra.
  assert (Hp : z * (c1 * c1) = 1 - c0 * c0)
    by (rewrite H2; replace (z * (c2 * (1 + c0))) with (z * c2 * (1 + c0)) by ring; rewrite Hz2; ring).
  split; [|split].
  - replace (1 - 4 * z * (c1 * c1 * (1 / 2))) with (1 - 2 * (z * (c1 * c1))) by field.
    rewrite Hp. ring.
  - replace (1 - 4 * z * ((c2 + c0 * c3) * (1 / 4))) with (1 - z * c2 - c0 * (z * c3)) by field.
    rewrite Hz2, Hz3. ring.
  - field.
Qed.

Lemma dbl3_loop_inv n : forall z cs, cs_inv z cs -> cs_inv (4 ^ n * z) (dbl3_loop RNum n cs).
Proof.
  induction n as [|n IH]; intros z cs H; cbn [dbl3_loop].
  - eapply cs_inv_ext; [|exact H]. rewrite pow_O. ring.
  - eapply cs_inv_ext; [|apply IH, dbl3_inv, H]. rewrite <- tech_pow_Rmult. ring.
Qed.

(* the quartering loop over R: on exit z = 4^(number of quarterings) * z' *)
Lemma quarter3_spec fuel : forall z n z' n' h,
  quarter3 RNum fuel z n = (z', n', h) -> (n <= n')%nat /\ z = 4 ^ (n' - n) * z'.
Proof.
  induction fuel as [|f IH]; intros z n z' n' h; cbn [quarter3].
  - intros E. inversion E; subst. rewrite Nat.sub_diag. split; [lia | rewrite pow_O; ring].
  - destruct (nltb RNum (c_tenth RNum) (nabs RNum z)).
    + intros E. apply IH in E. destruct E as [Hle Hz]. split; [lia|].
      replace (n' - n)%nat with (S (n' - S n)) by lia. rewrite <- tech_pow_Rmult.
      unfold cz in Hz. cbn [ndiv nofZ RNum] in Hz.
      replace z with (4 * (z / 4)) by field. rewrite Hz. ring.
    + intros E. inversion E; subst. rewrite Nat.sub_diag. split; [lia | rewrite pow_O; ring].
Qed.

(* over R the quartering loop never runs out of fuel for |z| <= 0.1 * 4^fuel' *)
Lemma quarter3_no_hang f : forall z n z' n' h,
  Rabs z <= 1 / 10 * 4 ^ f -> quarter3 RNum (S f) z n = (z', n', h) -> h = false.
Proof.
  induction f as [|f IH]; intros z n z' n' h Hz; cbn [quarter3].
  - unfold c_tenth, ndec. cbn [nltb nabs ndiv nofZ RNum]. unfold Rltb.
    destruct (Rlt_dec (1 / 10) (Rabs z)) as [Hlt|Hge].
    + rewrite pow_O in Hz. lra.
    + intros E. inversion E. reflexivity.
  - unfold c_tenth, ndec. cbn [nltb nabs ndiv nofZ RNum]. unfold Rltb.
    destruct (Rlt_dec (1 / 10) (Rabs z)) as [Hlt|Hge].
    + intros E. eapply IH; [|exact E]. unfold cz. cbn [nofZ ndiv RNum].
      unfold Rdiv at 1. rewrite Rabs_mult. rewrite (Rabs_pos_eq (/ 4)) by lra.
      rewrite <- tech_pow_Rmult in Hz. lra.
    + intros E. inversion E. reflexivity.
Qed.

(* stumpff_cs3 over R: if the truncated series satisfied the identities at the reduced argument,
   the result satisfies them at the original argument (the doubling phase is exact) *)
Theorem cs3_identities z :
  let '(z', n, _) := quarter3 RNum QFUEL z O in
  cs_inv z' (series3 RNum z') -> cs_inv z (fst (stumpff_cs3 RNum z)).
Proof.
  unfold stumpff_cs3. cbv zeta. cbn [nisnan RNum].
  destruct (quarter3 RNum QFUEL z O) as [[z' n] h] eqn:E.
  intros H. cbn [fst]. apply quarter3_spec in E. destruct E as [_ Hz].
  rewrite Nat.sub_0_r in Hz. eapply cs_inv_ext; [symmetry; exact Hz|].
  apply dbl3_loop_inv, H.
Qed.

(* stiefel_Gs3's scaling: Stumpff identities at beta*X² give the G identities used by fg_exact *)
Lemma stiefel_scaling beta X c0 c1 c2 c3 :
  cs_inv (beta * (X * X)) (c0, c1, c2, c3) ->
  let G0 := c0 in let G1 := c1 * X in let G2 := c2 * (X * X) in let G3 := c3 * (X * X * X) in
  G0 = 1 - beta * G2 /\ G1 = X - beta * G3 /\ G1 * G1 = G2 * (1 + G0).
Proof. unfold cs_inv. intros (H0 & H1 & H2). cbv zeta. split; [|split]; nsatz. Qed.

(* ---- closed forms ---- *)
Definition Cpos (z : R) : CS :=
  let s := sqrt z in (cos s, sin s / s, (1 - cos s) / z, (s - sin s) / (z * s)).
Definition Cneg (z : R) : CS :=
  let s := sqrt (- z) in (cosh s, sinh s / s, (1 - cosh s) / z, (s - sinh s) / (z * s)).
Definition Czero : CS := (1, 1, 1 / 2, 1 / 6).
Definition Ccf (z : R) : CS :=
  if Rlt_dec 0 z then Cpos z else if Rlt_dec z 0 then Cneg z else Czero.

Lemma sqrt_4z z : 0 <= z -> sqrt (4 * z) = 2 * sqrt z.
Proof. intros H. rewrite sqrt_mult by lra. replace 4 with (2 * 2) by ring. rewrite sqrt_square by lra. ring. Qed.

Lemma Cpos_inv z : 0 < z -> cs_inv z (Cpos z).
Proof.
  intros Hz. unfold Cpos, cs_inv. cbv zeta.
  assert (Hs : 0 < sqrt z) by (apply sqrt_lt_R0; exact Hz).
  assert (Hzz : z = sqrt z * sqrt z) by (symmetry; apply sqrt_sqrt; lra).
  set (s := sqrt z) in *. clearbody s. subst z.
  pose proof (sin2_cos2 s) as Hsc. unfold Rsqr in Hsc.
  set (c := cos s) in *. set (d := sin s) in *. clearbody c d.
  split; [|split]; field_simplify_eq; try lra; nsatz.
Qed.

Lemma Cpos_dbl z : 0 < z -> dbl3 RNum (Cpos z) = Cpos (4 * z).
Proof.
  intros Hz. unfold Cpos, dbl3, c_quarter, c_half, cz, ndec. cbv zeta.
  cbn [nadd nsub nmul ndiv none nofZ RNum].
  rewrite sqrt_4z by lra.
  assert (Hs : 0 < sqrt z) by (apply sqrt_lt_R0; exact Hz).
  assert (Hzz : z = sqrt z * sqrt z) by (symmetry; apply sqrt_sqrt; lra).
  set (s := sqrt z) in *. clearbody s. subst z.
  rewrite cos_2a_cos, sin_2a.
  pose proof (sin2_cos2 s) as Hsc. unfold Rsqr in Hsc.
  set (c := cos s) in *. set (d := sin s) in *. clearbody c d.
  f_equal; [f_equal; [f_equal|]|]; field_simplify_eq; try lra; nsatz.
Qed.

Lemma exp_inv_mul s : exp s * exp (- s) = 1.
Proof. rewrite <- exp_plus. replace (s + - s) with 0 by ring. apply exp_0. Qed.

Lemma Cneg_inv z : z < 0 -> cs_inv z (Cneg z).
Proof.
  intros Hz. unfold Cneg, cs_inv, cosh, sinh. cbv zeta.
  assert (Hs : 0 < sqrt (- z)) by (apply sqrt_lt_R0; lra).
  assert (Hzz : z = - (sqrt (- z) * sqrt (- z))) by (rewrite sqrt_sqrt; lra).
  set (s := sqrt (- z)) in *. clearbody s. subst z.
  pose proof (exp_inv_mul s) as He.
  set (E := exp s) in *. set (F := exp (- s)) in *. clearbody E F.
  split; [|split]; field_simplify_eq; try lra; nsatz.
Qed.

Lemma Cneg_dbl z : z < 0 -> dbl3 RNum (Cneg z) = Cneg (4 * z).
Proof.
  intros Hz. unfold Cneg, dbl3, c_quarter, c_half, cz, ndec. cbv zeta.
  cbn [nadd nsub nmul ndiv none nofZ RNum].
  replace (- (4 * z)) with (4 * - z) by ring. rewrite sqrt_4z by lra.
  assert (Hs : 0 < sqrt (- z)) by (apply sqrt_lt_R0; lra).
  assert (Hzz : z = - (sqrt (- z) * sqrt (- z))) by (rewrite sqrt_sqrt; lra).
  set (s := sqrt (- z)) in *. clearbody s. subst z.
  unfold cosh, sinh.
  replace (- (2 * s)) with (- s + - s) by ring. replace (2 * s) with (s + s) by ring.
  rewrite !exp_plus.
  pose proof (exp_inv_mul s) as He.
  set (E := exp s) in *. set (F := exp (- s)) in *. clearbody E F.
  f_equal; [f_equal; [f_equal|]|]; field_simplify_eq; try lra; nsatz.
Qed.

Theorem Ccf_identities z : cs_inv z (Ccf z).
Proof.
  unfold Ccf. destruct (Rlt_dec 0 z); [apply Cpos_inv; lra|].
  destruct (Rlt_dec z 0); [apply Cneg_inv; lra|].
  assert (z = 0) by lra. subst z. unfold Czero, cs_inv. lra.
Qed.

(* the four recurrences of stumpff_cs3's doubling loop are identities of the closed-form functions *)
Theorem Ccf_doubling z : dbl3 RNum (Ccf z) = Ccf (4 * z).
Proof.
  unfold Ccf. destruct (Rlt_dec 0 z); destruct (Rlt_dec 0 (4 * z)); try lra.
  - apply Cpos_dbl; lra.
  - destruct (Rlt_dec z 0); destruct (Rlt_dec (4 * z) 0); try lra.
    + apply Cneg_dbl; lra.
    + unfold Czero, dbl3, c_quarter, c_half, cz, ndec. cbn [nadd nsub nmul ndiv none nofZ RNum].
      f_equal; [f_equal; [f_equal|]|]; field.
Qed.

(* closed-form Stiefel functions G_n(beta, X) = X^n c_n(beta X²) satisfy the hypotheses of fg_exact *)
Definition Gcf (beta X : R) : CS :=
  let '(c0, c1, c2, c3) := Ccf (beta * (X * X)) in (c0, c1 * X, c2 * (X * X), c3 * (X * X * X)).

Theorem Gcf_identities beta X :
  let '(G0, G1, G2, G3) := Gcf beta X in
  G0 = 1 - beta * G2 /\ G1 = X - beta * G3 /\ G1 * G1 = G2 * (1 + G0).
Proof.
  unfold Gcf. pose proof (Ccf_identities (beta * (X * X))) as H.
  destruct (Ccf (beta * (X * X))) as [[[c0 c1] c2] c3].
  apply (stiefel_scaling beta X c0 c1 c2 c3 H).
Qed.

(* ------------------------------------------------------------------ D. bounded iteration *)
Section Bounds.
Context {T : Type} (N : Num T).
Variables (beta r0 eta0 zeta0 dt : T).

Lemma newton_loop_cnt k : forall X oldX Gs ri cnt hang,
  (snd (fst (newton_loop N beta r0 eta0 zeta0 dt k X oldX Gs ri cnt hang)) <= cnt + k)%nat.
Proof.
  induction k as [|k IH]; intros X oldX Gs ri cnt hang; cbn [newton_loop].
  - cbn. lia.
  - destruct (newton_step N beta r0 eta0 zeta0 dt X) as [[[X' Gs'] ri'] h].
    destruct (orb _ _).
    + cbn. lia.
    + specialize (IH X' X Gs' ri' (S cnt) (orb hang h)). lia.
Qed.

Lemma quartic_loop_cnt k : forall X prev Gs cnt hang,
  (snd (fst (quartic_loop N beta r0 eta0 zeta0 dt k X prev Gs cnt hang)) <= cnt + k)%nat.
Proof.
  induction k as [|k IH]; intros X prev Gs cnt hang; cbn [quartic_loop].
  - cbn. lia.
  - destruct (quartic_step N beta r0 eta0 zeta0 dt X) as [[X' Gs'] h].
    destruct (existsb _ _).
    + cbn. lia.
    + specialize (IH X' (X' :: prev) Gs' (S cnt) (orb hang h)). lia.
Qed.

Lemma bisect_loop_cnt sf fuel : forall X Xmin Xmax Gs cnt hang,
  (snd (fst (fst (bisect_loop N beta r0 eta0 zeta0 dt sf fuel X Xmin Xmax Gs cnt hang))) <= cnt + fuel)%nat.
Proof.
  induction fuel as [|f IH]; intros X Xmin Xmax Gs cnt hang; cbn [bisect_loop].
  - cbn. lia.
  - destruct (stiefel_Gs3 N beta X) as [[[[G0 G1] G2] G3] h].
    destruct (nltb N _ _).
    + match goal with |- context [bisect_loop N beta r0 eta0 zeta0 dt sf f ?a ?b ?c ?d ?e ?g] =>
        specialize (IH a b c d e g) end. lia.
    + cbn. lia.
Qed.

Lemma main_phase_cnt uq M X1 oldX Gs1 ri1 h1 :
  (snd (fst (main_phase N uq beta r0 eta0 zeta0 dt M X1 oldX Gs1 ri1 h1)) <= 63)%nat.
Proof.
  unfold main_phase. destruct uq.
  - cbv zeta.
    match goal with |- context [quartic_loop N beta r0 eta0 zeta0 dt ?k ?a ?b ?c ?d ?e] =>
      pose proof (quartic_loop_cnt k a b c d e) as H'; destruct (quartic_loop N beta r0 eta0 zeta0 dt k a b c d e)
        as [[[[Xr [[[G0 G1] G2] G3]] cv] cnt] h] end.
    cbn in *. exact H'.
  - pose proof (newton_loop_cnt (Nat.pred NMAX_NEWT) X1 oldX Gs1 ri1 O h1) as H. cbn in *. lia.
Qed.

Lemma bisection_phase_cnt flo ell M v2 Xpp invp Gs2 h2 :
  (snd (fst (fst (bisection_phase N flo ell beta r0 eta0 zeta0 dt M v2 Xpp invp Gs2 h2))) <= BFUEL)%nat.
Proof.
  unfold bisection_phase.
  destruct ell; [|destruct (nltb N dt (nzero N))]; cbv zeta;
  match goal with |- context [bisect_loop N beta r0 eta0 zeta0 dt ?sf ?k ?a ?b ?c ?d ?e ?g] =>
    pose proof (bisect_loop_cnt sf k a b c d e g) as H'; destruct (bisect_loop N beta r0 eta0 zeta0 dt sf k a b c d e g)
      as [[[[Xr [[[G0 G1] G2] G3]] cnt] h] oof] end;
  cbn [fst snd] in *; lia.
Qed.
End Bounds.

(* every loop of reb_whfast_kepler_solver's model stays within its counter, for every arithmetic *)
Theorem solver_iteration_bounds {T} (N : Num T) twopi flo p M dt :
  let i := snd (kepler_solver N twopi flo p M dt) in
  (k_iters i <= 63 /\ k_biters i <= BFUEL)%nat.
Proof.
  cbv zeta. unfold kepler_solver. destruct p as [[[[[x y] z] vx] vy] vz]. cbv zeta.
  match goal with |- context [newton_step N ?a ?b ?c ?d ?e ?f] =>
    destruct (newton_step N a b c d e f) as [[[X1 Gs1] ri1] h1] end.
  match goal with |- context [main_phase N ?uq ?a ?b ?c ?d ?e ?M ?g ?h ?i ?j ?k] =>
    pose proof (main_phase_cnt N a b c d e uq M g h i j k) as Hm;
    destruct (main_phase N uq a b c d e M g h i j k) as [[[[[X2 Gs2] ri2] conv] iters] h2] end.
  cbn [fst snd] in Hm.
  destruct conv.
  - destruct Gs2 as [[[G0 G1] G2] G3]. cbn [snd k_iters k_biters]. split; [exact Hm | unfold BFUEL; lia].
  - match goal with |- context [bisection_phase N ?fl ?el ?a ?b ?c ?d ?e ?M ?v ?xp ?ip ?g ?h] =>
      pose proof (bisection_phase_cnt N a b c d e fl el M v xp ip g h) as Hb;
      destruct (bisection_phase N fl el a b c d e M v xp ip g h) as [[[[[X3 Gs3] ri3] biters] h3] bfuel] end.
    cbn [fst snd] in Hb. destruct Gs3 as [[[G0 G1] G2] G3]. cbn [snd k_iters k_biters]. split; assumption.
Qed.

(* one bisection step halves the bracket (over R) *)
Lemma bisect_halves (Xmin Xmax : R) (b : bool) :
  let X := (Xmax + Xmin) / 2 in
  let Xmax' := if b then X else Xmax in
  let Xmin' := if b then Xmin else X in
  Xmax' - Xmin' = (Xmax - Xmin) / 2.
Proof. destruct b; cbv zeta; field. Qed.

(* fg_exact instantiated with the closed-form Stiefel functions: the only remaining hypotheses are
   that r0 is the radius, that X solves the universal Kepler equation, and that the new radius is > 0 *)
Theorem fg_exact_closed_form (p : P6) (M dt r0 X : R) :
  let beta := 2 * M * (1 / r0) - vel2 p in
  let '(G0, G1, G2, G3) := Gcf beta X in
  0 < r0 -> r0 * r0 = pos2 p ->
  r0 * X + xdotv p * G2 + (M - beta * r0) * G3 = dt ->
  0 < new_radius p M r0 beta G1 G2 ->
  let p' := fg_update RNum M dt (1 / r0) (1 / new_radius p M r0 beta G1 G2) G1 G2 G3 p in
  angmom p' = angmom p /\ radius p' = new_radius p M r0 beta G1 G2 /\
  energy M p' = energy M p /\ evecM M p' = evecM M p.
Proof.
  cbv zeta. pose proof (Gcf_identities (2 * M * (1 / r0) - vel2 p) X) as HG.
  destruct (Gcf (2 * M * (1 / r0) - vel2 p) X) as [[[G0 G1] G2] G3].
  destruct HG as (H0 & H1 & H2). intros Hr0 Hr02 Hk Hrp.
  pose proof (fg_exact p M dt r0 (2 * M * (1 / r0) - vel2 p) X G0 G1 G2 G3) as H.
  cbv zeta in H. unfold kepler_hyp in H. cbv zeta in H.
  destruct H as (A & B & C & D & _); [repeat split; assumption|].
  repeat split; assumption.
Qed.
