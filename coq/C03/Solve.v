(* C03 round 3: existence and uniqueness of the solution X of the universal Kepler equation for elliptic orbits
   (beta > 0, M > 0, non-zero angular momentum): F(X) = r0 X + eta0 G2(X) + zeta0 G3(X) is continuous, strictly
   increasing (F' = r >= pericentre distance > 0, Sundman) and unbounded, so F(X) = dt has exactly one solution.
   This makes the exact Kepler step a FUNCTION kflow on that domain and the group law an equation. *)
From Coq Require Import Reals Lra Lia Nsatz.
From Coquelicot Require Import Coquelicot.
From RV Require Import Common.Num Common.RealNum C03.Model C03.Proofs C03.Flow C03.Derivs.
Open Scope R_scope.

Definition Fk (beta r0 eta0 M X : R) : R := r0 * X + eta0 * G2d beta X + (M - beta * r0) * G3d beta X.
Definition rk (beta r0 eta0 M X : R) : R := r0 + eta0 * G1d beta X + (M - beta * r0) * G2d beta X.

Lemma Gdir_proj beta X : Gdir beta X = (G0d beta X, G1d beta X, G2d beta X, G3d beta X).
Proof. unfold G0d, G1d, G2d, G3d. destruct (Gdir beta X) as [[[a b] c] d]. reflexivity. Qed.

Lemma Gd_pos beta X : 0 < beta ->
  G0d beta X = cos (sqrt beta * X) /\ G1d beta X = sin (sqrt beta * X) / sqrt beta /\
  G2d beta X = (1 - cos (sqrt beta * X)) / beta /\
  G3d beta X = (X - sin (sqrt beta * X) / sqrt beta) / beta.
Proof. intros H. unfold G0d, G1d, G2d, G3d, Gdir. destruct (Rlt_dec 0 beta); [|lra]. cbn. auto. Qed.

Lemma Fk_derive beta r0 eta0 M X : is_derive (Fk beta r0 eta0 M) X (rk beta r0 eta0 M X).
Proof. apply sundman. Qed.

Lemma Fk_continuity beta r0 eta0 M : continuity (Fk beta r0 eta0 M).
Proof.
  intros x. apply derivable_continuous_pt.
  exists (rk beta r0 eta0 M x). apply is_derive_Reals. apply Fk_derive.
Qed.

(* r(X) > 0 along the whole orbit: r = A + B cos + C sin with A^2 - B^2 - C^2 = h2/beta > 0 *)
Lemma rk_pos beta r0 eta0 M X : 0 < beta -> 0 < M ->
  0 < r0 * (2 * M - beta * r0) - eta0 * eta0 -> 0 < rk beta r0 eta0 M X.
Proof.
  intros Hb HM Hh. unfold rk. destruct (Gd_pos beta X Hb) as (_ & E1 & E2 & _). rewrite E1, E2.
  assert (Hs : 0 < sqrt beta) by (apply sqrt_lt_R0; lra).
  assert (Hbb : beta = sqrt beta * sqrt beta) by (symmetry; apply sqrt_sqrt; lra).
  set (s := sqrt beta) in *. clearbody s. subst beta.
  pose proof (sin2_cos2 (s * X)) as Hsc. unfold Rsqr in Hsc.
  set (c := cos (s * X)) in *. set (d := sin (s * X)) in *. clearbody c d.
  (* multiply by s*s > 0 *)
  assert (Hgoal : 0 < (r0 + eta0 * (d / s) + (M - s * s * r0) * ((1 - c) / (s * s))) * (s * s)).
  { replace ((r0 + eta0 * (d / s) + (M - s * s * r0) * ((1 - c) / (s * s))) * (s * s))
      with (M + (s * s * r0 - M) * c + (eta0 * s) * d) by (field; lra).
    set (B := s * s * r0 - M) in *. set (C := eta0 * s) in *.
    assert (HABC : B * B + C * C < M * M).
    { unfold B, C. assert (0 < s * s) by nra. nra. }
    assert (Hcs : (B * c + C * d) * (B * c + C * d) <= B * B + C * C).
    { assert (E : B * B + C * C - (B * c + C * d) * (B * c + C * d) = (B * d - C * c) * (B * d - C * c)).
      { replace (B * B + C * C) with ((B * B + C * C) * (d * d + c * c)) by (rewrite Hsc; ring). ring. }
      pose proof (Rle_0_sqr (B * d - C * c)) as Q. unfold Rsqr in Q. lra. }
    assert (Hlt : (B * c + C * d) * (B * c + C * d) < M * M) by lra.
    destruct (Rle_dec 0 (B * c + C * d)); [lra|]. nra. }
  assert (0 < s * s) by nra. nra.
Qed.

Lemma Fk_inj beta r0 eta0 M X Y : 0 < beta -> 0 < M ->
  0 < r0 * (2 * M - beta * r0) - eta0 * eta0 ->
  Fk beta r0 eta0 M X = Fk beta r0 eta0 M Y -> X = Y.
Proof.
  intros Hb HM Hh E.
  destruct (MVT_gen (Fk beta r0 eta0 M) X Y (rk beta r0 eta0 M)) as [c [_ Hc]].
  - intros x _. apply Fk_derive.
  - intros x _. apply Fk_continuity.
  - rewrite E in Hc. pose proof (rk_pos beta r0 eta0 M c Hb HM Hh) as Hr.
    replace (Fk beta r0 eta0 M Y - Fk beta r0 eta0 M Y) with 0 in Hc by ring.
    symmetry in Hc. apply Rmult_integral in Hc. destruct Hc; lra.
Qed.

Lemma prod_bound a b i k : 0 <= a -> 0 <= i -> b <= k -> a * (b * i) <= k * a * i.
Proof. intros Ha Hi Hb. assert (0 <= a * i) by nra. nra. Qed.

(* a-priori bracket: F(X) = (M/beta) X + E(X), |E| <= Kb *)
Definition Kb (beta r0 eta0 M : R) : R := 2 * Rabs eta0 / beta + Rabs (M - beta * r0) / (sqrt beta * beta) + 1.

Lemma Fk_linear_bounds beta r0 eta0 M X : 0 < beta -> 0 < M ->
  M / beta * X - Kb beta r0 eta0 M < Fk beta r0 eta0 M X < M / beta * X + Kb beta r0 eta0 M.
Proof.
  intros Hb HM. unfold Fk, Kb. destruct (Gd_pos beta X Hb) as (_ & _ & E2 & E3). rewrite E2, E3.
  assert (Hs : 0 < sqrt beta) by (apply sqrt_lt_R0; lra).
  set (s := sqrt beta) in *. set (zeta0 := M - beta * r0) in *.
  pose proof (COS_bound (s * X)) as [Hc1 Hc2]. pose proof (SIN_bound (s * X)) as [Hd1 Hd2].
  set (c := cos (s * X)) in *. set (d := sin (s * X)) in *. clearbody c d.
  replace (r0 * X + eta0 * ((1 - c) / beta) + zeta0 * ((X - d / s) / beta))
    with (M / beta * X + (eta0 * ((1 - c) / beta) - zeta0 * (d / (s * beta)))) by (unfold zeta0; field; lra).
  assert (H1 : Rabs (eta0 * ((1 - c) / beta)) <= 2 * Rabs eta0 / beta).
  { rewrite Rabs_mult. unfold Rdiv. rewrite Rabs_mult, Rabs_inv, (Rabs_pos_eq beta) by lra.
    assert (Rabs (1 - c) <= 2) by (apply Rabs_le; lra).
    assert (0 < / beta) by (apply Rinv_0_lt_compat; lra). pose proof (Rabs_pos eta0).
    apply prod_bound; lra. }
  assert (H2 : Rabs (zeta0 * (d / (s * beta))) <= Rabs zeta0 / (s * beta)).
  { rewrite Rabs_mult. unfold Rdiv. rewrite Rabs_mult, Rabs_inv, (Rabs_pos_eq (s * beta)) by nra.
    assert (Rabs d <= 1) by (apply Rabs_le; lra).
    assert (0 < / (s * beta)) by (apply Rinv_0_lt_compat; nra). pose proof (Rabs_pos zeta0).
    replace (Rabs zeta0 * / (s * beta)) with (1 * Rabs zeta0 * / (s * beta)) by ring. apply prod_bound; lra. }
  pose proof (Rle_abs (eta0 * ((1 - c) / beta))). pose proof (Rle_abs (- (eta0 * ((1 - c) / beta)))) as Q1.
  rewrite Rabs_Ropp in Q1.
  pose proof (Rle_abs (zeta0 * (d / (s * beta)))). pose proof (Rle_abs (- (zeta0 * (d / (s * beta))))) as Q2.
  rewrite Rabs_Ropp in Q2. split; lra.
Qed.

Definition Xlo (beta r0 eta0 M dt : R) : R := (dt - Kb beta r0 eta0 M) * beta / M.
Definition Xhi (beta r0 eta0 M dt : R) : R := (dt + Kb beta r0 eta0 M) * beta / M.

(* the solution, as a total function (0 outside the domain) *)
Definition solveX (beta r0 eta0 M dt : R) : R :=
  let F := Fk beta r0 eta0 M in
  let a := Xlo beta r0 eta0 M dt in let b := Xhi beta r0 eta0 M dt in
  match Rle_dec (Rmin (F a) (F b)) dt, Rle_dec dt (Rmax (F a) (F b)) with
  | left H1, left H2 => proj1_sig (IVT_gen F a b dt (Fk_continuity beta r0 eta0 M) (conj H1 H2))
  | _, _ => 0
  end.

Theorem solveX_spec beta r0 eta0 M dt : 0 < beta -> 0 < M -> Fk beta r0 eta0 M (solveX beta r0 eta0 M dt) = dt.
Proof.
  intros Hb HM. unfold solveX. cbv zeta.
  pose proof (Fk_linear_bounds beta r0 eta0 M (Xlo beta r0 eta0 M dt) Hb HM) as [_ La].
  pose proof (Fk_linear_bounds beta r0 eta0 M (Xhi beta r0 eta0 M dt) Hb HM) as [Lb _].
  assert (Ea : M / beta * Xlo beta r0 eta0 M dt = dt - Kb beta r0 eta0 M) by (unfold Xlo; field; lra).
  assert (Eb : M / beta * Xhi beta r0 eta0 M dt = dt + Kb beta r0 eta0 M) by (unfold Xhi; field; lra).
  rewrite Ea in La. rewrite Eb in Lb.
  destruct (Rle_dec _ dt) as [H1|H1].
  - destruct (Rle_dec dt _) as [H2|H2].
    + destruct (IVT_gen _ _ _ _ _ _) as [x [Hx0 Hx]]. cbn [proj1_sig]. exact Hx.
    + exfalso. apply H2. eapply Rle_trans; [|apply Rmax_r]. lra.
  - exfalso. apply H1. eapply Rle_trans; [apply Rmin_l|]. lra.
Qed.

Theorem solveX_unique beta r0 eta0 M dt X : 0 < beta -> 0 < M ->
  0 < r0 * (2 * M - beta * r0) - eta0 * eta0 ->
  Fk beta r0 eta0 M X = dt -> X = solveX beta r0 eta0 M dt.
Proof.
  intros Hb HM Hh E. apply (Fk_inj beta r0 eta0 M); auto. rewrite solveX_spec; auto.
Qed.

(* ------------------------------------------------------------------ the exact Kepler flow as a function *)
Definition h2of (p : P6) : R := pos2 p * vel2 p - xdotv p * xdotv p.      (* |x × v|² *)
Definition ell_dom (M : R) (p : P6) : Prop :=
  0 < M /\ 0 < radius p /\ 0 < 2 * M * (1 / radius p) - vel2 p /\ 0 < h2of p.

Definition kbeta (M : R) (p : P6) : R := 2 * M * (1 / radius p) - vel2 p.
Definition kX (M dt : R) (p : P6) : R := solveX (kbeta M p) (radius p) (xdotv p) M dt.
Definition kstep (M dt X : R) (p : P6) : P6 :=
  let r0 := radius p in let beta := kbeta M p in
  fg_update RNum M dt (1 / r0) (1 / new_radius p M r0 beta (G1d beta X) (G2d beta X))
            (G1d beta X) (G2d beta X) (G3d beta X) p.
Definition kflow (M dt : R) (p : P6) : P6 := kstep M dt (kX M dt p) p.

Lemma pos2_nonneg p : 0 <= pos2 p.
Proof. destruct p as [[[[[x y] z] vx] vy] vz]. unfold pos2. nra. Qed.

Lemma h2_angmom p : h2of p = let '(hx, hy, hz) := angmom p in hx * hx + hy * hy + hz * hz.
Proof. destruct p as [[[[[x y] z] vx] vy] vz]. unfold h2of, pos2, vel2, xdotv, angmom. ring. Qed.

Lemma kepler_hyp_of_solution M dt p X : ell_dom M p ->
  Fk (kbeta M p) (radius p) (xdotv p) M X = dt ->
  kepler_hyp p M dt (radius p) (kbeta M p) X
    (G0d (kbeta M p) X) (G1d (kbeta M p) X) (G2d (kbeta M p) X) (G3d (kbeta M p) X).
Proof.
  intros (HM & Hr & Hb & Hh) HF. fold (kbeta M p) in Hb.
  assert (Hsq : radius p * radius p = pos2 p) by (apply sqrt_sqrt, pos2_nonneg).
  pose proof (Gdir_identities (kbeta M p) X) as HG. rewrite Gdir_proj in HG. destruct HG as (I0 & I1 & I2).
  unfold kepler_hyp. cbv zeta. repeat split; try assumption; try reflexivity.
  apply (rk_pos (kbeta M p) (radius p) (xdotv p) M X Hb HM).
  replace (radius p * (2 * M - kbeta M p * radius p) - xdotv p * xdotv p) with (h2of p); [exact Hh|].
  unfold h2of, kbeta. rewrite <- Hsq. field. lra.
Qed.

Theorem kflow_exact M dt p : ell_dom M p -> exact_step M dt p (kflow M dt p).
Proof.
  intros D. pose proof D as (HM & Hr & Hb & Hh). fold (kbeta M p) in Hb.
  pose proof (solveX_spec (kbeta M p) (radius p) (xdotv p) M dt Hb HM) as HF. fold (kX M dt p) in HF.
  exists (radius p), (kbeta M p), (kX M dt p).
  eexists _, _, _, _. split; [apply kepler_hyp_of_solution; assumption|]. reflexivity.
Qed.

(* uniqueness: ANY solution X of the universal Kepler equation (closed-form G's) gives the same new state *)
Theorem kflow_unique M dt p X : ell_dom M p ->
  Fk (kbeta M p) (radius p) (xdotv p) M X = dt -> kstep M dt X p = kflow M dt p.
Proof.
  intros (HM & Hr & Hb & Hh) HF. fold (kbeta M p) in Hb. unfold kflow. f_equal.
  apply solveX_unique; auto.
  replace (radius p * (2 * M - kbeta M p * radius p) - xdotv p * xdotv p) with (h2of p); [exact Hh|].
  assert (Hsq : radius p * radius p = pos2 p) by (apply sqrt_sqrt, pos2_nonneg).
  unfold h2of, kbeta. rewrite <- Hsq. field. lra.
Qed.

Lemma kflow_facts M dt p : ell_dom M p ->
  let p' := kflow M dt p in
  angmom p' = angmom p /\ kbeta M p' = kbeta M p /\ energy M p' = energy M p /\ evecM M p' = evecM M p /\
  ell_dom M p'.
Proof.
  intros D. pose proof D as (HM & Hr & Hb & Hh). fold (kbeta M p) in Hb. cbv zeta.
  pose proof (solveX_spec (kbeta M p) (radius p) (xdotv p) M dt Hb HM) as HF. fold (kX M dt p) in HF.
  pose proof (kepler_hyp_of_solution M dt p (kX M dt p) D HF) as KH.
  pose proof (fg_exact p M dt _ _ _ _ _ _ _ KH) as E. cbv zeta in E.
  fold (kstep M dt (kX M dt p) p) in E. fold (kflow M dt p) in E.
  destruct E as (Ea & Erad & Een & Eev & Eb & _).
  assert (Hrp : 0 < radius (kflow M dt p)).
  { rewrite Erad. unfold kepler_hyp in KH. cbv zeta in KH. unfold new_radius. tauto. }
  split; [exact Ea|]. split; [exact Eb|]. split; [exact Een|]. split; [exact Eev|].
  unfold ell_dom. rewrite Eb.
  repeat split; try assumption. rewrite h2_angmom, Ea, <- h2_angmom. exact Hh.
Qed.

(* the group law as an equation between states *)
Theorem kflow_group M dt1 dt2 p : ell_dom M p ->
  kflow M dt2 (kflow M dt1 p) = kflow M (dt1 + dt2) p.
Proof.
  intros D. pose proof D as (HM & Hr & Hb & Hh). fold (kbeta M p) in Hb.
  pose proof (kflow_facts M dt1 p D) as F1. cbv zeta in F1. destruct F1 as (_ & Eb1 & _ & _ & D1).
  set (p1 := kflow M dt1 p) in *.
  pose proof D1 as (_ & Hr1 & Hb1 & _). fold (kbeta M p1) in Hb1.
  pose proof (solveX_spec (kbeta M p) (radius p) (xdotv p) M dt1 Hb HM) as HF1. fold (kX M dt1 p) in HF1.
  pose proof (solveX_spec (kbeta M p1) (radius p1) (xdotv p1) M dt2 Hb1 HM) as HF2. fold (kX M dt2 p1) in HF2.
  pose proof (kepler_hyp_of_solution M dt1 p _ D HF1) as K1.
  pose proof (kepler_hyp_of_solution M dt2 p1 _ D1 HF2) as K2.
  pose proof (flow_group_explicit p M dt1 dt2 (radius p) (kbeta M p) (kX M dt1 p) (kX M dt2 p1)
                (G0d (kbeta M p) (kX M dt1 p)) (G1d (kbeta M p) (kX M dt1 p))
                (G2d (kbeta M p) (kX M dt1 p)) (G3d (kbeta M p) (kX M dt1 p))
                (radius p1) (kbeta M p1)
                (G0d (kbeta M p1) (kX M dt2 p1)) (G1d (kbeta M p1) (kX M dt2 p1))
                (G2d (kbeta M p1) (kX M dt2 p1)) (G3d (kbeta M p1) (kX M dt2 p1)) K1) as G.
  cbv zeta in G. fold (kstep M dt1 (kX M dt1 p) p) in G. fold (kflow M dt1 p) in G. fold p1 in G.
  specialize (G K2). unfold Gadd in G. destruct G as (_ & Eb & KC & EP).
  (* the combined G's are the closed forms at X1+X2 *)
  pose proof (Gdir_addition (kbeta M p) (kX M dt1 p) (kX M dt2 p1)) as GA.
  assert (GB : Gdir (kbeta M p1) (kX M dt2 p1) = Gdir (kbeta M p) (kX M dt2 p1)) by (rewrite Eb1; reflexivity).
  rewrite <- GB in GA.
  rewrite (Gdir_proj (kbeta M p) (kX M dt1 p)), (Gdir_proj (kbeta M p1) (kX M dt2 p1)),
          (Gdir_proj (kbeta M p) (kX M dt1 p + kX M dt2 p1)) in GA.
  unfold Gadd in GA. inversion GA as [[GA0 GA1 GA2 GA3]].
  rewrite <- GA1, <- GA2, <- GA3 in EP. rewrite <- GA0, <- GA1, <- GA2, <- GA3 in KC.
  fold (kstep M dt2 (kX M dt2 p1) p1) in EP. fold (kflow M dt2 p1) in EP.
  rewrite EP. fold (kstep M (dt1 + dt2) (kX M dt1 p + kX M dt2 p1) p).
  apply kflow_unique; [exact D|].
  unfold kepler_hyp in KC. cbv zeta in KC. unfold Fk. tauto.
Qed.

(* ------------------------------------------------------------------ Newton's iteration on F *)
(* With exact closed-form G's the Newton iterate N(X) = X - (F(X) - dt)/F'(X) contracts the error by (Q-q)/q whenever
   q <= r <= Q along the orbit (q, Q: peri/apocentre distances): for Q < 2q every Newton step from anywhere moves
   closer to the root.  (The model's newton_step is this iterate with the series/doubling G's: Extra.newton_step_R.) *)
Theorem newton_contraction beta r0 eta0 M dt Xs X q Q : 0 < q ->
  (forall xi, q <= rk beta r0 eta0 M xi <= Q) ->
  Fk beta r0 eta0 M Xs = dt ->
  let N := X - (Fk beta r0 eta0 M X - dt) / rk beta r0 eta0 M X in
  Rabs (N - Xs) <= (Q - q) / q * Rabs (X - Xs).
Proof.
  intros Hq Hr Hs. cbv zeta.
  destruct (MVT_gen (Fk beta r0 eta0 M) Xs X (rk beta r0 eta0 M)) as [c [_ Hc]].
  - intros x _. apply Fk_derive.
  - intros x _. apply Fk_continuity.
  - rewrite Hs in Hc. rewrite Hc.
    pose proof (Hr X) as [HX1 HX2]. pose proof (Hr c) as [Hc1 Hc2].
    set (rX := rk beta r0 eta0 M X) in *. set (rc := rk beta r0 eta0 M c) in *.
    replace (X - rc * (X - Xs) / rX - Xs) with ((X - Xs) * ((rX - rc) / rX)) by (field; lra).
    rewrite Rabs_mult, Rmult_comm. apply Rmult_le_compat_r; [apply Rabs_pos|].
    unfold Rdiv. rewrite Rabs_mult, Rabs_inv, (Rabs_pos_eq rX) by lra.
    assert (H1 : Rabs (rX - rc) <= Q - q) by (apply Rabs_le; lra).
    assert (H2 : / rX <= / q) by (apply Rinv_le_contravar; lra).
    assert (H3 : 0 < / rX) by (apply Rinv_0_lt_compat; lra).
    pose proof (Rabs_pos (rX - rc)). apply Rmult_le_compat; lra.
Qed.

(* ------------------------------------------------------------------ zero step, domain invariance, inverse *)
Theorem kflow_zero M p : ell_dom M p -> kflow M 0 p = p.
Proof.
  intros D. pose proof D as (HM & Hr & Hb & Hh). fold (kbeta M p) in Hb.
  destruct (Gd_pos (kbeta M p) 0 Hb) as (_ & E1 & E2 & E3).
  rewrite Rmult_0_r, sin_0 in E1, E3. rewrite Rmult_0_r, cos_0 in E2.
  assert (Z1 : G1d (kbeta M p) 0 = 0) by (rewrite E1; unfold Rdiv; ring).
  assert (Z2 : G2d (kbeta M p) 0 = 0) by (rewrite E2; unfold Rdiv; ring).
  assert (Z3 : G3d (kbeta M p) 0 = 0) by (rewrite E3; unfold Rdiv; ring).
  rewrite <- (kflow_unique M 0 p 0 D).
  - unfold kstep. cbv zeta. rewrite Z1, Z2, Z3.
    destruct p as [[[[[x y] z] vx] vy] vz]. unfold fg_update, fg_coeffs, fg_apply.
    cbn [nneg nmul nsub nadd RNum]. repeat (f_equal; try ring).
  - unfold Fk. rewrite Z2, Z3. ring.
Qed.

Theorem kflow_dom M dt p : ell_dom M p -> ell_dom M (kflow M dt p).
Proof. intros D. pose proof (kflow_facts M dt p D) as F. cbv zeta in F. tauto. Qed.

Theorem kflow_inverse M dt p : ell_dom M p -> kflow M (- dt) (kflow M dt p) = p.
Proof.
  intros D. rewrite kflow_group by exact D. replace (dt + - dt) with 0 by ring. apply kflow_zero, D.
Qed.
