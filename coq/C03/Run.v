(* C03: binary64 instance of the Kepler-solver model + glue used by the correspondence cases. *)
From Coq Require Import List ZArith Bool PrimFloat.
From RV Require Import Common.Num Common.FloatNum C03.Model.
Import ListNotations.
Open Scope float_scope.

(* 2.*M_PI as folded by the compiler (M_PI = 0x1.921fb54442d18p+1; doubling is exact) *)
Definition TWOPI : float := 0x1.921fb54442d18p+2.

(* floor() of libm on binary64, by the add-and-subtract-2^52 trick (exact). *)
Definition two52 : float := 0x1p+52.
Definition floorF (x : float) : float :=
  if PrimFloat.is_nan x then x else
  if PrimFloat.leb two52 (PrimFloat.abs x) then x else
  if PrimFloat.eqb x 0 then x else
  if PrimFloat.ltb 0 x then
    let r := (x + two52) - two52 in if PrimFloat.ltb x r then r - 1 else r
  else
    let y := - x in
    let r := (y + two52) - two52 in
    let c := if PrimFloat.ltb r y then r + 1 else r in - c.

Definition tup6 (l : list float) : float * float * float * float * float * float :=
  match l with
  | [a; b; c; d; e; f] => (a, b, c, d, e, f)
  | _ => (0, 0, 0, 0, 0, 0)
  end.
Definition lst6 (p : float * float * float * float * float * float) : list float :=
  let '(a, b, c, d, e, f) := p in [a; b; c; d; e; f].

Definition b2n (b : bool) : nat := if b then 1%nat else 0%nat.

(* branch code: path + 10*rescue + 100*hang + 1000*bisection-out-of-fuel *)
Definition code_of (i : kinfo (T:=float)) : nat :=
  (k_path i + 10 * b2n (k_rescue i) + 100 * b2n (k_hang i) + 1000 * b2n (k_bfuel i))%nat.

(* one solver call: input [x;y;z;vx;vy;vz], M, dt -> (new state, (code, iterations main loop, iterations bisection)) *)
Definition kepF (p : list float) (M dt : float) : list float * (nat * nat * nat) :=
  let '(q, i) := kepler_solver FNum TWOPI floorF (tup6 p) M dt in
  (lst6 q, (code_of i, k_iters i, k_biters i)).

(* solver call with one variational configuration: returns new state ++ new variational state *)
Definition kepVarF (p dp : list float) (M dt : float) : list float * (nat * nat * nat) :=
  let p6 := tup6 p in
  let '(q, i) := kepler_solver FNum TWOPI floorF p6 M dt in
  let '(x, y, z, vx, vy, vz) := p6 in
  let r0 := PrimFloat.sqrt (x * x + y * y + z * z) in
  let r0i := 1 / r0 in
  let '(G0, G1, G2, G3) := k_Gs i in
  let fg := fg_coeffs FNum M dt r0i (k_ri i) G1 G2 G3 in
  let '(dq, h) := kepler_variation FNum p6 (tup6 dp) M dt (k_beta i) (k_X i) (k_ri i) fg in
  (lst6 q ++ lst6 dq, ((code_of i + 100 * b2n (andb h (negb (k_hang i))))%nat, k_iters i, k_biters i)).

(* stand-alone evaluation of the series/doubling routines (used by unit cases) *)
Definition cs3F (z : float) : list float :=
  let '((c0, c1, c2, c3), _) := stumpff_cs3 FNum z in [c0; c1; c2; c3].

(* evaluation of a batch: results = model outputs; expected = library outputs.
   Returns (indices of mismatching cases, branch codes, main-loop iterations, bisection iterations). *)
Definition run_batch (res : list (list float * (nat * nat * nat))) (expected : list (list float))
  : list nat * list nat * list nat * list nat :=
  (bad_cases (combine (map fst res) expected),
   map (fun r => fst (fst (snd r))) res,
   map (fun r => snd (fst (snd r))) res,
   map (fun r => snd (snd r)) res).

(* Kepler part of n >= 1 WHFast steps with safe_mode = 0 followed by a synchronisation, for one body on which nothing
   else acts (test particle in democratic-heliocentric / Jacobi coordinates, star at rest at the origin, G = 1: the
   coordinate transformations, the interaction and jump steps and the centre-of-mass drift are bit-exact identities):
   drift dt/2, (n-1) merged drifts dt, the synchronisation drift whfast_sync_drift dt; then, for every later complete
   step of length d (taken by integrate() after the synchronisation), two drifts d/2. *)
Definition kstepF (p : list float) (M d : float) : list float := fst (kepF p M d).
Fixpoint iterF (n : nat) (p : list float) (M d : float) : list float :=
  match n with O => p | S k => iterF k (kstepF p M d) M d end.
Definition unsyncF (p : list float) (M dt : float) (n : nat) (later : list float) : list float :=
  let p1 := kstepF p M (dt / 2) in
  let p2 := iterF (Nat.pred n) p1 M dt in
  let p3 := kstepF p2 M (whfast_sync_drift FNum false dt) in
  fold_left (fun q d => kstepF (kstepF q M (d / 2)) M (d / 2)) later p3.
