(* C03 model: src/integrator_whfast.c  — fastabs, stumpff_cs, stumpff_cs3, stiefel_Gs, stiefel_Gs3,
   reb_whfast_kepler_solver (all phases) and its variational part, transcribed line for line,
   polymorphic in Num.  Same operation order as the C source (C is compiled without FMA /
   fast-math, `a*b*c` is `(a*b)*c`, `a+b+c` is `(a+b)+c`).

   Things that are not + - * / sqrt fabs comparisons:
   * 2.*M_PI          : argument [twopi] (binary64: 0x1.921fb54442d18p+2, the exact double of 2.*M_PI;
                        reals: 2*PI)
   * floor(x)          : argument [flo : T -> T] (binary64: Run.floorF; reals: any function)
   * copysign(a,_dt)   : modelled as "if _dt < 0 then -|a| else |a|"; differs from C only for
                        _dt = -0.0 or NaN, which the property excludes (|dt| >= 1e-8 periods)
   * nan("")           : X_per_period = NaN for beta<=0 only serves to make the test
                        `fastabs(X-oldX) > 0.01*X_per_period` false; modelled as `ell && ...`.
                        The initial value NaN of oldX2 is overwritten before it is read.
   * isnan(ri)         : nisnan
   Unbounded C loops get explicit fuel and an explicit out-of-fuel flag:
   * `while(fabs(z)>0.1) z=z/4`  : QFUEL = 540 (every finite double needs <= 515 quarterings; non-finite z is
     caught by the `!isfinite(z)` guard since fix 805dfda, so hang = true is unreachable in binary64)
   * bisection do-while            : BFUEL = 2200
   The bounded C loops (quartic < 64, Newton < 32, doubling n) are structural.
   Definitions only; proofs are in Proofs.v. *)
From Coq Require Import List ZArith Bool.
From RV Require Import Common.Num.
Import ListNotations.

Section Kepler.
Context {T : Type} (N : Num T).
Local Notation "a + b" := (nadd N a b).
Local Notation "a - b" := (nsub N a b).
Local Notation "a * b" := (nmul N a b).
Local Notation "a / b" := (ndiv N a b).
Local Notation "1" := (none N).
Local Notation "0" := (nzero N).
Definition cz (z : Z) : T := nofZ N z.

Definition QFUEL : nat := 540.
Definition BFUEL : nat := 2200.
Definition NMAX_QUART : nat := 64.
Definition NMAX_NEWT : nat := 32.

(* static inline double fastabs(double x){ return (x > 0.) ? x : -x; } *)
Definition fastabs (x : T) : T := if nltb N 0 x then x else nneg N x.

(* invfactorial[k] = 1./k!  (k! < 2^53 for k <= 15: the literal is exact, the division is
   correctly rounded, as the compiler's constant folding) *)
Definition invf (k : Z) : T := 1 / cz k.
Definition if0 : T := 1.
Definition if1 : T := 1.
Definition if2 : T := invf 2.
Definition if3 : T := invf 6.
Definition if4 : T := invf 24.
Definition if5 : T := invf 120.
Definition if6 : T := invf 720.
Definition if7 : T := invf 5040.
Definition if8 : T := invf 40320.
Definition if9 : T := invf 362880.
Definition if10 : T := invf 3628800.
Definition if11 : T := invf 39916800.
Definition if12 : T := invf 479001600.
Definition if13 : T := invf 6227020800.
Definition if14 : T := invf 87178291200.
Definition if15 : T := invf 1307674368000.

Definition c_tenth : T := ndec N 1 10.      (* 0.1 *)
Definition c_half : T := ndec N 1 2.        (* 0.5 *)
Definition c_quarter : T := ndec N 1 4.     (* 0.25 *)
Definition c_eighth : T := ndec N 1 8.      (* 0.125 *)
Definition c_sixteenth : T := ndec N 1 16.  (* 0.0625 *)
Definition c_sixth : T := ndec N 1 6.       (* 1./6. *)
Definition c_hundredth : T := ndec N 1 100. (* 0.01 *)
Definition c_1em15 : T := ndec N 1 1000000000000000. (* 1e-15 *)

(* while(fabs(z)>0.1){ z = z/4.; n++; }   -- stumpff_cs3 uses fabs, stumpff_cs uses fastabs *)
Fixpoint quarter3 (fuel : nat) (z : T) (n : nat) : T * nat * bool :=
  match fuel with
  | O => (z, n, true)
  | S f => if nltb N c_tenth (nabs N z) then quarter3 f (z / (cz 4)) (S n) else (z, n, false)
  end.
Fixpoint quarter5 (fuel : nat) (z : T) (n : nat) : T * nat * bool :=
  match fuel with
  | O => (z, n, true)
  | S f => if nltb N c_tenth (fastabs z) then quarter5 f (z / (cz 4)) (S n) else (z, n, false)
  end.

(* ---- stumpff_cs3: nmax = 13, np = 11,9,7,5,3 ---- *)
Definition series3 (z : T) : T * T * T * T :=
  let c_odd := if13 in let c_even := if12 in
  let c_odd := if11 - z * c_odd in let c_even := if10 - z * c_even in
  let c_odd := if9 - z * c_odd in let c_even := if8 - z * c_even in
  let c_odd := if7 - z * c_odd in let c_even := if6 - z * c_even in
  let c_odd := if5 - z * c_odd in let c_even := if4 - z * c_even in
  let c_odd := if3 - z * c_odd in let c_even := if2 - z * c_even in
  (if0 - z * c_even, if1 - z * c_odd, c_even, c_odd).

(* one pass of  for(;n>0;n--){ cs[3]=(cs[2]+cs[0]*cs[3])*0.25; cs[2]=cs[1]*cs[1]*0.5;
                                cs[1]=cs[0]*cs[1]; cs[0]=2.*cs[0]*cs[0]-1.; } *)
Definition dbl3 (cs : T * T * T * T) : T * T * T * T :=
  let '(c0, c1, c2, c3) := cs in
  let c3' := (c2 + c0 * c3) * c_quarter in
  let c2' := c1 * c1 * c_half in
  let c1' := c0 * c1 in
  let c0' := (cz 2) * c0 * c0 - 1 in
  (c0', c1', c2', c3').
Fixpoint dbl3_loop (n : nat) (cs : T * T * T * T) : T * T * T * T :=
  match n with O => cs | S k => dbl3_loop k (dbl3 cs) end.

(* result: (c0,c1,c2,c3) and hang flag *)
(* `if (!isfinite(z)){ cs[0..3] = nan(""); return; }`  (fix 805dfda): z - z is NaN exactly when z is +-inf or NaN
   (and 0 otherwise), and that NaN is the value stored (all NaNs are identified by the comparison). *)
Definition stumpff_cs3 (z : T) : (T * T * T * T) * bool :=
  let d := z - z in
  if nisnan N d then ((d, d, d, d), false) else
  let '(z', n, hang) := quarter3 QFUEL z O in
  (dbl3_loop n (series3 z'), hang).

(* ---- stumpff_cs: nmax = 15, np = 13,11,9,7,5 ; six functions ---- *)
Definition series5 (z : T) : T * T * T * T * T :=   (* (c1,c2,c3,c4,c5) *)
  let c_odd := if15 in let c_even := if14 in
  let c_odd := if13 - z * c_odd in let c_even := if12 - z * c_even in
  let c_odd := if11 - z * c_odd in let c_even := if10 - z * c_even in
  let c_odd := if9 - z * c_odd in let c_even := if8 - z * c_even in
  let c_odd := if7 - z * c_odd in let c_even := if6 - z * c_even in
  let c_odd := if5 - z * c_odd in let c_even := if4 - z * c_even in
  let c5 := c_odd in let c4 := c_even in
  let c3 := if3 - z * c5 in
  let c2 := if2 - z * c4 in
  let c1 := if1 - z * c3 in
  (c1, c2, c3, c4, c5).

(* for(;n>0;n--){ z=z*4.; cs5=(cs5+cs4+cs3*cs2)*0.0625; cs4=(1.+cs1)*cs3*0.125;
                  cs3=1./6.-z*cs5; cs2=0.5-z*cs4; cs1=1.-z*cs3; } *)
Definition dbl5 (st : T * (T * T * T * T * T)) : T * (T * T * T * T * T) :=
  let '(z, (c1, c2, c3, c4, c5)) := st in
  let z := z * (cz 4) in
  let c5 := (c5 + c4 + c3 * c2) * c_sixteenth in
  let c4 := (1 + c1) * c3 * c_eighth in
  let c3 := c_sixth - z * c5 in
  let c2 := c_half - z * c4 in
  let c1 := 1 - z * c3 in
  (z, (c1, c2, c3, c4, c5)).
Fixpoint dbl5_loop (n : nat) (st : T * (T * T * T * T * T)) :=
  match n with O => st | S k => dbl5_loop k (dbl5 st) end.

Definition stumpff_cs (z : T) : (T * T * T * T * T * T) * bool :=
  let d := z - z in
  if nisnan N d then ((d, d, d, d, d, d), false) else
  let '(z', n, hang) := quarter5 QFUEL z O in
  let '(z'', (c1, c2, c3, c4, c5)) := dbl5_loop n (z', series5 z') in
  let c0 := if0 - z'' * c2 in
  ((c0, c1, c2, c3, c4, c5), hang).

(* ---- stiefel_Gs3 / stiefel_Gs ---- *)
Definition stiefel_Gs3 (beta X : T) : (T * T * T * T) * bool :=
  let X2 := X * X in
  let '((c0, c1, c2, c3), hang) := stumpff_cs3 (beta * X2) in
  ((c0, c1 * X, c2 * X2, c3 * (X2 * X)), hang).

Definition stiefel_Gs (beta X : T) : (T * T * T * T * T * T) * bool :=
  let X2 := X * X in
  let '((c0, c1, c2, c3, c4, c5), hang) := stumpff_cs (beta * X2) in
  let p3 := X2 * X in
  let p4 := p3 * X in
  let p5 := p4 * X in
  ((c0, c1 * X, c2 * X2, c3 * p3, c4 * p4, c5 * p5), hang).

(* ---- the f-g update (last block of reb_whfast_kepler_solver) ---- *)
Definition fg_coeffs (M dt r0i ri G1 G2 G3 : T) : T * T * T * T :=
  let f := nneg N M * G2 * r0i in
  let g := dt - M * G3 in
  let fd := nneg N M * G1 * r0i * ri in
  let gd := nneg N M * G2 * ri in
  (f, g, fd, gd).

Definition fg_apply (fg : T * T * T * T) (p : T * T * T * T * T * T) : T * T * T * T * T * T :=
  let '(f, g, fd, gd) := fg in
  let '(x, y, z, vx, vy, vz) := p in
  (x + (f * x + g * vx), y + (f * y + g * vy), z + (f * z + g * vz),
   vx + (fd * x + gd * vx), vy + (fd * y + gd * vy), vz + (fd * z + gd * vz)).

Definition fg_update (M dt r0i ri G1 G2 G3 : T) (p : T * T * T * T * T * T) :=
  fg_apply (fg_coeffs M dt r0i ri G1 G2 G3) p.

(* ---- solver phases; [beta r0 eta0 zeta0 dt] are fixed during the iteration ---- *)
Section Phases.
Variables (beta r0 eta0 zeta0 dt : T) (shrink_far : bool).

(* X = ri*(X*eta0Gs1zeta0Gs2 - eta0*Gs[2] - zeta0*Gs[3] + _dt) with ri = 1./(r0 + eta0Gs1zeta0Gs2) *)
Definition newton_step (X : T) : T * (T * T * T * T) * T * bool :=
  let '((G0, G1, G2, G3), h) := stiefel_Gs3 beta X in
  let e12 := eta0 * G1 + zeta0 * G2 in
  let ri := 1 / (r0 + e12) in
  let X' := ri * (X * e12 - eta0 * G2 - zeta0 * G3 + dt) in
  (X', (G0, G1, G2, G3), ri, h).

(* for (n_hg=1; n_hg<WHFAST_NMAX_NEWT; n_hg++){ oldX2=oldX; oldX=X; ...; if (X==oldX||X==oldX2){converged=1;break;} }
   k = iterations left.  Result: X, Gs, ri, converged, iterations done, hang *)
Fixpoint newton_loop (k : nat) (X oldX : T) (Gs : T * T * T * T) (ri : T) (cnt : nat) (hang : bool)
  : T * (T * T * T * T) * T * bool * nat * bool :=
  match k with
  | O => (X, Gs, ri, false, cnt, hang)
  | S k' =>
      let oldX2 := oldX in
      let oldX := X in
      let '(X', Gs', ri', h) := newton_step X in
      if orb (neqb N X' oldX) (neqb N X' oldX2)
      then (X', Gs', ri', true, S cnt, orb hang h)
      else newton_loop k' X' oldX Gs' ri' (S cnt) (orb hang h)
  end.

(* body of the quartic (Laguerre-Conway) loop *)
Definition quartic_step (X : T) : T * (T * T * T * T) * bool :=
  let '((G0, G1, G2, G3), h) := stiefel_Gs3 beta X in
  let f := r0 * X + eta0 * G2 + zeta0 * G3 - dt in
  let fp := r0 + eta0 * G1 + zeta0 * G2 in
  let fpp := eta0 * G0 + zeta0 * G1 in
  let denom := fp + nsqrt N (nabs N ((cz 16) * fp * fp - (cz 20) * f * fpp)) in
  let X' := (X * denom - (cz 5) * f) / denom in
  (X', (G0, G1, G2, G3), h).

(* for(n_lag=1; n_lag<WHFAST_NMAX_QUART; n_lag++){ ...; for(i=1;i<n_lag;i++) if(X==prevX[i]) {converged; exit}; prevX[n_lag]=X; }
   prev = prevX[1..n_lag-1] (order irrelevant for the membership test) *)
Fixpoint quartic_loop (k : nat) (X : T) (prev : list T) (Gs : T * T * T * T) (cnt : nat) (hang : bool)
  : T * (T * T * T * T) * bool * nat * bool :=
  match k with
  | O => (X, Gs, false, cnt, hang)
  | S k' =>
      let '(X', Gs', h) := quartic_step X in
      if existsb (fun p => neqb N X' p) prev
      then (X', Gs', true, S cnt, orb hang h)
      else quartic_loop k' X' (X' :: prev) Gs' (S cnt) (orb hang h)
  end.

(* do{ stiefel_Gs3; s = r0*X+eta0*Gs[2]+zeta0*Gs[3]-_dt;
       if (shrink_far && !isfinite(s)){ if(_dt>0.) X_max=X; else X_min=X; }      (fix 0366be3)
       else if(s>=0.) X_max=X; else X_min=X;
       X=(X_max+X_min)/2.; }
   while (fastabs(X_max-X_min) > fastabs((X_max+X_min)*1e-15));
   !isfinite(s) is modelled as isnan(s - s).  Result: X, Gs, iterations, hang, out_of_fuel *)
Fixpoint bisect_loop (fuel : nat) (X Xmin Xmax : T) (Gs : T * T * T * T) (cnt : nat) (hang : bool)
  : T * (T * T * T * T) * nat * bool * bool :=
  match fuel with
  | O => (X, Gs, cnt, hang, true)
  | S f =>
      let '((G0, G1, G2, G3), h) := stiefel_Gs3 beta X in
      let s := r0 * X + eta0 * G2 + zeta0 * G3 - dt in
      let take_max := if andb shrink_far (nisnan N (s - s)) then nltb N 0 dt else nleb N 0 s in
      let Xmax' := if take_max then X else Xmax in
      let Xmin' := if take_max then Xmin else X in
      let X' := (Xmax' + Xmin') / (cz 2) in
      if nltb N (fastabs ((Xmax' + Xmin') * c_1em15)) (fastabs (Xmax' - Xmin'))
      then bisect_loop f X' Xmin' Xmax' (G0, G1, G2, G3) (S cnt) (orb hang h)
      else (X', (G0, G1, G2, G3), S cnt, orb hang h, false)
  end.
End Phases.

(* copysign(a, d) for d not in {-0.0, NaN} *)
Definition copysign_dt (a d : T) : T := if nltb N d 0 then nneg N (nabs N a) else nabs N a.

(* the `if(fastabs(X-oldX) > 0.01*X_per_period){ quartic }else{ Newton }` block.
   Result: X, Gs, ri, converged, iterations, hang *)
Definition main_phase (use_quartic : bool) (beta r0 eta0 zeta0 dt M X1 oldX : T)
  (Gs1 : T * T * T * T) (ri1 : T) (h1 : bool) : T * (T * T * T * T) * T * bool * nat * bool :=
  if use_quartic then
    let Xq := beta * dt / M in
    let '(Xr, (G0, G1, G2, G3), cv, cnt, h) :=
      quartic_loop beta r0 eta0 zeta0 dt (Nat.pred NMAX_QUART) Xq [] Gs1 O h1 in
    let e12 := eta0 * G1 + zeta0 * G2 in
    (Xr, (G0, G1, G2, G3), 1 / (r0 + e12), cv, cnt, h)
  else
    newton_loop beta r0 eta0 zeta0 dt (Nat.pred NMAX_NEWT) X1 oldX Gs1 ri1 O h1.

(* the `if (converged == 0){ ... }` block.  Result: X, Gs, ri, bisection iterations, hang, out of fuel *)
Definition bisection_phase (flo : T -> T) (ell : bool) (beta r0 eta0 zeta0 dt M v2 X_per_period invperiod : T)
  (Gs2 : T * T * T * T) (h2 : bool) : T * (T * T * T * T) * T * nat * bool * bool :=
  let '(Xmin, Xmax, shrink_far) :=
    if ell then
      let Xmin := X_per_period * flo (dt * invperiod) in
      (Xmin, Xmin + X_per_period, false)
    else
      let hh2 := r0 * r0 * v2 - eta0 * eta0 in
      let e2 := 1 - hh2 * beta / (M * M) in                 (* eccentricity squared *)
      let q := hh2 / M / (1 + nsqrt N e2) in
      let sf := nltb N e2 (cz 10000000000000000) in          (* shrink_far = (e2 < 1e16) *)
      let vq := copysign_dt (nsqrt N hh2 / q) dt in
      let Xmin := dt / (fastabs (vq * dt) + r0) in
      let Xmax := dt / q in
      if nltb N dt 0 then (Xmax, Xmin, sf) else (Xmin, Xmax, sf) in
  let Xb := (Xmax + Xmin) / (cz 2) in
  let '(Xr, (G0, G1, G2, G3), cnt, h, oof) :=
    bisect_loop beta r0 eta0 zeta0 dt shrink_far BFUEL Xb Xmin Xmax Gs2 O h2 in
  let e12 := eta0 * G1 + zeta0 * G2 in
  (Xr, (G0, G1, G2, G3), 1 / (r0 + e12), cnt, h, oof).

(* Diagnostic record returned with the new state.
   path: 0 Newton converged; 1 quartic converged; 2 Newton failed -> bisection (elliptic bracket);
         3 Newton failed -> bisection (hyperbolic bracket); 4 quartic failed -> bisection (elliptic bracket) *)
Record kinfo : Type := mkinfo {
  k_path : nat;
  k_rescue : bool;      (* isnan(ri) rescue taken *)
  k_hang : bool;        (* some argument-quartering loop ran out of fuel: the C code loops forever *)
  k_bfuel : bool;       (* bisection ran out of fuel *)
  k_iters : nat;        (* iterations of the Newton or quartic loop *)
  k_biters : nat;       (* iterations of the bisection loop *)
  k_X : T;              (* final X *)
  k_beta : T;
  k_ri : T;
  k_Gs : T * T * T * T  (* Gs[0..3] after the rescue *)
}.

(* reb_whfast_kepler_solver(r, p_j, M, i, _dt) on p = p_j[i]; N_var_config = 0 *)
Definition kepler_solver (twopi : T) (flo : T -> T) (p : T * T * T * T * T * T) (M dt : T)
  : (T * T * T * T * T * T) * kinfo :=
  let '(x, y, z, vx, vy, vz) := p in
  let r0 := nsqrt N (x * x + y * y + z * z) in
  let r0i := 1 / r0 in
  let v2 := vx * vx + vy * vy + vz * vz in
  let beta := (cz 2) * M * r0i - v2 in
  let eta0 := x * vx + y * vy + z * vz in
  let zeta0 := M - beta * r0 in
  let ell := nltb N 0 beta in
  let sqrt_beta := nsqrt N beta in
  let invperiod := if ell then sqrt_beta * beta / (twopi * M) else 0 in
  let X_per_period := twopi / sqrt_beta in      (* only read when ell *)
  let X0 := if ell then (let dtr0i := dt * r0i in dtr0i * (1 - dtr0i * eta0 * c_half * r0i)) else 0 in
  let oldX := X0 in
  (* Do one Newton step *)
  let '(X1, Gs1, ri1, h1) := newton_step beta r0 eta0 zeta0 dt X0 in
  let use_quartic := andb ell (nltb N (c_hundredth * X_per_period) (fastabs (X1 - oldX))) in
  let '(X2, Gs2, ri2, conv, iters, h2) :=
    main_phase use_quartic beta r0 eta0 zeta0 dt M X1 oldX Gs1 ri1 h1 in
  (* If solver did not work, fallback to bisection *)
  let '(X3, Gs3, ri3, biters, h3, bfuel) :=
    if conv then (X2, Gs2, ri2, O, h2, false)
    else bisection_phase flo ell beta r0 eta0 zeta0 dt M v2 X_per_period invperiod Gs2 h2 in
  let rescue := nisnan N ri3 in
  let '(G0, G1, G2, G3) := Gs3 in
  let ri := if rescue then 0 else ri3 in
  let G1 := if rescue then 0 else G1 in
  let G2 := if rescue then 0 else G2 in
  let G3 := if rescue then 0 else G3 in
  let path := if conv then (if use_quartic then 1 else 0)%nat
              else if use_quartic then 4%nat else if ell then 2%nat else 3%nat in
  (fg_update M dt r0i ri G1 G2 G3 p,
   mkinfo path rescue h3 bfuel iters biters X3 beta ri (G0, G1, G2, G3)).

(* ---- the variational block of reb_whfast_kepler_solver for one configuration:
   p1 = the real particle BEFORE the update, dp = p_j[i+index]; uses stiefel_Gs (six functions) ---- *)
Definition kepler_variation (p1 dp : T * T * T * T * T * T) (M dt beta X ri : T)
  (fg : T * T * T * T) : (T * T * T * T * T * T) * bool :=
  let '(x, y, z, vx, vy, vz) := p1 in
  let '(dx, dy, dz, dvx, dvy, dvz) := dp in
  let '(f, g, fd, gd) := fg in
  let r0 := nsqrt N (x * x + y * y + z * z) in
  let r0i := 1 / r0 in
  let eta0 := x * vx + y * vy + z * vz in
  let zeta0 := M - beta * r0 in
  let '((G0, G1, G2, G3, G4, G5), hang) := stiefel_Gs beta X in
  let dr0 := (dx * x + dy * y + dz * z) * r0i in
  let dbeta := nneg N (cz 2) * M * dr0 * r0i * r0i - (cz 2) * (dvx * vx + dvy * vy + dvz * vz) in
  let deta0 := dx * vx + dy * vy + dz * vz + x * dvx + y * dvy + z * dvz in
  let dzeta0 := nneg N beta * dr0 - r0 * dbeta in
  let G3beta := c_half * ((cz 3) * G5 - X * G4) in
  let G2beta := c_half * ((cz 2) * G4 - X * G3) in
  let G1beta := c_half * (G3 - X * G2) in
  let tbeta := eta0 * G2beta + zeta0 * G3beta in
  let dX := nneg N 1 * ri * (X * dr0 + G2 * deta0 + G3 * dzeta0 + tbeta * dbeta) in
  let dG1 := G0 * dX + G1beta * dbeta in
  let dG2 := G1 * dX + G2beta * dbeta in
  let dG3 := G2 * dX + G3beta * dbeta in
  let dr := dr0 + G1 * deta0 + G2 * dzeta0 + eta0 * dG1 + zeta0 * dG2 in
  let df := M * G2 * dr0 * r0i * r0i - M * dG2 * r0i in
  let dg := nneg N M * dG3 in
  let dfd := nneg N M * dG1 * r0i * ri + M * G1 * (dr0 * r0i + dr * ri) * r0i * ri in
  let dgd := nneg N M * dG2 * ri + M * G2 * dr * ri * ri in
  ((dx + (f * dx + g * dvx + df * x + dg * vx),
    dy + (f * dy + g * dvy + df * y + dg * vy),
    dz + (f * dz + g * dvz + df * z + dg * vz),
    dvx + (fd * dx + gd * dvx + dfd * x + dgd * vx),
    dvy + (fd * dy + gd * dvy + dfd * y + dgd * vy),
    dvz + (fd * dz + gd * dvz + dfd * z + dgd * vz)), hang).
(* ---- deferred synchronisation of WHFast (reb_integrator_whfast_synchronize / part1 / part2, Kepler part) ----
   With safe_mode = 0 the first step drifts by dt/2, every further step by dt (the two half drifts are merged) and
   reb_integrator_whfast_synchronize completes the pending half drift with  r->dt/2.  (default, modified-kick, lazy
   kernels) resp.  3.*r->dt/8.  (composition kernel): a function of the CURRENT r->dt, not of dt_last_done. *)
Definition whfast_sync_drift (composition : bool) (dt : T) : T :=
  if composition then cz 3 * dt / cz 8 else dt / cz 2.
End Kepler.
