(* C03 property theorems ONLY (each closed by an already proved lemma) + assumptions. *)
From Coq Require Import List ZArith Reals Lra Lia String.
From Coquelicot Require Import Coquelicot.
From RV Require Import Common.Num Common.RealNum C03.Model C03.Proofs C03.Flow C03.Derivs C03.Series C03.Series2 C03.Solve C03.Extra C03.Init Gen.WhfastInit.
Import ListNotations.
Open Scope R_scope.

(* The f-g update of reb_whfast_kepler_solver (model term fg_update at the reals) moves the body along
   the exact Kepler orbit: for ANY reals G0..G3, X, beta that satisfy the Stumpff/Stiefel identities and
   the universal Kepler equation for dt (kepler_hyp: constrained exactly as the code's quantities are,
   no sign condition on beta, X, dt: elliptic, hyperbolic, forward, backward), the new state has the
   same angular momentum vector, the same energy, the same eccentricity vector, radius
   r0 + eta0 G1 + zeta0 G2, the same beta and radial velocity eta0 G0 + zeta0 G1. *)
Theorem C03_fg_step_on_exact_orbit : forall (p : P6) (M dt r0 beta X G0 G1 G2 G3 : R),
  kepler_hyp p M dt r0 beta X G0 G1 G2 G3 ->
  let r := new_radius p M r0 beta G1 G2 in
  let p' := fg_update RNum M dt (1 / r0) (1 / r) G1 G2 G3 p in
  angmom p' = angmom p /\
  radius p' = r /\
  energy M p' = energy M p /\
  evecM M p' = evecM M p /\
  2 * M * (1 / radius p') - vel2 p' = beta /\
  xdotv p' = xdotv p * G0 + (M - beta * r0) * G1.
Proof. exact fg_exact. Qed.
Print Assumptions C03_fg_step_on_exact_orbit.

(* The same with the closed-form universal functions G_n = X^n c_n(beta X²), c_n from cos/sin (z>0),
   cosh/sinh (z<0), 1/n! (z=0): only "X solves the Kepler equation" and "new radius > 0" remain. *)
Theorem C03_fg_step_closed_form : forall (p : P6) (M dt r0 X : R),
  let beta := 2 * M * (1 / r0) - vel2 p in
  let '(G0, G1, G2, G3) := Gcf beta X in
  0 < r0 -> r0 * r0 = pos2 p ->
  r0 * X + xdotv p * G2 + (M - beta * r0) * G3 = dt ->
  0 < new_radius p M r0 beta G1 G2 ->
  let p' := fg_update RNum M dt (1 / r0) (1 / new_radius p M r0 beta G1 G2) G1 G2 G3 p in
  angmom p' = angmom p /\ radius p' = new_radius p M r0 beta G1 G2 /\
  energy M p' = energy M p /\ evecM M p' = evecM M p.
Proof. exact fg_exact_closed_form. Qed.
Print Assumptions C03_fg_step_closed_form.

(* The closed-form Stumpff functions satisfy the defining identities, for every real argument. *)
Theorem C03_closed_form_identities : forall z, cs_inv z (Ccf z).
Proof. exact Ccf_identities. Qed.
Print Assumptions C03_closed_form_identities.

(* The four recurrences of stumpff_cs3's doubling loop (model term dbl3) are identities of the
   closed-form functions: c0(4z)=2c0²-1, c1(4z)=c0 c1, c2(4z)=c1²/2, c3(4z)=(c2+c0 c3)/4. *)
Theorem C03_doubling_closed_form : forall z, dbl3 RNum (Ccf z) = Ccf (4 * z).
Proof. exact Ccf_doubling. Qed.
Print Assumptions C03_doubling_closed_form.

(* ... and, purely algebraically, n passes of the loop map the defining identities at z to those at 4^n z. *)
Theorem C03_doubling_preserves_identities : forall n z cs,
  cs_inv z cs -> cs_inv (4 ^ n * z) (dbl3_loop RNum n cs).
Proof. exact dbl3_loop_inv. Qed.
Print Assumptions C03_doubling_preserves_identities.

(* stumpff_cs3 over R: quartering then doubling is exact; the only inexact part is the truncated series. *)
Theorem C03_cs3_exact_up_to_series : forall z,
  let '(z', n, _) := quarter3 RNum QFUEL z O in
  cs_inv z' (series3 RNum z') -> cs_inv z (fst (stumpff_cs3 RNum z)).
Proof. exact cs3_identities. Qed.
Print Assumptions C03_cs3_exact_up_to_series.

(* stiefel_Gs3's scaling turns the Stumpff identities at beta X² into the hypotheses of the f-g theorem. *)
Theorem C03_stiefel_scaling : forall beta X c0 c1 c2 c3,
  cs_inv (beta * (X * X)) (c0, c1, c2, c3) ->
  let G0 := c0 in let G1 := c1 * X in let G2 := c2 * (X * X) in let G3 := c3 * (X * X * X) in
  G0 = 1 - beta * G2 /\ G1 = X - beta * G3 /\ G1 * G1 = G2 * (1 + G0).
Proof. exact stiefel_scaling. Qed.
Print Assumptions C03_stiefel_scaling.

(* Termination: for every arithmetic (binary64 included) the Newton/quartic loop of the model runs at
   most 63 times and the bisection at most BFUEL times (the model reports fuel exhaustion in k_bfuel /
   k_hang instead of looping). *)
Theorem C03_iteration_bounds : forall {T} (N : Num T) twopi flo p M dt,
  let i := snd (kepler_solver N twopi flo p M dt) in
  (k_iters i <= 63 /\ k_biters i <= BFUEL)%nat.
Proof. exact @solver_iteration_bounds. Qed.
Print Assumptions C03_iteration_bounds.

(* Over R the argument-quartering loop ends without exhausting fuel f+1 whenever |z| <= 0.1 * 4^f,
   and one bisection step halves the bracket. *)
Theorem C03_quartering_terminates_R : forall f z n z' n' h,
  Rabs z <= 1 / 10 * 4 ^ f -> quarter3 RNum (S f) z n = (z', n', h) -> h = false.
Proof. exact quarter3_no_hang. Qed.
Print Assumptions C03_quartering_terminates_R.

Theorem C03_bisect_halves : forall (Xmin Xmax : R) (b : bool),
  let X := (Xmax + Xmin) / 2 in
  let Xmax' := if b then X else Xmax in
  let Xmin' := if b then Xmin else X in
  Xmax' - Xmin' = (Xmax - Xmin) / 2.
Proof. exact bisect_halves. Qed.
Print Assumptions C03_bisect_halves.

(* ------------------------------------------------------------------ round 2 *)

(* Flow (group) law, relational form.  exact_step M dt p p' := p' is the model's f-g update of p for SOME r0, beta, X,
   G0..G3 with kepler_hyp p M dt r0 beta X G0..G3 (Stumpff/Stiefel identities + universal Kepler equation for dt).
   Two exact steps compose to an exact step of the summed time. *)
Theorem C03_kepler_flow_group : forall (M dt1 dt2 : R) (p p1 p2 : P6),
  exact_step M dt1 p p1 -> exact_step M dt2 p1 p2 -> exact_step M (dt1 + dt2) p p2.
Proof. exact kepler_flow_group. Qed.
Print Assumptions C03_kepler_flow_group.

(* explicit form: same conic (r1 = new radius, same beta), universal anomalies add, the G's combine by the
   addition theorems Gadd, and the composite state is the single f-g update with those G's *)
Theorem C03_kepler_flow_group_explicit :
  forall (p : P6) (M dt1 dt2 r0 beta X1 X2 A0 A1 A2 A3 r1 beta1 B0 B1 B2 B3 : R),
  kepler_hyp p M dt1 r0 beta X1 A0 A1 A2 A3 ->
  let p1 := fg_update RNum M dt1 (1 / r0) (1 / new_radius p M r0 beta A1 A2) A1 A2 A3 p in
  kepler_hyp p1 M dt2 r1 beta1 X2 B0 B1 B2 B3 ->
  let p2 := fg_update RNum M dt2 (1 / r1) (1 / new_radius p1 M r1 beta1 B1 B2) B1 B2 B3 p1 in
  let '(C0, C1, C2, C3) := Gadd beta (A0, A1, A2, A3) (B0, B1, B2, B3) in
  r1 = new_radius p M r0 beta A1 A2 /\ beta1 = beta /\
  kepler_hyp p M (dt1 + dt2) r0 beta (X1 + X2) C0 C1 C2 C3 /\
  p2 = fg_update RNum M (dt1 + dt2) (1 / r0) (1 / new_radius p M r0 beta C1 C2) C1 C2 C3 p.
Proof. exact flow_group_explicit. Qed.
Print Assumptions C03_kepler_flow_group_explicit.

Theorem C03_zero_step_is_identity : forall M p, 0 < radius p -> exact_step M 0 p p.
Proof. exact exact_step_zero. Qed.
Print Assumptions C03_zero_step_is_identity.

(* The closed-form Stiefel functions as functions of X (Gdir: cos/sin for beta>0, cosh/sinh for beta<0, monomials
   for beta=0): they satisfy the hypotheses of the f-g theorem, are closed under the addition theorems (so the
   composite of two steps uses the SAME functions at X1+X2), and G1' = G0, G2' = G1, G3' = G2 (Coquelicot is_derive). *)
Theorem C03_Gdir_identities : forall beta X,
  let '(G0, G1, G2, G3) := Gdir beta X in
  G0 = 1 - beta * G2 /\ G1 = X - beta * G3 /\ G1 * G1 = G2 * (1 + G0).
Proof. exact Gdir_identities. Qed.
Print Assumptions C03_Gdir_identities.

Theorem C03_Gdir_addition : forall beta X1 X2, Gdir beta (X1 + X2) = Gadd beta (Gdir beta X1) (Gdir beta X2).
Proof. exact Gdir_addition. Qed.
Print Assumptions C03_Gdir_addition.

Theorem C03_Gdir_derivatives : forall beta X,
  is_derive (G1d beta) X (G0d beta X) /\ is_derive (G2d beta) X (G1d beta X) /\ is_derive (G3d beta) X (G2d beta X).
Proof. exact Gdir_derivatives. Qed.
Print Assumptions C03_Gdir_derivatives.

(* Sundman / time equation: the universal Kepler function has derivative r(X) = r0 + eta0 G1 + zeta0 G2, i.e.
   dt = r dX, for every beta (elliptic, hyperbolic, parabolic) *)
Theorem C03_sundman : forall beta r0 eta0 zeta0 X,
  is_derive (fun X => r0 * X + eta0 * G2d beta X + zeta0 * G3d beta X) X
            (r0 + eta0 * G1d beta X + zeta0 * G2d beta X).
Proof. exact sundman. Qed.
Print Assumptions C03_sundman.

(* Truncation error of stumpff_cs3's series (model term series3 = the Horner coefficients of the code) against the
   closed-form Stumpff functions, 0 < z <= 1: at most the first omitted term, with a definite sign. *)
Theorem C03_series3_truncation_pos : forall z, 0 < z <= 1 ->
  let '(t0, t1, t2, t3) := series3 RNum z in
  let '(c0, c1, c2, c3) := Ccf z in
  - (z ^ 7 / 87178291200) <= c0 - t0 <= 0 /\
  - (z ^ 7 / 1307674368000) <= c1 - t1 <= 0 /\
  0 <= c2 - t2 <= z ^ 6 / 87178291200 /\
  0 <= c3 - t3 <= z ^ 6 / 1307674368000.
Proof. exact series3_trunc_pos. Qed.
Print Assumptions C03_series3_truncation_pos.

(* on the range the code feeds to the series after quartering, 0 < z <= 0.1 *)
Theorem C03_series3_truncation_tenth : forall z, 0 < z <= 1 / 10 ->
  let '(t0, t1, t2, t3) := series3 RNum z in
  let '(c0, c1, c2, c3) := Ccf z in
  Rabs (c0 - t0) <= 12 / 10 ^ 19 /\ Rabs (c1 - t1) <= 8 / 10 ^ 20 /\
  Rabs (c2 - t2) <= 12 / 10 ^ 18 /\ Rabs (c3 - t3) <= 8 / 10 ^ 19.
Proof. exact series3_trunc_pos_tenth. Qed.
Print Assumptions C03_series3_truncation_tenth.

(* ------------------------------------------------------------------ round 3 *)

(* f-g determinant in the form C04_fg_step_and_com_drift_conserve_lz consumes: with f = 1 + f_code, gd = 1 + gd_code,
   f gd - fd g = 1, and the model's update IS the linear map (x,v) -> (f x + g v, fd x + gd v). *)
Theorem C03_fg_determinant : forall (p : P6) (M dt r0 beta X G0 G1 G2 G3 : R),
  kepler_hyp p M dt r0 beta X G0 G1 G2 G3 ->
  let '(fc, g, fd, gdc) := fg_coeffs RNum M dt (1 / r0) (1 / new_radius p M r0 beta G1 G2) G1 G2 G3 in
  let f := 1 + fc in let gd := 1 + gdc in
  f * gd - fd * g = 1 /\
  forall x y z vx vy vz,
    fg_apply RNum (fc, g, fd, gdc) (x, y, z, vx, vy, vz) =
    (f * x + g * vx, f * y + g * vy, f * z + g * vz, fd * x + gd * vx, fd * y + gd * vy, fd * z + gd * vz).
Proof. exact fg_determinant. Qed.
Print Assumptions C03_fg_determinant.

(* Series truncation, hyperbolic branch and both signs on the range the code uses. *)
Theorem C03_series3_truncation_neg : forall z, -1 <= z < 0 ->
  let '(t0, t1, t2, t3) := series3 RNum z in
  let '(c0, c1, c2, c3) := Ccf z in
  Rabs (c0 - t0) <= 2 * ((- z) ^ 7 / 87178291200) /\
  Rabs (c1 - t1) <= 2 * ((- z) ^ 7 / 1307674368000) /\
  Rabs (c2 - t2) <= 2 * ((- z) ^ 6 / 87178291200) /\
  Rabs (c3 - t3) <= 2 * ((- z) ^ 6 / 1307674368000).
Proof. exact series3_trunc_neg. Qed.
Print Assumptions C03_series3_truncation_neg.

Theorem C03_series3_truncation_all : forall z, Rabs z <= 1 / 10 ->
  let '(t0, t1, t2, t3) := series3 RNum z in
  let '(c0, c1, c2, c3) := Ccf z in
  Rabs (c0 - t0) <= 24 / 10 ^ 19 /\ Rabs (c1 - t1) <= 16 / 10 ^ 20 /\
  Rabs (c2 - t2) <= 24 / 10 ^ 18 /\ Rabs (c3 - t3) <= 16 / 10 ^ 19.
Proof. exact series3_trunc_tenth. Qed.
Print Assumptions C03_series3_truncation_all.

(* stumpff_cs's 15-term series (model term series5) against the closed forms c1..c3 and c4 = (1/2-c2)/z, c5 = (1/6-c3)/z *)
Theorem C03_series5_truncation_pos : forall z, 0 < z <= 1 ->
  let '(t1, t2, t3, t4, t5) := series5 RNum z in
  let '(c0, c1, c2, c3) := Ccf z in
  let '(c4, c5) := Ccf45 z in
  Rabs (c1 - t1) <= z ^ 8 / 355687428096000 /\
  Rabs (c2 - t2) <= z ^ 7 / 20922789888000 /\
  Rabs (c3 - t3) <= z ^ 7 / 355687428096000 /\
  Rabs (c4 - t4) <= z ^ 6 / 20922789888000 /\
  Rabs (c5 - t5) <= z ^ 6 / 355687428096000.
Proof. exact series5_trunc_pos. Qed.
Print Assumptions C03_series5_truncation_pos.

Theorem C03_series5_truncation_neg : forall z, -1 <= z < 0 ->
  let '(t1, t2, t3, t4, t5) := series5 RNum z in
  let '(c0, c1, c2, c3) := Ccf z in
  let '(c4, c5) := Ccf45 z in
  Rabs (c1 - t1) <= 2 * ((- z) ^ 8 / 355687428096000) /\
  Rabs (c2 - t2) <= 2 * ((- z) ^ 7 / 20922789888000) /\
  Rabs (c3 - t3) <= 2 * ((- z) ^ 7 / 355687428096000) /\
  Rabs (c4 - t4) <= 2 * ((- z) ^ 6 / 20922789888000) /\
  Rabs (c5 - t5) <= 2 * ((- z) ^ 6 / 355687428096000).
Proof. exact series5_trunc_neg. Qed.
Print Assumptions C03_series5_truncation_neg.

(* Existence and uniqueness of the solution of the universal Kepler equation, elliptic case:
   Fk beta r0 eta0 M X = r0 X + eta0 G2(X) + (M - beta r0) G3(X) with the closed-form G's. *)
Theorem C03_kepler_equation_has_solution : forall beta r0 eta0 M dt, 0 < beta -> 0 < M ->
  Fk beta r0 eta0 M (solveX beta r0 eta0 M dt) = dt.
Proof. exact solveX_spec. Qed.
Print Assumptions C03_kepler_equation_has_solution.

Theorem C03_kepler_equation_solution_unique : forall beta r0 eta0 M dt X, 0 < beta -> 0 < M ->
  0 < r0 * (2 * M - beta * r0) - eta0 * eta0 ->
  Fk beta r0 eta0 M X = dt -> X = solveX beta r0 eta0 M dt.
Proof. exact solveX_unique. Qed.
Print Assumptions C03_kepler_equation_solution_unique.

(* the exact step as a function on the elliptic domain (M > 0, r > 0, beta > 0, x × v <> 0) *)
Theorem C03_kflow_is_exact_step : forall M dt p, ell_dom M p -> exact_step M dt p (kflow M dt p).
Proof. exact kflow_exact. Qed.
Print Assumptions C03_kflow_is_exact_step.

Theorem C03_kflow_unique : forall M dt p X, ell_dom M p ->
  Fk (kbeta M p) (radius p) (xdotv p) M X = dt -> kstep M dt X p = kflow M dt p.
Proof. exact kflow_unique. Qed.
Print Assumptions C03_kflow_unique.

Theorem C03_kflow_invariants : forall M dt p, ell_dom M p ->
  let p' := kflow M dt p in
  angmom p' = angmom p /\ kbeta M p' = kbeta M p /\ energy M p' = energy M p /\ evecM M p' = evecM M p /\
  ell_dom M p'.
Proof. exact kflow_facts. Qed.
Print Assumptions C03_kflow_invariants.

(* the group law as an EQUATION between states (this is the form C09's drift laws use) *)
Theorem C03_kflow_group : forall M dt1 dt2 p, ell_dom M p ->
  kflow M dt2 (kflow M dt1 p) = kflow M (dt1 + dt2) p.
Proof. exact kflow_group. Qed.
Print Assumptions C03_kflow_group.

(* zero step, domain invariance and inverse of the exact flow (used by C10 for WHFast reversibility) *)
Theorem C03_kflow_zero : forall M p, ell_dom M p -> kflow M 0 p = p.
Proof. exact kflow_zero. Qed.
Print Assumptions C03_kflow_zero.

Theorem C03_kflow_dom : forall M dt p, ell_dom M p -> ell_dom M (kflow M dt p).
Proof. exact kflow_dom. Qed.
Print Assumptions C03_kflow_dom.

Theorem C03_kflow_inverse : forall M dt p, ell_dom M p -> kflow M (- dt) (kflow M dt p) = p.
Proof. exact kflow_inverse. Qed.
Print Assumptions C03_kflow_inverse.

(* the model's Newton step over R is the Newton iterate; its fixed points are the roots *)
Theorem C03_newton_step_is_newton_iterate : forall beta r0 eta0 zeta0 dt X,
  let '(G0, G1, G2, G3) := fst (stiefel_Gs3 RNum beta X) in
  let r := r0 + (eta0 * G1 + zeta0 * G2) in
  let F := r0 * X + eta0 * G2 + zeta0 * G3 - dt in
  r <> 0 ->
  fst (fst (fst (newton_step RNum beta r0 eta0 zeta0 dt X))) = X - F / r /\
  (fst (fst (fst (newton_step RNum beta r0 eta0 zeta0 dt X))) = X <-> F = 0).
Proof. exact newton_step_R. Qed.
Print Assumptions C03_newton_step_is_newton_iterate.

Theorem C03_newton_contraction : forall beta r0 eta0 M dt Xs X q Q, 0 < q ->
  (forall xi, q <= rk beta r0 eta0 M xi <= Q) ->
  Fk beta r0 eta0 M Xs = dt ->
  let N := X - (Fk beta r0 eta0 M X - dt) / rk beta r0 eta0 M X in
  Rabs (N - Xs) <= (Q - q) / q * Rabs (X - Xs).
Proof. exact newton_contraction. Qed.
Print Assumptions C03_newton_contraction.

(* the model's bisection loop over R exits by its own test within its fuel for brackets bounded away from 0 *)
Theorem C03_bisection_terminates_R : forall beta r0 eta0 zeta0 dt sf m, 0 < m ->
  forall fuel X Xmin Xmax Gs cnt hang,
  (m <= Xmin \/ Xmax <= - m) -> Xmin <= Xmax -> X = (Xmax + Xmin) / 2 ->
  Xmax - Xmin <= 2 ^ fuel * (2 * m / 10 ^ 15) ->
  let res := bisect_loop RNum beta r0 eta0 zeta0 dt sf (S fuel) X Xmin Xmax Gs cnt hang in
  snd res = false /\ Xmin <= fst (fst (fst (fst res))) <= Xmax /\
  (snd (fst (fst res)) <= cnt + S fuel)%nat.
Proof. exact bisect_terminates_R. Qed.
Print Assumptions C03_bisection_terminates_R.

(* ------------------------------------------------------------------ flags established by whfast_init on every step *)
(* whfast_init_body is REGENERATED from src/integrator_whfast.c (tools/translate_whfast_init.py, fail-closed).
   Every path of reb_integrator_whfast_init that reaches a normal exit assigns r->gravity_ignore_terms or r->gravity:
   the term selection of the Kepler/interaction split (which star-planet pairs the gravity routine leaves to the
   Kepler step) is ESTABLISHED at the start of every WHFast/SABA step, never inherited from an earlier step, another
   integrator or another coordinate system. *)
Theorem C03_whfast_init_establishes_force_split :
  always_assigns ["gravity_ignore_terms"%string; "gravity"%string] whfast_init_body = true.
Proof. vm_compute. reflexivity. Qed.
Print Assumptions C03_whfast_init_establishes_force_split.

(* the only shared (struct reb_simulation) flags whfast_init writes are these two *)
Theorem C03_whfast_init_shared_writes :
  forallb (fun f => mem f ["gravity_ignore_terms"%string; "gravity"%string]) (shared_fields_written whfast_init_body) = true.
Proof. vm_compute. reflexivity. Qed.
Print Assumptions C03_whfast_init_shared_writes.

(* r->gravity itself is NOT assigned on every path (with the default kernel it is inherited) ... *)
Theorem C03_whfast_init_establishes_gravity_refuted :
  some_path_inherits ["gravity"%string] whfast_init_body = true.
Proof. vm_compute. reflexivity. Qed.
Print Assumptions C03_whfast_init_establishes_gravity_refuted.

(* ... but what is inherited is harmless since fix 132424f: executing the regenerated tree (conditions on kernel,
   coordinates, gravity evaluated; every other condition taken both ways; error exits dropped) from EVERY start
   (4 kernels x 4 coordinate systems x 7 gravity routines of rebound.h), at every normal exit
   r->gravity == REB_GRAVITY_JACOBI only together with Jacobi coordinates: a JACOBI gravity routine left behind by a
   kernel or a SABA corrector can no longer reach a barycentric / DH / WHDS interaction step (the former finding
   kepler:history_stale_gravity_jacobi); the second conjunct says the statement is about a non-empty set of exits. *)
Theorem C03_whfast_init_jacobi_gravity_only_with_jacobi_coordinates :
  all_starts whfast_kernels whfast_coordinates gravity_routines whfast_init_body jacobi_ok = true /\
  Nat.ltb 100 (count_exits whfast_kernels whfast_coordinates gravity_routines whfast_init_body) = true.
Proof. vm_compute. split; reflexivity. Qed.
Print Assumptions C03_whfast_init_jacobi_gravity_only_with_jacobi_coordinates.

(* ------------------------------------------------------------------ corners of the quantified space *)
(* kepler_hyp asks for r0 > 0 and a positive new radius, nothing else: no sign condition on M, beta, X, dt and no
   condition on the angular momentum, so C03_fg_step_on_exact_orbit covers M = 0, M < 0 (repulsive), e = 0, dt = 0 and
   radial orbits as long as the body does not reach the centre within the step.  What the CODE does outside
   (r0 = 0, collision within the step, non-finite arguments, |x| beyond ~1e154 or below ~1e-154 where x*x over/underflows)
   is not covered by any theorem: there the model and the library are compared bit for bit and the call must return
   (tools/c03.py solver_corners, judge "terminate").  ell_dom (kflow) additionally excludes x × v = 0, beta <= 0, M <= 0.
   M = 0: uniform motion, whatever X and the G's are. *)
Theorem C03_zero_mass_is_uniform_motion : forall (dt r0i ri G1 G2 G3 : R) (p : P6),
  let '(x, y, z, vx, vy, vz) := p in
  fg_update RNum 0 dt r0i ri G1 G2 G3 p = (x + dt * vx, y + dt * vy, z + dt * vz, vx, vy, vz).
Proof. exact zero_mass_uniform_motion. Qed.
Print Assumptions C03_zero_mass_is_uniform_motion.

(* dt = 0 at X = 0: the update is the identity for every M (see also C03_zero_step_is_identity, C03_kflow_zero). *)
Theorem C03_zero_step_update_is_identity : forall (M r0i ri : R) (p : P6), fg_update RNum M 0 r0i ri 0 0 0 p = p.
Proof. exact zero_step_identity. Qed.
Print Assumptions C03_zero_step_update_is_identity.

(* Non-vacuity: an eccentric elliptic state (e = 3/5, beta = 1) and a parabolic one (beta = 0) with
   rational G's meet every hypothesis of C03_fg_step_on_exact_orbit; C03_fg_step_closed_form and
   Gcf_identities show the intended (transcendental) instance meets them for all beta, X. *)
Example C03_hypotheses_inhabited :
  kepler_hyp (1, 0, 0, 3/5, 4/5, 0) 1 (31/25) 1 1 1 (3/5) (4/5) (2/5) (1/5) /\
  kepler_hyp (1, 0, 0, 1, 1, 0) 1 (5/3) 1 0 1 1 1 (1/2) (1/6).
Proof. unfold kepler_hyp, pos2, vel2, xdotv. cbv zeta. repeat split; lra. Qed.

(* the elliptic domain of kflow is inhabited (circular orbit of radius 1, M = 1) *)
Example C03_ell_dom_inhabited : ell_dom 1 (1, 0, 0, 0, 1, 0).
Proof.
  unfold ell_dom, radius, pos2, vel2, h2of, xdotv, pos2, vel2.
  replace (1 * 1 + 0 * 0 + 0 * 0) with 1 by ring. rewrite sqrt_1. repeat split; lra.
Qed.
