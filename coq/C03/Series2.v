(* C03 round 3: truncation error of stumpff_cs3's series for z < 0 (cosh/sinh branch) and of stumpff_cs's
   15-term series (both signs), over R.  The hyperbolic branch bounds the tail of the exponential series
   (Coq's exp is defined as the sum of x^i/i!) by a geometric series of ratio 1/2. *)
From Coq Require Import Reals Lra Lia.
From RV Require Import Common.Num Common.RealNum C03.Model C03.Proofs C03.Series.
Open Scope R_scope.

(* ------------------------------------------------------------------ tail of the exponential series *)
Definition et (x : R) (i : nat) : R := / INR (fact i) * x ^ i.

Lemma et_S x i : et x (S i) = et x i * (x / INR (S i)).
Proof.
  unfold et. rewrite fact_simpl, mult_INR. simpl pow. field.
  split; [apply not_0_INR; lia | apply INR_fact_neq_0].
Qed.

Lemma et_decay x m : Rabs x <= 1 -> (1 <= m)%nat -> forall k, Rabs (et x (m + k)) <= Rabs (et x m) * (1 / 2) ^ k.
Proof.
  intros Hx Hm. induction k as [|k IH].
  - rewrite Nat.add_0_r. simpl. lra.
  - rewrite Nat.add_succ_r, et_S, Rabs_mult.
    assert (Hq : Rabs (x / INR (S (m + k))) <= 1 / 2).
    { unfold Rdiv. rewrite Rabs_mult, Rabs_inv.
      assert (H2 : 2 <= INR (S (m + k))).
      { replace 2 with (INR 2) by (simpl; lra). apply le_INR. lia. }
      rewrite (Rabs_pos_eq (INR _)) by lra.
      assert (Hi : 0 < / INR (S (m + k))) by (apply Rinv_0_lt_compat; lra).
      assert (Hi2 : / INR (S (m + k)) <= / 2) by (apply Rinv_le_contravar; lra).
      pose proof (Rabs_pos x). nra. }
    simpl pow. pose proof (Rabs_pos (et x (m + k))).
    assert (Hp : 0 <= (1 / 2) ^ k) by (apply pow_le; lra).
    pose proof (Rabs_pos (x / INR (S (m + k)))). nra.
Qed.

Lemma sum_shift (f : nat -> R) N n :
  sum_f_R0 f (S N + n) - sum_f_R0 f N = sum_f_R0 (fun k => f (S N + k)%nat) n.
Proof.
  induction n as [|n IH].
  - cbn [sum_f_R0]. rewrite !Nat.add_0_r. cbn [sum_f_R0]. ring.
  - cbn [sum_f_R0]. rewrite <- IH. rewrite !Nat.add_succ_r. cbn [sum_f_R0]. ring.
Qed.

Lemma geom_half n : sum_f_R0 (fun k => (1 / 2) ^ k) n = 2 - (1 / 2) ^ n.
Proof. induction n as [|n IH]; [simpl; lra|]. simpl sum_f_R0. rewrite IH. simpl. field. Qed.

Lemma partial_tail x N n : Rabs x <= 1 ->
  Rabs (sum_f_R0 (et x) (S N + n) - sum_f_R0 (et x) N) <= 2 * Rabs (et x (S N)).
Proof.
  intros Hx. rewrite sum_shift.
  eapply Rle_trans; [apply Rsum_abs|].
  eapply Rle_trans.
  - apply sum_Rle. intros k _. apply (et_decay x (S N) Hx); lia.
  - assert (E : sum_f_R0 (fun k => Rabs (et x (S N)) * (1 / 2) ^ k) n =
                Rabs (et x (S N)) * sum_f_R0 (fun k => (1 / 2) ^ k) n).
    { rewrite scal_sum. apply sum_eq. intros; ring. }
    rewrite E, geom_half.
    assert (0 <= (1 / 2) ^ n) by (apply pow_le; lra). pose proof (Rabs_pos (et x (S N))). nra.
Qed.

Theorem exp_tail x N : Rabs x <= 1 -> Rabs (exp x - sum_f_R0 (et x) N) <= 2 * Rabs (et x (S N)).
Proof.
  intros Hx. apply le_epsilon. intros eps Heps.
  pose proof (proj2_sig (exist_exp x)) as Hin. change (proj1_sig (exist_exp x)) with (exp x) in Hin.
  unfold exp_in, infinite_sum in Hin. destruct (Hin eps Heps) as [N0 HN0].
  specialize (HN0 (S N + N0)%nat ltac:(lia)). unfold R_dist in HN0.
  change (fun i : nat => / INR (fact i) * x ^ i) with (et x) in HN0.
  pose proof (partial_tail x N N0 Hx) as HT.
  replace (exp x - sum_f_R0 (et x) N) with
    (- (sum_f_R0 (et x) (S N + N0) - exp x) + (sum_f_R0 (et x) (S N + N0) - sum_f_R0 (et x) N)) by ring.
  eapply Rle_trans; [apply Rabs_triang|]. rewrite Rabs_Ropp. lra.
Qed.

(* ------------------------------------------------------------------ stumpff_cs3, z < 0 *)
Lemma abs_div_bound D d B : 0 < d -> Rabs D <= B * d -> Rabs (D / d) <= B.
Proof.
  intros Hd H. unfold Rdiv. rewrite Rabs_mult, Rabs_inv, (Rabs_pos_eq d) by lra.
  assert (Hi : 0 < / d) by (apply Rinv_0_lt_compat; lra).
  assert (E : d * / d = 1) by (apply Rinv_r; lra).
  pose proof (Rmult_le_compat_r (/ d) _ _ (Rlt_le _ _ Hi) H) as H'.
  rewrite Rmult_assoc, E, Rmult_1_r in H'. exact H'.
Qed.

Lemma et_abs s n : 0 <= s -> Rabs (et s n) = s ^ n / rfact n /\ Rabs (et (- s) n) = s ^ n / rfact n.
Proof.
  intros Hs. unfold et. rewrite fact_rfact. pose proof (rfact_pos n) as Hp.
  assert (Hpow : 0 <= s ^ n) by (apply pow_le; exact Hs).
  split.
  - rewrite Rabs_mult, Rabs_inv, (Rabs_pos_eq (rfact n)), (Rabs_pos_eq (s ^ n) Hpow) by lra. field; lra.
  - rewrite Rabs_mult, Rabs_inv, (Rabs_pos_eq (rfact n)) by lra.
    rewrite <- RPow_abs, Rabs_Ropp, (Rabs_pos_eq s Hs). field; lra.
Qed.

Lemma cosh_sum13 s : (sum_f_R0 (et s) 13 + sum_f_R0 (et (- s)) 13) / 2 = 1 + s * s * P2 (- (s * s)).
Proof.
  unfold et. cbn [sum_f_R0]. rewrite !fact_rfact.
  rewrite rf1, rf2, rf3, rf4, rf5, rf6, rf7, rf8, rf9, rf10, rf11, rf12, rf13. cbn [rfact].
  unfold P2. simpl pow. field.
Qed.

Lemma sinh_sum14 s : (sum_f_R0 (et s) 14 - sum_f_R0 (et (- s)) 14) / 2 = s * (1 + s * s * P3 (- (s * s))).
Proof.
  unfold et. cbn [sum_f_R0]. rewrite !fact_rfact.
  rewrite rf1, rf2, rf3, rf4, rf5, rf6, rf7, rf8, rf9, rf10, rf11, rf12, rf13, rf14. cbn [rfact].
  unfold P3. simpl pow. field.
Qed.

Lemma cosh_tail s : 0 <= s <= 1 -> Rabs (cosh s - (1 + s * s * P2 (- (s * s)))) <= 2 * (s ^ 14 / 87178291200).
Proof.
  intros [H0 H1]. rewrite <- cosh_sum13. unfold cosh.
  assert (Ha : Rabs s <= 1) by (rewrite Rabs_pos_eq; lra).
  assert (Hb : Rabs (- s) <= 1) by (rewrite Rabs_Ropp; exact Ha).
  pose proof (exp_tail s 13 Ha) as T1. pose proof (exp_tail (- s) 13 Hb) as T2.
  destruct (et_abs s 14 H0) as [E1 E2]. rewrite E1 in T1. rewrite E2 in T2. rewrite rf14 in T1, T2.
  replace ((exp s + exp (- s)) / 2 - (sum_f_R0 (et s) 13 + sum_f_R0 (et (- s)) 13) / 2)
    with ((exp s - sum_f_R0 (et s) 13) / 2 + (exp (- s) - sum_f_R0 (et (- s)) 13) / 2) by field.
  eapply Rle_trans; [apply Rabs_triang|].
  unfold Rdiv at 1 2. rewrite !Rabs_mult, (Rabs_pos_eq (/ 2)) by lra. lra.
Qed.

Lemma sinh_tail s : 0 <= s <= 1 -> Rabs (sinh s - s * (1 + s * s * P3 (- (s * s)))) <= 2 * (s ^ 15 / 1307674368000).
Proof.
  intros [H0 H1]. rewrite <- sinh_sum14. unfold sinh.
  assert (Ha : Rabs s <= 1) by (rewrite Rabs_pos_eq; lra).
  assert (Hb : Rabs (- s) <= 1) by (rewrite Rabs_Ropp; exact Ha).
  pose proof (exp_tail s 14 Ha) as T1. pose proof (exp_tail (- s) 14 Hb) as T2.
  destruct (et_abs s 15 H0) as [E1 E2]. rewrite E1 in T1. rewrite E2 in T2. rewrite rf15 in T1, T2.
  replace ((exp s - exp (- s)) / 2 - (sum_f_R0 (et s) 14 - sum_f_R0 (et (- s)) 14) / 2)
    with ((exp s - sum_f_R0 (et s) 14) / 2 + - ((exp (- s) - sum_f_R0 (et (- s)) 14) / 2)) by field.
  eapply Rle_trans; [apply Rabs_triang|]. rewrite Rabs_Ropp.
  unfold Rdiv at 1 2. rewrite !Rabs_mult, (Rabs_pos_eq (/ 2)) by lra. lra.
Qed.

(* truncation error of stumpff_cs3's series for -1 <= z < 0: at most twice the first omitted term *)
Theorem series3_trunc_neg z : -1 <= z < 0 ->
  let '(t0, t1, t2, t3) := series3 RNum z in
  let '(c0, c1, c2, c3) := Ccf z in
  Rabs (c0 - t0) <= 2 * ((- z) ^ 7 / 87178291200) /\
  Rabs (c1 - t1) <= 2 * ((- z) ^ 7 / 1307674368000) /\
  Rabs (c2 - t2) <= 2 * ((- z) ^ 6 / 87178291200) /\
  Rabs (c3 - t3) <= 2 * ((- z) ^ 6 / 1307674368000).
Proof.
  intros [Hz1 Hz0]. rewrite series3_poly. unfold Ccf.
  destruct (Rlt_dec 0 z) as [H|_]; [lra|]. destruct (Rlt_dec z 0) as [_|H]; [|lra].
  unfold Cneg. cbv zeta.
  assert (Hs : 0 < sqrt (- z)) by (apply sqrt_lt_R0; lra).
  assert (Hzz : z = - (sqrt (- z) * sqrt (- z))) by (rewrite sqrt_sqrt; lra).
  set (s := sqrt (- z)) in *. clearbody s. subst z.
  assert (Hs1 : s <= 1) by nra.
  pose proof (cosh_tail s (conj (Rlt_le _ _ Hs) Hs1)) as CT.
  pose proof (sinh_tail s (conj (Rlt_le _ _ Hs) Hs1)) as ST.
  replace ((- - (s * s)) ^ 7) with (s ^ 14) by ring. replace ((- - (s * s)) ^ 6) with (s ^ 12) by ring.
  set (p2 := P2 (- (s * s))) in *. set (p3 := P3 (- (s * s))) in *.
  assert (Hss : 0 < s * s) by nra. assert (Hsss : 0 < s * s * s) by nra.
  split; [|split; [|split]].
  - replace (cosh s - (1 - - (s * s) * p2)) with (cosh s - (1 + s * s * p2)) by ring. exact CT.
  - replace (sinh s / s - (1 - - (s * s) * p3)) with ((sinh s - s * (1 + s * s * p3)) / s) by (field; lra).
    apply abs_div_bound; [exact Hs|].
    replace (2 * (s ^ 14 / 1307674368000) * s) with (2 * (s ^ 15 / 1307674368000)) by (simpl; field). exact ST.
  - replace ((1 - cosh s) / - (s * s) - p2) with ((cosh s - (1 + s * s * p2)) / (s * s)) by (field; lra).
    apply abs_div_bound; [exact Hss|].
    replace (2 * (s ^ 12 / 87178291200) * (s * s)) with (2 * (s ^ 14 / 87178291200)) by (simpl; field). exact CT.
  - replace ((s - sinh s) / (- (s * s) * s) - p3) with ((sinh s - s * (1 + s * s * p3)) / (s * s * s)) by (field; lra).
    apply abs_div_bound; [exact Hsss|].
    replace (2 * (s ^ 12 / 1307674368000) * (s * s * s)) with (2 * (s ^ 15 / 1307674368000)) by (simpl; field). exact ST.
Qed.

(* ------------------------------------------------------------------ stumpff_cs (15-term series) *)
Definition Q5 (z : R) : R :=
  1/120 - z * (1/5040 - z * (1/362880 - z * (1/39916800 - z * (1/6227020800 - z * (1/1307674368000))))).
Definition Q4 (z : R) : R :=
  1/24 - z * (1/720 - z * (1/40320 - z * (1/3628800 - z * (1/479001600 - z * (1/87178291200))))).
Definition T3 (z : R) : R := 1/6 - z * Q5 z.
Definition T2 (z : R) : R := 1/2 - z * Q4 z.

Lemma series5_poly z : series5 RNum z = (1 - z * T3 z, T2 z, T3 z, Q4 z, Q5 z).
Proof.
  unfold series5, T2, T3, Q4, Q5, if1, if2, if3, if4, if5, if6, if7, if8, if9, if10, if11, if12, if13, if14, if15, invf, cz.
  cbn [nadd nsub nmul ndiv none nofZ RNum]. reflexivity.
Qed.

(* closed forms of c4, c5 (z <> 0): c4 = (1/2 - c2)/z, c5 = (1/6 - c3)/z *)
Definition Ccf45 (z : R) : R * R :=
  let '(_, _, c2, c3) := Ccf z in ((1 / 2 - c2) / z, (1 / 6 - c3) / z).

Lemma sin_approx7 s : sin_approx s 7 = s * (1 - s * s * T3 (s * s)).
Proof.
  unfold sin_approx. cbn [sum_f_R0]. unfold sin_term.
  replace (2 * 0 + 1)%nat with 1%nat by reflexivity. replace (2 * 1 + 1)%nat with 3%nat by reflexivity.
  replace (2 * 2 + 1)%nat with 5%nat by reflexivity. replace (2 * 3 + 1)%nat with 7%nat by reflexivity.
  replace (2 * 4 + 1)%nat with 9%nat by reflexivity. replace (2 * 5 + 1)%nat with 11%nat by reflexivity.
  replace (2 * 6 + 1)%nat with 13%nat by reflexivity. replace (2 * 7 + 1)%nat with 15%nat by reflexivity.
  rewrite !fact_rfact, rf1, rf3, rf5, rf7, rf9, rf11, rf13, rf15. unfold T3, Q5. simpl pow. field.
Qed.
Lemma cos_approx7 s : cos_approx s 7 = 1 - s * s * T2 (s * s).
Proof.
  unfold cos_approx. cbn [sum_f_R0]. unfold cos_term.
  replace (2 * 0)%nat with 0%nat by reflexivity. replace (2 * 1)%nat with 2%nat by reflexivity.
  replace (2 * 2)%nat with 4%nat by reflexivity. replace (2 * 3)%nat with 6%nat by reflexivity.
  replace (2 * 4)%nat with 8%nat by reflexivity. replace (2 * 5)%nat with 10%nat by reflexivity.
  replace (2 * 6)%nat with 12%nat by reflexivity. replace (2 * 7)%nat with 14%nat by reflexivity.
  rewrite !fact_rfact, rf2, rf4, rf6, rf8, rf10, rf12, rf14. unfold T2, Q4. simpl pow. cbn [rfact]. field.
Qed.

Lemma sin_tail7 a : 0 <= a <= 1 -> 0 <= sin a - sin_approx a 7 <= a ^ 17 / 355687428096000.
Proof.
  intros [H0 H1]. assert (HPI : a <= 4) by lra.
  pose proof (pre_sin_bound a 3 H0 HPI) as [L U].
  replace (2 * 3 + 1)%nat with 7%nat in L by reflexivity.
  replace (2 * (3 + 1))%nat with 8%nat in U by reflexivity.
  unfold sin_approx in U. cbn [sum_f_R0] in U. unfold sin_term at 9 in U.
  replace (2 * 8 + 1)%nat with 17%nat in U by reflexivity.
  rewrite fact_rfact, rf17 in U.
  assert (E8 : (-1) ^ 8 = 1) by (simpl; ring). rewrite E8 in U.
  unfold sin_approx in *. cbn [sum_f_R0] in *. lra.
Qed.
Lemma cos_tail7 a : 0 <= a <= 1 -> 0 <= cos a - cos_approx a 7 <= a ^ 16 / 20922789888000.
Proof.
  intros [H0 H1]. assert (HPI : a <= 2) by lra. assert (HPI' : -2 <= a) by lra.
  pose proof (pre_cos_bound a 3 HPI' HPI) as [L U].
  replace (2 * 3 + 1)%nat with 7%nat in L by reflexivity.
  replace (2 * (3 + 1))%nat with 8%nat in U by reflexivity.
  unfold cos_approx in U. cbn [sum_f_R0] in U. unfold cos_term at 9 in U.
  replace (2 * 8)%nat with 16%nat in U by reflexivity.
  rewrite fact_rfact, rf16 in U.
  assert (E8 : (-1) ^ 8 = 1) by (simpl; ring). rewrite E8 in U.
  unfold cos_approx in *. cbn [sum_f_R0] in *. lra.
Qed.

Lemma cosh_sum15 s : (sum_f_R0 (et s) 15 + sum_f_R0 (et (- s)) 15) / 2 = 1 + s * s * T2 (- (s * s)).
Proof.
  unfold et. cbn [sum_f_R0]. rewrite !fact_rfact.
  rewrite rf1, rf2, rf3, rf4, rf5, rf6, rf7, rf8, rf9, rf10, rf11, rf12, rf13, rf14, rf15. cbn [rfact].
  unfold T2, Q4. simpl pow. field.
Qed.
Lemma sinh_sum16 s : (sum_f_R0 (et s) 16 - sum_f_R0 (et (- s)) 16) / 2 = s * (1 + s * s * T3 (- (s * s))).
Proof.
  unfold et. cbn [sum_f_R0]. rewrite !fact_rfact.
  rewrite rf1, rf2, rf3, rf4, rf5, rf6, rf7, rf8, rf9, rf10, rf11, rf12, rf13, rf14, rf15, rf16. cbn [rfact].
  unfold T3, Q5. simpl pow. field.
Qed.

Lemma cosh_tail15 s : 0 <= s <= 1 -> Rabs (cosh s - (1 + s * s * T2 (- (s * s)))) <= 2 * (s ^ 16 / 20922789888000).
Proof.
  intros [H0 H1]. rewrite <- cosh_sum15. unfold cosh.
  assert (Ha : Rabs s <= 1) by (rewrite Rabs_pos_eq; lra).
  assert (Hb : Rabs (- s) <= 1) by (rewrite Rabs_Ropp; exact Ha).
  pose proof (exp_tail s 15 Ha) as T1. pose proof (exp_tail (- s) 15 Hb) as T2'.
  destruct (et_abs s 16 H0) as [E1 E2]. rewrite E1 in T1. rewrite E2 in T2'. rewrite rf16 in T1, T2'.
  replace ((exp s + exp (- s)) / 2 - (sum_f_R0 (et s) 15 + sum_f_R0 (et (- s)) 15) / 2)
    with ((exp s - sum_f_R0 (et s) 15) / 2 + (exp (- s) - sum_f_R0 (et (- s)) 15) / 2) by field.
  eapply Rle_trans; [apply Rabs_triang|].
  unfold Rdiv at 1 2. rewrite !Rabs_mult, (Rabs_pos_eq (/ 2)) by lra. lra.
Qed.
Lemma sinh_tail16 s : 0 <= s <= 1 -> Rabs (sinh s - s * (1 + s * s * T3 (- (s * s)))) <= 2 * (s ^ 17 / 355687428096000).
Proof.
  intros [H0 H1]. rewrite <- sinh_sum16. unfold sinh.
  assert (Ha : Rabs s <= 1) by (rewrite Rabs_pos_eq; lra).
  assert (Hb : Rabs (- s) <= 1) by (rewrite Rabs_Ropp; exact Ha).
  pose proof (exp_tail s 16 Ha) as T1. pose proof (exp_tail (- s) 16 Hb) as T2'.
  destruct (et_abs s 17 H0) as [E1 E2]. rewrite E1 in T1. rewrite E2 in T2'. rewrite rf17 in T1, T2'.
  replace ((exp s - exp (- s)) / 2 - (sum_f_R0 (et s) 16 - sum_f_R0 (et (- s)) 16) / 2)
    with ((exp s - sum_f_R0 (et s) 16) / 2 + - ((exp (- s) - sum_f_R0 (et (- s)) 16) / 2)) by field.
  eapply Rle_trans; [apply Rabs_triang|]. rewrite Rabs_Ropp.
  unfold Rdiv at 1 2. rewrite !Rabs_mult, (Rabs_pos_eq (/ 2)) by lra. lra.
Qed.

Lemma abs_of_bounds D B : 0 <= D <= B -> Rabs D <= B.
Proof. intros [H0 H1]. rewrite Rabs_pos_eq; lra. Qed.

(* truncation error of stumpff_cs's series (model term series5), 0 < z <= 1 *)
Theorem series5_trunc_pos z : 0 < z <= 1 ->
  let '(t1, t2, t3, t4, t5) := series5 RNum z in
  let '(c0, c1, c2, c3) := Ccf z in
  let '(c4, c5) := Ccf45 z in
  Rabs (c1 - t1) <= z ^ 8 / 355687428096000 /\
  Rabs (c2 - t2) <= z ^ 7 / 20922789888000 /\
  Rabs (c3 - t3) <= z ^ 7 / 355687428096000 /\
  Rabs (c4 - t4) <= z ^ 6 / 20922789888000 /\
  Rabs (c5 - t5) <= z ^ 6 / 355687428096000.
Proof.
  intros [Hz0 Hz1]. rewrite series5_poly. unfold Ccf45, Ccf. destruct (Rlt_dec 0 z) as [_|H]; [|lra].
  unfold Cpos. cbv zeta.
  assert (Hs : 0 < sqrt z) by (apply sqrt_lt_R0; exact Hz0).
  assert (Hzz : z = sqrt z * sqrt z) by (symmetry; apply sqrt_sqrt; lra).
  set (s := sqrt z) in *. clearbody s. subst z.
  assert (Hs1 : s <= 1) by nra.
  pose proof (abs_of_bounds _ _ (sin_tail7 s (conj (Rlt_le _ _ Hs) Hs1))) as ST. rewrite sin_approx7 in ST.
  pose proof (abs_of_bounds _ _ (cos_tail7 s (conj (Rlt_le _ _ Hs) Hs1))) as CT. rewrite cos_approx7 in CT.
  replace ((s * s) ^ 8) with (s ^ 16) by ring. replace ((s * s) ^ 7) with (s ^ 14) by ring.
  replace ((s * s) ^ 6) with (s ^ 12) by ring.
  unfold T2, T3 in *. set (q4 := Q4 (s * s)) in *. set (q5 := Q5 (s * s)) in *.
  set (D1 := sin s - s * (1 - s * s * (1 / 6 - s * s * q5))) in *.
  set (D0 := cos s - (1 - s * s * (1 / 2 - s * s * q4))) in *.
  assert (Hss : 0 < s * s) by nra. assert (Hsss : 0 < s * s * s) by nra.
  assert (H4 : 0 < s * s * (s * s)) by nra. assert (H5 : 0 < s * s * s * (s * s)) by nra.
  split; [|split; [|split; [|split]]].
  - replace (sin s / s - (1 - s * s * (1 / 6 - s * s * q5))) with (D1 / s) by (unfold D1; field; lra).
    apply abs_div_bound; [exact Hs|]. replace (s ^ 16 / 355687428096000 * s) with (s ^ 17 / 355687428096000) by (simpl; field). exact ST.
  - replace ((1 - cos s) / (s * s) - (1 / 2 - s * s * q4)) with (- D0 / (s * s)) by (unfold D0; field; lra).
    apply abs_div_bound; [exact Hss|]. rewrite Rabs_Ropp.
    replace (s ^ 14 / 20922789888000 * (s * s)) with (s ^ 16 / 20922789888000) by (simpl; field). exact CT.
  - replace ((s - sin s) / (s * s * s) - (1 / 6 - s * s * q5)) with (- D1 / (s * s * s)) by (unfold D1; field; lra).
    apply abs_div_bound; [exact Hsss|]. rewrite Rabs_Ropp.
    replace (s ^ 14 / 355687428096000 * (s * s * s)) with (s ^ 17 / 355687428096000) by (simpl; field). exact ST.
  - replace ((1 / 2 - (1 - cos s) / (s * s)) / (s * s) - q4) with (D0 / (s * s * (s * s))) by (unfold D0; field; lra).
    apply abs_div_bound; [exact H4|].
    replace (s ^ 12 / 20922789888000 * (s * s * (s * s))) with (s ^ 16 / 20922789888000) by (simpl; field). exact CT.
  - replace ((1 / 6 - (s - sin s) / (s * s * s)) / (s * s) - q5) with (D1 / (s * s * s * (s * s))) by (unfold D1; field; lra).
    apply abs_div_bound; [exact H5|].
    replace (s ^ 12 / 355687428096000 * (s * s * s * (s * s))) with (s ^ 17 / 355687428096000) by (simpl; field). exact ST.
Qed.

(* ... and -1 <= z < 0 *)
Theorem series5_trunc_neg z : -1 <= z < 0 ->
  let '(t1, t2, t3, t4, t5) := series5 RNum z in
  let '(c0, c1, c2, c3) := Ccf z in
  let '(c4, c5) := Ccf45 z in
  Rabs (c1 - t1) <= 2 * ((- z) ^ 8 / 355687428096000) /\
  Rabs (c2 - t2) <= 2 * ((- z) ^ 7 / 20922789888000) /\
  Rabs (c3 - t3) <= 2 * ((- z) ^ 7 / 355687428096000) /\
  Rabs (c4 - t4) <= 2 * ((- z) ^ 6 / 20922789888000) /\
  Rabs (c5 - t5) <= 2 * ((- z) ^ 6 / 355687428096000).
Proof.
  intros [Hz1 Hz0]. rewrite series5_poly. unfold Ccf45, Ccf.
  destruct (Rlt_dec 0 z) as [H|_]; [lra|]. destruct (Rlt_dec z 0) as [_|H]; [|lra].
  unfold Cneg. cbv zeta.
  assert (Hs : 0 < sqrt (- z)) by (apply sqrt_lt_R0; lra).
  assert (Hzz : z = - (sqrt (- z) * sqrt (- z))) by (rewrite sqrt_sqrt; lra).
  set (s := sqrt (- z)) in *. clearbody s. subst z.
  assert (Hs1 : s <= 1) by nra.
  pose proof (cosh_tail15 s (conj (Rlt_le _ _ Hs) Hs1)) as CT.
  pose proof (sinh_tail16 s (conj (Rlt_le _ _ Hs) Hs1)) as ST.
  replace ((- - (s * s)) ^ 8) with (s ^ 16) by ring. replace ((- - (s * s)) ^ 7) with (s ^ 14) by ring.
  replace ((- - (s * s)) ^ 6) with (s ^ 12) by ring.
  unfold T2, T3 in *. set (q4 := Q4 (- (s * s))) in *. set (q5 := Q5 (- (s * s))) in *.
  set (D1 := sinh s - s * (1 + s * s * (1 / 6 - - (s * s) * q5))) in *.
  set (D0 := cosh s - (1 + s * s * (1 / 2 - - (s * s) * q4))) in *.
  assert (Hss : 0 < s * s) by nra. assert (Hsss : 0 < s * s * s) by nra.
  assert (H4 : 0 < s * s * (s * s)) by nra. assert (H5 : 0 < s * s * s * (s * s)) by nra.
  split; [|split; [|split; [|split]]].
  - replace (sinh s / s - (1 - - (s * s) * (1 / 6 - - (s * s) * q5))) with (D1 / s) by (unfold D1; field; lra).
    apply abs_div_bound; [exact Hs|].
    replace (2 * (s ^ 16 / 355687428096000) * s) with (2 * (s ^ 17 / 355687428096000)) by (simpl; field). exact ST.
  - replace ((1 - cosh s) / - (s * s) - (1 / 2 - - (s * s) * q4)) with (D0 / (s * s)) by (unfold D0; field; lra).
    apply abs_div_bound; [exact Hss|].
    replace (2 * (s ^ 14 / 20922789888000) * (s * s)) with (2 * (s ^ 16 / 20922789888000)) by (simpl; field). exact CT.
  - replace ((s - sinh s) / (- (s * s) * s) - (1 / 6 - - (s * s) * q5)) with (D1 / (s * s * s)) by (unfold D1; field; lra).
    apply abs_div_bound; [exact Hsss|].
    replace (2 * (s ^ 14 / 355687428096000) * (s * s * s)) with (2 * (s ^ 17 / 355687428096000)) by (simpl; field). exact ST.
  - replace ((1 / 2 - (1 - cosh s) / - (s * s)) / - (s * s) - q4) with (D0 / (s * s * (s * s))) by (unfold D0; field; lra).
    apply abs_div_bound; [exact H4|].
    replace (2 * (s ^ 12 / 20922789888000) * (s * s * (s * s))) with (2 * (s ^ 16 / 20922789888000)) by (simpl; field). exact CT.
  - replace ((1 / 6 - (s - sinh s) / (- (s * s) * s)) / - (s * s) - q5) with (D1 / (s * s * s * (s * s))) by (unfold D1; field; lra).
    apply abs_div_bound; [exact H5|].
    replace (2 * (s ^ 12 / 355687428096000) * (s * s * s * (s * s))) with (2 * (s ^ 17 / 355687428096000)) by (simpl; field). exact ST.
Qed.

(* stumpff_cs3 on the whole range the code feeds to the series after quartering: |z| <= 0.1, either sign *)
Theorem series3_trunc_tenth z : Rabs z <= 1 / 10 ->
  let '(t0, t1, t2, t3) := series3 RNum z in
  let '(c0, c1, c2, c3) := Ccf z in
  Rabs (c0 - t0) <= 24 / 10 ^ 19 /\ Rabs (c1 - t1) <= 16 / 10 ^ 20 /\
  Rabs (c2 - t2) <= 24 / 10 ^ 18 /\ Rabs (c3 - t3) <= 16 / 10 ^ 19.
Proof.
  intros Hz. assert (Hl : - (1 / 10) <= z) by (pose proof (Rle_abs (- z)) as Q; rewrite Rabs_Ropp in Q; lra).
  assert (Hu : z <= 1 / 10) by (pose proof (Rle_abs z); lra).
  destruct (Rlt_dec 0 z) as [Hp|Hnp]; [|destruct (Rlt_dec z 0) as [Hn|Hnn]].
  - pose proof (series3_trunc_pos_tenth z (conj Hp Hu)) as H.
    destruct (series3 RNum z) as [[[t0 t1] t2] t3]. destruct (Ccf z) as [[[c0 c1] c2] c3].
    destruct H as (A & B & C & D). simpl pow in *. repeat split; lra.
  - pose proof (series3_trunc_neg z) as H.
    destruct (series3 RNum z) as [[[t0 t1] t2] t3]. destruct (Ccf z) as [[[c0 c1] c2] c3].
    destruct H as (A & B & C & D); [lra|].
    assert (P6 : (- z) ^ 6 <= 1 / 10 ^ 6).
    { replace (1 / 10 ^ 6) with ((1 / 10) ^ 6) by (simpl; field). apply pow_incr. lra. }
    assert (P7 : (- z) ^ 7 <= 1 / 10 ^ 7).
    { replace (1 / 10 ^ 7) with ((1 / 10) ^ 7) by (simpl; field). apply pow_incr. lra. }
    simpl pow in *. repeat split; lra.
  - assert (z = 0) by lra. subst z. rewrite series3_poly. unfold Ccf.
    destruct (Rlt_dec 0 0); [lra|]. destruct (Rlt_dec 0 0); [lra|]. unfold Czero, P2, P3.
    simpl pow. repeat split; (replace (_ - _) with 0 by field); rewrite Rabs_R0; lra.
Qed.
