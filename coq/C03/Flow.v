(* C03 round 2: the flow (group) law of the exact Kepler step, over R.
   exact_step M dt p p' : p' is the model's f-g update of p for SOME X, G0..G3 obeying the Stumpff/Stiefel
   identities and the universal Kepler equation for dt (kepler_hyp of Proofs.v).
   Group law: exact_step dt1 followed by exact_step dt2 is an exact_step of dt1+dt2 (universal anomalies add,
   the G's combine by the addition theorems); the closed-form family is closed under those addition theorems
   (Derivs.v: Gdir_addition), so the composite step uses the same functions evaluated at X1+X2. *)
From Coq Require Import List ZArith Reals Lra Lia Nsatz Bool.
From RV Require Import Common.Num Common.RealNum C03.Model C03.Proofs.
Open Scope R_scope.

(* addition theorems of the Stiefel functions, as a definition on 4-tuples *)
Definition Gadd (beta : R) (A B : CS) : CS :=
  let '(A0, A1, A2, A3) := A in let '(B0, B1, B2, B3) := B in
  (A0 * B0 - beta * A1 * B1, A1 * B0 + A0 * B1, A2 + A0 * B2 + A1 * B1, A3 + B3 + A1 * B2 + A2 * B1).

Section GroupScalar.
Variables (M r0 r0i r1 r1i r2 r2i beta eta0 X1 X2 A0 A1 A2 A3 B0 B1 B2 B3 : R).
Hypothesis H0 : r0 * r0i = 1.
Hypothesis H1 : r1 * r1i = 1.
Hypothesis H2 : r2 * r2i = 1.
Hypothesis HA0 : A0 = 1 - beta * A2.
Hypothesis HA1 : A1 = X1 - beta * A3.
Hypothesis HA2 : A1 * A1 = A2 * (1 + A0).
Hypothesis HB0 : B0 = 1 - beta * B2.
Hypothesis HB1 : B1 = X2 - beta * B3.
Hypothesis HB2 : B1 * B1 = B2 * (1 + B0).
Let zeta0 := M - beta * r0.
Hypothesis Hr1 : r1 = r0 + eta0 * A1 + zeta0 * A2.
Let eta1 := eta0 * A0 + zeta0 * A1.
Let zeta1 := M - beta * r1.
Hypothesis Hr2 : r2 = r1 + eta1 * B1 + zeta1 * B2.
Let dt1 := r0 * X1 + eta0 * A2 + zeta0 * A3.
Let dt2 := r1 * X2 + eta1 * B2 + zeta1 * B3.
Let C0 := A0 * B0 - beta * A1 * B1.
Let C1 := A1 * B0 + A0 * B1.
Let C2 := A2 + A0 * B2 + A1 * B1.
Let C3 := A3 + B3 + A1 * B2 + A2 * B1.
Lemma gs_r : r2 = r0 + eta0 * C1 + zeta0 * C2.
Proof. unfold C1, C2, eta1, zeta1, zeta0 in *. nsatz. Qed.
Lemma gs_dt : dt1 + dt2 = r0 * (X1 + X2) + eta0 * C2 + zeta0 * C3.
Proof. unfold dt1, dt2, C2, C3, eta1, zeta1, zeta0 in *. nsatz. Qed.
Lemma gs_C : C0 = 1 - beta * C2 /\ C1 = (X1 + X2) - beta * C3 /\ C1 * C1 = C2 * (1 + C0).
Proof. unfold C0, C1, C2, C3. repeat split; nsatz. Qed.
Let f1 := - M * A2 * r0i. Let g1 := dt1 - M * A3. Let fd1 := - M * A1 * r0i * r1i. Let gd1 := - M * A2 * r1i.
Let f2 := - M * B2 * r1i. Let g2 := dt2 - M * B3. Let fd2 := - M * B1 * r1i * r2i. Let gd2 := - M * B2 * r2i.
Let f3 := - M * C2 * r0i. Let g3 := dt1 + dt2 - M * C3. Let fd3 := - M * C1 * r0i * r2i. Let gd3 := - M * C2 * r2i.
Lemma gs_f : (1 + f2) * (1 + f1) + g2 * fd1 = 1 + f3.
Proof. unfold f1,f2,f3,g2,fd1,dt2,C2,eta1,zeta1,zeta0 in *. nsatz. Qed.
Lemma gs_g : (1 + f2) * g1 + g2 * (1 + gd1) = g3.
Proof. unfold f2,g1,g2,g3,gd1,dt1,dt2,C3,eta1,zeta1,zeta0 in *. nsatz. Qed.
Lemma gs_fd : fd2 * (1 + f1) + (1 + gd2) * fd1 = fd3.
Proof. unfold fd2,f1,gd2,fd1,fd3,C1,eta1,zeta1,zeta0 in *. nsatz. Qed.
Lemma gs_gd : fd2 * g1 + (1 + gd2) * (1 + gd1) = 1 + gd3.
Proof. unfold fd2,g1,gd2,gd1,gd3,dt1,C2,eta1,zeta1,zeta0 in *. nsatz. Qed.
End GroupScalar.

Ltac feed G :=
  repeat match type of G with
  | ?P -> _ => let h := fresh "h" in assert (h : P) by (assumption || reflexivity); specialize (G h); clear h
  end.

(* composing two f-g maps is the f-g map with the combined coefficients *)
Lemma fg_apply_compose (f1 g1 fd1 gd1 f2 g2 fd2 gd2 f3 g3 fd3 gd3 : R) (p : P6) :
  (1 + f2) * (1 + f1) + g2 * fd1 = 1 + f3 ->
  (1 + f2) * g1 + g2 * (1 + gd1) = g3 ->
  fd2 * (1 + f1) + (1 + gd2) * fd1 = fd3 ->
  fd2 * g1 + (1 + gd2) * (1 + gd1) = 1 + gd3 ->
  fg_apply RNum (f2, g2, fd2, gd2) (fg_apply RNum (f1, g1, fd1, gd1) p) = fg_apply RNum (f3, g3, fd3, gd3) p.
Proof.
  intros Hf Hg Hfd Hgd. destruct p as [[[[[x y] z] vx] vy] vz].
  unfold fg_apply. cbn [nadd nmul RNum].
  assert (Hf' : f3 = (1 + f2) * (1 + f1) + g2 * fd1 - 1) by lra.
  assert (Hgd' : gd3 = fd2 * g1 + (1 + gd2) * (1 + gd1) - 1) by lra.
  subst f3 g3 fd3 gd3. repeat (f_equal; try ring).
Qed.

Definition exact_step (M dt : R) (p p' : P6) : Prop :=
  exists r0 beta X G0 G1 G2 G3,
    kepler_hyp p M dt r0 beta X G0 G1 G2 G3 /\
    p' = fg_update RNum M dt (1 / r0) (1 / new_radius p M r0 beta G1 G2) G1 G2 G3 p.

(* explicit form: the composite step has universal anomaly X1+X2 and G's = Gadd of the two *)
Theorem flow_group_explicit (p : P6) (M dt1 dt2 r0 beta X1 X2 A0 A1 A2 A3 r1 beta1 B0 B1 B2 B3 : R) :
  kepler_hyp p M dt1 r0 beta X1 A0 A1 A2 A3 ->
  let p1 := fg_update RNum M dt1 (1 / r0) (1 / new_radius p M r0 beta A1 A2) A1 A2 A3 p in
  kepler_hyp p1 M dt2 r1 beta1 X2 B0 B1 B2 B3 ->
  let p2 := fg_update RNum M dt2 (1 / r1) (1 / new_radius p1 M r1 beta1 B1 B2) B1 B2 B3 p1 in
  let '(C0, C1, C2, C3) := Gadd beta (A0, A1, A2, A3) (B0, B1, B2, B3) in
  r1 = new_radius p M r0 beta A1 A2 /\ beta1 = beta /\
  kepler_hyp p M (dt1 + dt2) r0 beta (X1 + X2) C0 C1 C2 C3 /\
  p2 = fg_update RNum M (dt1 + dt2) (1 / r0) (1 / new_radius p M r0 beta C1 C2) C1 C2 C3 p.
Proof.
  intros HA. cbv zeta. intros HB. unfold Gadd.
  pose proof (fg_exact p M dt1 r0 beta X1 A0 A1 A2 A3 HA) as E. cbv zeta in E.
  destruct E as (_ & Erad & _ & _ & Ebeta & Eeta).
  set (ra := new_radius p M r0 beta A1 A2) in *.
  set (p1 := fg_update RNum M dt1 (1 / r0) (1 / ra) A1 A2 A3 p) in *.
  unfold kepler_hyp in HA, HB. cbv zeta in HA, HB.
  destruct HA as (Hr0 & Hr02 & Hb & HA0 & HA1 & HA2 & Hk1 & Hrp1).
  destruct HB as (Hr1 & Hr12 & Hb1 & HB0 & HB1 & HB2 & Hk2 & Hrp2).
  assert (Er1 : r1 = ra).
  { rewrite <- Erad. symmetry. apply sqrt_of_square; assumption. }
  assert (Eb : beta1 = beta).
  { rewrite Hb1, <- Ebeta, Erad, Er1. reflexivity. }
  subst r1. clear Hb1. subst beta1. split; [reflexivity|]. split; [reflexivity|].
  rewrite Eeta in Hk2, Hrp2.
  set (eta0 := xdotv p) in *.
  assert (Hra : ra = r0 + eta0 * A1 + (M - beta * r0) * A2) by reflexivity.
  unfold new_radius. rewrite Eeta. fold eta0.
  set (rb := ra + (eta0 * A0 + (M - beta * r0) * A1) * B1 + (M - beta * ra) * B2) in *.
  assert (Ha0 : r0 * (1 / r0) = 1) by (field; lra).
  assert (Ha1 : ra * (1 / ra) = 1) by (field; unfold new_radius in ra; lra).
  assert (Ha2 : rb * (1 / rb) = 1) by (field; lra).
  pose proof (gs_r M r0 (1 / r0) ra (1 / ra) rb (1 / rb) beta eta0 X1 X2 A0 A1 A2 A3 B0 B1 B2 B3) as Gr.
  pose proof (gs_dt M r0 (1 / r0) ra (1 / ra) rb (1 / rb) beta eta0 X1 X2 A0 A1 A2 A3 B0 B1 B2 B3) as Gdt.
  pose proof (gs_C M r0 (1 / r0) ra (1 / ra) rb (1 / rb) beta eta0 X1 X2 A0 A1 A2 A3 B0 B1 B2 B3) as GC.
  pose proof (gs_f M r0 (1 / r0) ra (1 / ra) rb (1 / rb) beta eta0 X1 X2 A0 A1 A2 A3 B0 B1 B2 B3) as Gf.
  pose proof (gs_g M r0 (1 / r0) ra (1 / ra) rb (1 / rb) beta eta0 X1 X2 A0 A1 A2 A3 B0 B1 B2 B3) as Gg.
  pose proof (gs_fd M r0 (1 / r0) ra (1 / ra) rb (1 / rb) beta eta0 X1 X2 A0 A1 A2 A3 B0 B1 B2 B3) as Gfd.
  pose proof (gs_gd M r0 (1 / r0) ra (1 / ra) rb (1 / rb) beta eta0 X1 X2 A0 A1 A2 A3 B0 B1 B2 B3) as Ggd.
  cbv zeta in Gr, Gdt, GC, Gf, Gg, Gfd, Ggd.
  feed Gr. feed Gdt. feed GC. feed Gf. feed Gg. feed Gfd. feed Ggd.
  destruct GC as (GC0 & GC1 & GC2).
  rewrite Hk1, Hk2 in Gdt. rewrite ?Hk1, ?Hk2 in Gf, Gg, Gfd, Ggd.
  split.
  - unfold kepler_hyp. cbv zeta. fold eta0.
    repeat split; try assumption; try (symmetry; exact Gdt). rewrite <- Gr. exact Hrp2.
  - rewrite <- Gr.
    unfold p1. unfold fg_update, fg_coeffs. cbn [nneg nmul nsub RNum]. rewrite <- Hk1, <- Hk2.
    apply fg_apply_compose; assumption.
Qed.

Theorem kepler_flow_group (M dt1 dt2 : R) (p p1 p2 : P6) :
  exact_step M dt1 p p1 -> exact_step M dt2 p1 p2 -> exact_step M (dt1 + dt2) p p2.
Proof.
  intros (r0 & beta & X1 & A0 & A1 & A2 & A3 & HA & E1) (r1 & beta1 & X2 & B0 & B1 & B2 & B3 & HB & E2).
  subst p1.
  pose proof (flow_group_explicit p M dt1 dt2 r0 beta X1 X2 A0 A1 A2 A3 r1 beta1 B0 B1 B2 B3 HA HB) as G.
  cbv zeta in G. unfold Gadd in G. destruct G as (_ & _ & HC & E).
  exists r0, beta, (X1 + X2).
  eexists _, _, _, _. split; [exact HC|]. rewrite E2. exact E.
Qed.

(* a zero step is the identity (X = 0, G = (1,0,0,0)) and an exact step conserves the invariants *)
Lemma exact_step_zero M p : 0 < radius p -> exact_step M 0 p p.
Proof.
  intros Hr. exists (radius p), (2 * M * (1 / radius p) - vel2 p), 0, 1, 0, 0, 0.
  assert (Hsq : radius p * radius p = pos2 p).
  { unfold radius in *. apply sqrt_sqrt. destruct p as [[[[[x y] z] vx] vy] vz]. unfold pos2. nra. }
  split.
  - unfold kepler_hyp. cbv zeta. repeat split; try lra; try assumption.
  - destruct p as [[[[[x y] z] vx] vy] vz]. unfold fg_update, fg_coeffs, fg_apply. cbn [nneg nmul nsub nadd RNum].
    repeat (f_equal; try ring).
Qed.
