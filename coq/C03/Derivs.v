(* C03 round 2: the closed-form Stiefel functions as functions of X (one branch per sign of beta), their
   derivatives (Coquelicot is_derive): G1' = G0, G2' = G1, G3' = G2, hence Sundman's time equation
   d/dX (r0 X + eta0 G2 + zeta0 G3) = r0 + eta0 G1 + zeta0 G2 ; the identities used by fg_exact; and the
   addition theorems  G(X1+X2) = Gadd (G X1) (G X2)  used by the flow group law. *)
From Coq Require Import Reals Lra Nsatz.
From Coquelicot Require Import Coquelicot.
From RV Require Import Common.Num Common.RealNum C03.Model C03.Proofs C03.Flow.
Open Scope R_scope.

Definition Gdir (beta X : R) : CS :=
  if Rlt_dec 0 beta then
    let s := sqrt beta in
    (cos (s * X), sin (s * X) / s, (1 - cos (s * X)) / beta, (X - sin (s * X) / s) / beta)
  else if Rlt_dec beta 0 then
    let s := sqrt (- beta) in
    (cosh (s * X), sinh (s * X) / s, (1 - cosh (s * X)) / beta, (X - sinh (s * X) / s) / beta)
  else (1, X, X * X / 2, X * X * X / 6).

Definition G0d beta X := fst (fst (fst (Gdir beta X))).
Definition G1d beta X := snd (fst (fst (Gdir beta X))).
Definition G2d beta X := snd (fst (Gdir beta X)).
Definition G3d beta X := snd (Gdir beta X).

Lemma exp_inv_mul' s : exp s * exp (- s) = 1.
Proof. rewrite <- exp_plus. replace (s + - s) with 0 by ring. apply exp_0. Qed.

(* identities: the hypotheses of fg_exact hold for the direct closed forms *)
Theorem Gdir_identities beta X :
  let '(G0, G1, G2, G3) := Gdir beta X in
  G0 = 1 - beta * G2 /\ G1 = X - beta * G3 /\ G1 * G1 = G2 * (1 + G0).
Proof.
  unfold Gdir. destruct (Rlt_dec 0 beta) as [Hp|Hnp]; [|destruct (Rlt_dec beta 0) as [Hn|Hnn]]; cbv zeta.
  - assert (Hs : 0 < sqrt beta) by (apply sqrt_lt_R0; lra).
    assert (Hb : beta = sqrt beta * sqrt beta) by (symmetry; apply sqrt_sqrt; lra).
    set (s := sqrt beta) in *. clearbody s. subst beta.
    pose proof (sin2_cos2 (s * X)) as Hsc. unfold Rsqr in Hsc.
    set (c := cos (s * X)) in *. set (d := sin (s * X)) in *. clearbody c d.
    split; [|split]; field_simplify_eq; try lra; nsatz.
  - assert (Hs : 0 < sqrt (- beta)) by (apply sqrt_lt_R0; lra).
    assert (Hb : beta = - (sqrt (- beta) * sqrt (- beta))) by (rewrite sqrt_sqrt; lra).
    set (s := sqrt (- beta)) in *. clearbody s. subst beta. unfold cosh, sinh.
    pose proof (exp_inv_mul' (s * X)) as He.
    set (E := exp (s * X)) in *. set (F := exp (- (s * X))) in *. clearbody E F.
    split; [|split]; field_simplify_eq; try lra; nsatz.
  - assert (beta = 0) by lra. subst beta. repeat split; field.
Qed.

(* derivatives *)
Theorem Gdir_derivatives beta X :
  is_derive (G1d beta) X (G0d beta X) /\
  is_derive (G2d beta) X (G1d beta X) /\
  is_derive (G3d beta) X (G2d beta X).
Proof.
  unfold G0d, G1d, G2d, G3d, Gdir.
  destruct (Rlt_dec 0 beta) as [Hp|Hnp]; [|destruct (Rlt_dec beta 0) as [Hn|Hnn]]; cbv zeta; cbn [fst snd].
  - assert (Hs : sqrt beta <> 0) by (apply Rgt_not_eq, sqrt_lt_R0; lra).
    assert (Hb : beta = sqrt beta * sqrt beta) by (symmetry; apply sqrt_sqrt; lra).
    set (s := sqrt beta) in *. clearbody s.
    (split; [|split]); auto_derive; auto; subst beta; field; auto.
  - assert (Hs : sqrt (- beta) <> 0) by (apply Rgt_not_eq, sqrt_lt_R0; lra).
    assert (Hb : beta = - (sqrt (- beta) * sqrt (- beta))) by (rewrite sqrt_sqrt; lra).
    set (s := sqrt (- beta)) in *. clearbody s. unfold cosh, sinh.
    (split; [|split]); auto_derive; auto; subst beta; field; auto.
  - (split; [|split]); auto_derive; auto; field.
Qed.

(* Sundman: the universal Kepler function has derivative r(X) = r0 + eta0 G1 + zeta0 G2 *)
Theorem sundman beta r0 eta0 zeta0 X :
  is_derive (fun X => r0 * X + eta0 * G2d beta X + zeta0 * G3d beta X) X
            (r0 + eta0 * G1d beta X + zeta0 * G2d beta X).
Proof.
  destruct (Gdir_derivatives beta X) as (_ & D2 & D3).
  auto_derive.
  - split; [eexists; exact D2 | split; [eexists; exact D3 | trivial]].
  - change (fun x : R => G2d beta x) with (G2d beta). change (fun x : R => G3d beta x) with (G3d beta).
    rewrite (is_derive_unique _ _ _ D2), (is_derive_unique _ _ _ D3). ring.
Qed.

(* addition theorems *)
Theorem Gdir_addition beta X1 X2 : Gdir beta (X1 + X2) = Gadd beta (Gdir beta X1) (Gdir beta X2).
Proof.
  unfold Gdir, Gadd.
  destruct (Rlt_dec 0 beta) as [Hp|Hnp]; [|destruct (Rlt_dec beta 0) as [Hn|Hnn]]; cbv zeta.
  - assert (Hs : sqrt beta <> 0) by (apply Rgt_not_eq, sqrt_lt_R0; lra).
    assert (Hb : beta = sqrt beta * sqrt beta) by (symmetry; apply sqrt_sqrt; lra).
    set (s := sqrt beta) in *. clearbody s. subst beta.
    rewrite Rmult_plus_distr_l, cos_plus, sin_plus.
    pose proof (sin2_cos2 (s * X1)) as H1. pose proof (sin2_cos2 (s * X2)) as H2. unfold Rsqr in H1, H2.
    set (c1 := cos (s * X1)) in *. set (d1 := sin (s * X1)) in *.
    set (c2 := cos (s * X2)) in *. set (d2 := sin (s * X2)) in *. clearbody c1 d1 c2 d2.
    f_equal; [f_equal; [f_equal|]|]; field; auto.
  - assert (Hs : sqrt (- beta) <> 0) by (apply Rgt_not_eq, sqrt_lt_R0; lra).
    assert (Hb : beta = - (sqrt (- beta) * sqrt (- beta))) by (rewrite sqrt_sqrt; lra).
    set (s := sqrt (- beta)) in *. clearbody s. subst beta. unfold cosh, sinh.
    rewrite Rmult_plus_distr_l.
    replace (- (s * X1 + s * X2)) with (- (s * X1) + - (s * X2)) by ring. rewrite !exp_plus.
    pose proof (exp_inv_mul' (s * X1)) as H1. pose proof (exp_inv_mul' (s * X2)) as H2.
    set (E1 := exp (s * X1)) in *. set (F1 := exp (- (s * X1))) in *.
    set (E2 := exp (s * X2)) in *. set (F2 := exp (- (s * X2))) in *. clearbody E1 F1 E2 F2.
    f_equal; [f_equal; [f_equal|]|]; field_simplify_eq; auto; nsatz.
  - assert (beta = 0) by lra. subst beta. f_equal; [f_equal; [f_equal|]|]; field.
Qed.
