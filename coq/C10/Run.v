(* C10: executable instance used by the correspondence check: JANUS with the direct-summation
   gravity of src/gravity.c (REB_GRAVITY_BASIC, no ghost boxes, all particles active, G, softening 0),
   started from double-precision particles (to_int) exactly as reb_integrator_janus_part1 does. *)
From Coq Require Import ZArith List Bool PrimFloat.
From RV Require Import Common.Num C10.Model.
Import ListNotations.
Open Scope float_scope.

Definition vz : vec3 := (0, 0, 0).
Definition to_double_pos (sp : float) (s : list pint) : list vec3 :=
  map (fun p => (ofint (px p) * sp, ofint (py p) * sp, ofint (pz p) * sp)) s.

(* the i>j pair loop of REB_GRAVITY_BASIC with back-reaction, gb = 0 *)
Definition pair (G : float) (ms : list float) (xs : list vec3) (acc : list vec3) (i j : nat) : list vec3 :=
  let '(xi, yi, zi) := nth_d vz xs i in
  let '(xj, yj, zj) := nth_d vz xs j in
  let dx := (0 + xi) - xj in let dy := (0 + yi) - yj in let dz := (0 + zi) - zj in
  let r := sqrt (dx*dx + dy*dy + dz*dz + 0) in
  let prefact := G / (r*r*r) in
  let prefactj := (- prefact) * nth_d 0 ms j in
  let prefacti := prefact * nth_d 0 ms i in
  let '(aix, aiy, aiz) := nth_d vz acc i in
  let acc := upd acc i (aix + prefactj*dx, aiy + prefactj*dy, aiz + prefactj*dz) in
  let '(ajx, ajy, ajz) := nth_d vz acc j in
  upd acc j (ajx + prefacti*dx, ajy + prefacti*dy, ajz + prefacti*dz).

Fixpoint loop_j (G : float) ms xs acc (i j n : nat) : list vec3 :=
  match n with O => acc | S n' => loop_j G ms xs (pair G ms xs acc i j) i (S j) n' end.
Fixpoint loop_i (G : float) ms xs acc (i n : nat) : list vec3 :=
  match n with O => acc | S n' => loop_i G ms xs (loop_j G ms xs acc i 0 i) (S i) n' end.
Definition grav (G : float) (ms : list float) (xs : list vec3) : list vec3 :=
  loop_i G ms xs (map (fun _ => vz) xs) 1 (length xs - 1).

Definition Fgrav (G sp : float) (ms : list float) (s : list pint) : list vec3 :=
  grav G ms (to_double_pos sp s).

Definition to_int (sp sv : float) (p : list float) : pint :=
  match p with
  | [x; y; z; vx; vy; vz] => mkP (trunc64 (x / sp)) (trunc64 (y / sp)) (trunc64 (z / sp))
                                 (trunc64 (vx / sv)) (trunc64 (vy / sv)) (trunc64 (vz / sv))
  | _ => mkP 0 0 0 0 0 0
  end.

Definition flat (s : list pint) : list Z :=
  flat_map (fun p => [px p; py p; pz p; pvx p; pvy p; pvz p]) s.

(* n steps with dt then m steps with -dt, from double particles; result: the int64 state *)
Definition janus_run (G sp sv : float) (ms : list float) (ps : list (list float))
           (stages : nat) (gamma : list float) (dt : float) (n m : nat) : list Z :=
  let s0 := map (to_int sp sv) ps in
  let st := step sp sv (Fgrav G sp ms) stages gamma in
  flat (iter m (st (- dt)) (iter n (st dt) s0)).

Fixpoint zlist_eqb (a b : list Z) : bool :=
  match a, b with
  | [], [] => true
  | x :: r, y :: s => andb (Z.eqb x y) (zlist_eqb r s)
  | _, _ => false
  end.
Fixpoint bad_zcases_from (n : nat) (l : list (list Z * list Z)) : list nat :=
  match l with
  | [] => []
  | (a, b) :: r => if zlist_eqb a b then bad_zcases_from (S n) r else n :: bad_zcases_from (S n) r
  end.
Definition bad_zcases l := bad_zcases_from 0 l.
