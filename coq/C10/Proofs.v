(* C10 proofs: n forward JANUS steps followed by n steps with the negated step size return every
   integer coordinate (hence every double produced by to_double) to its initial value. *)
From Coq Require Import ZArith List Bool Lia PrimFloat SpecFloat FloatOps FloatAxioms.
From RV Require Import C10.IEEE C10.Model.
Import ListNotations.
Open Scope Z_scope.

Lemma two64_pos : 0 < two64. Proof. reflexivity. Qed.

Lemma wrap_wrap_add a b : wrap (wrap a + b) = wrap (a + b).
Proof.
  unfold wrap. f_equal.
  replace ((a + two63) mod two64 - two63 + b + two63) with ((a + two63) mod two64 + b) by lia.
  rewrite Zplus_mod_idemp_l. f_equal. lia.
Qed.

Lemma wrap_small x : in64 x -> wrap x = x.
Proof.
  unfold in64, wrap. intros H. rewrite Z.mod_small; [lia|].
  unfold two63, two64 in *. lia.
Qed.

Lemma wrap_in64 x : in64 (wrap x).
Proof.
  unfold in64, wrap. pose proof (Z.mod_pos_bound (x + two63) two64 two64_pos).
  unfold two63, two64 in *. lia.
Qed.

Lemma add_cancel x t t' : in64 x -> wrap (t' + t) = 0 -> wrap (wrap (x + t) + t') = x.
Proof.
  intros Hx H. rewrite wrap_wrap_add.
  replace (x + t + t') with ((t' + t) + x) by lia.
  rewrite <- wrap_wrap_add, H. cbn. apply wrap_small. exact Hx.
Qed.

Lemma trunc_odd f : wrap (trunc64 (- f)%float + trunc64 f) = 0.
Proof.
  unfold trunc64. rewrite opp_spec.
  destruct (Prim2SF f) as [s|s| |s m e]; cbn [SFopp]; try reflexivity.
  set (a := match e with 0 => Z.pos m | Z.pos _ => Z.shiftl (Z.pos m) e | Z.neg _ => Z.shiftr (Z.pos m) (- e) end).
  destruct (a <? two63); [|reflexivity].
  destruct s; cbn [negb]; replace (a + - a) with 0 by lia; replace (- a + a) with 0 by lia; reflexivity.
Qed.

Section Rev.
Variable sp sv : float.
Variable F : list pint -> list vec3.
(* the force depends on positions only (gravity of constant masses) *)
Definition pos (p : pint) := (px p, py p, pz p).
Hypothesis F_pos : forall s s', map pos s = map pos s' -> F s = F s'.

Lemma dinc_odd c v : wrap (dinc sp sv (- c)%float v + dinc sp sv c v) = 0.
Proof. unfold dinc. rewrite mul_opp_l, mul_opp_l, div_opp_l. apply trunc_odd. Qed.
Lemma kinc_odd c a : wrap (kinc sv (- c)%float a + kinc sv c a) = 0.
Proof. unfold kinc. rewrite mul_opp_l, div_opp_l. apply trunc_odd. Qed.

Lemma drift1_inv c p : pint_ok p -> drift1 sp sv (- c)%float (drift1 sp sv c p) = p.
Proof.
  intros (Hx & Hy & Hz & _). destruct p as [x y z vx vy vz]. unfold drift1. cbn [px py pz pvx pvy pvz] in *.
  rewrite !add_cancel by (auto using dinc_odd). reflexivity.
Qed.
Lemma drift1_ok c p : pint_ok p -> pint_ok (drift1 sp sv c p).
Proof. intros (Hx & Hy & Hz & Hvx & Hvy & Hvz). unfold drift1, pint_ok. cbn. auto 10 using wrap_in64. Qed.

Lemma drift_inv c s : state_ok s -> drift sp sv (- c)%float (drift sp sv c s) = s.
Proof.
  unfold drift. induction 1 as [|p r Hp Hr IH]; cbn; [reflexivity|]. rewrite drift1_inv by exact Hp. f_equal. exact IH.
Qed.
Lemma drift_ok c s : state_ok s -> state_ok (drift sp sv c s).
Proof. unfold drift. induction 1; cbn; constructor; auto using drift1_ok. Qed.

Lemma kick_with_pos c s : forall acc, map pos (kick_with sv c s acc) = map pos s.
Proof. induction s as [|p r IH]; intros [|[[ax ay] az] ra]; cbn; try reflexivity. f_equal. apply IH. Qed.

Lemma kick_with_inv c s : forall acc, state_ok s ->
  kick_with sv (- c)%float (kick_with sv c s acc) acc = s.
Proof.
  induction s as [|p r IH]; intros [|[[ax ay] az] ra] Hs; cbn; try reflexivity.
  inversion Hs as [|? ? Hp Hr]; subst. destruct Hp as (_ & _ & _ & Hvx & Hvy & Hvz).
  destruct p as [x y z vx vy vz]. cbn [px py pz pvx pvy pvz] in *.
  rewrite !add_cancel by (auto using kinc_odd). f_equal. apply IH. exact Hr.
Qed.
Lemma kick_with_ok c s : forall acc, state_ok s -> state_ok (kick_with sv c s acc).
Proof.
  induction s as [|p r IH]; intros [|[[ax ay] az] ra] Hs; cbn; auto.
  inversion Hs as [|? ? Hp Hr]; subst. constructor; [|apply IH; exact Hr].
  destruct Hp as (Hx & Hy & Hz & _). unfold pint_ok. cbn. auto 10 using wrap_in64.
Qed.

Lemma kick_inv c s : state_ok s -> kick sv F (- c)%float (kick sv F c s) = s.
Proof.
  intros Hs. unfold kick. rewrite (F_pos (kick_with sv c s (F s)) s) by apply kick_with_pos.
  apply kick_with_inv. exact Hs.
Qed.
Lemma kick_ok c s : state_ok s -> state_ok (kick sv F c s).
Proof. intros. unfold kick. apply kick_with_ok. assumption. Qed.

Lemma coef_neg dt e : coef (- dt)%float e = (- coef dt e)%float.
Proof. unfold coef. destruct (fst e); rewrite mul_opp_r; [reflexivity|]. apply div_opp_l. Qed.

Lemma op_inv dt e s : state_ok s -> op sp sv F (- dt)%float e (op sp sv F dt e s) = s.
Proof.
  intros Hs. unfold op. rewrite coef_neg. destruct (fst e); [apply kick_inv|apply drift_inv]; exact Hs.
Qed.
Lemma op_ok dt e s : state_ok s -> state_ok (op sp sv F dt e s).
Proof. intros. unfold op. destruct (fst e); [apply kick_ok|apply drift_ok]; assumption. Qed.

Lemma run_ok dt w : forall s, state_ok s -> state_ok (run sp sv F dt w s).
Proof. induction w as [|e w IH]; cbn; intros s Hs; [exact Hs|]. apply IH. apply op_ok. exact Hs. Qed.

Lemma run_app dt w1 w2 s : run sp sv F dt (w1 ++ w2) s = run sp sv F dt w2 (run sp sv F dt w1 s).
Proof. unfold run. apply fold_left_app. Qed.

Lemma run_cons dt e w s : run sp sv F dt (e :: w) s = run sp sv F dt w (op sp sv F dt e s).
Proof. reflexivity. Qed.
Lemma run_nil dt s : run sp sv F dt [] s = s.
Proof. reflexivity. Qed.

(* running the reversed word with the negated step undoes the word *)
Lemma run_rev_inv dt w : forall s, state_ok s ->
  run sp sv F (- dt)%float (rev w) (run sp sv F dt w s) = s.
Proof.
  induction w as [|e w IH] using rev_ind; intros s Hs; [reflexivity|].
  rewrite rev_app_distr, !run_app. cbn [rev app]. rewrite !run_cons, !run_nil.
  rewrite op_inv by (apply run_ok; exact Hs). apply IH. exact Hs.
Qed.

Lemma step_inv stages gamma dt s :
  rev (word stages gamma) = word stages gamma -> state_ok s ->
  step sp sv F stages gamma (- dt)%float (step sp sv F stages gamma dt s) = s.
Proof. intros Hpal Hs. unfold step. rewrite <- Hpal at 1. apply run_rev_inv. exact Hs. Qed.

Lemma step_ok stages gamma dt s : state_ok s -> state_ok (step sp sv F stages gamma dt s).
Proof. intros. unfold step. apply run_ok. assumption. Qed.

Lemma iter_S_out {A} (f : A -> A) n : forall x, iter (S n) f x = f (iter n f x).
Proof. induction n as [|n IH]; intros x; [reflexivity|]. cbn [iter] in *. rewrite IH. reflexivity. Qed.

Lemma iter_ok stages gamma dt n : forall s, state_ok s -> state_ok (iter n (step sp sv F stages gamma dt) s).
Proof. induction n as [|n IH]; intros s Hs; cbn; [exact Hs|]. apply IH. apply step_ok. exact Hs. Qed.

(* main theorem for a palindromic word: n steps forward, n steps with -dt *)
Theorem janus_reversible_word stages gamma dt n s :
  rev (word stages gamma) = word stages gamma ->
  state_ok s ->
  iter n (step sp sv F stages gamma (- dt)%float) (iter n (step sp sv F stages gamma dt) s) = s.
Proof.
  intros Hpal. revert s. induction n as [|n IH]; intros s Hs; [reflexivity|].
  rewrite (iter_S_out (step sp sv F stages gamma dt)). cbn [iter].
  rewrite step_inv by (auto using iter_ok). apply IH. exact Hs.
Qed.
End Rev.

From RV Require Import Gen.JanusTables.
Lemma janus_words_palindromic :
  Forall (fun e => rev (word (fst (snd e)) (snd (snd e))) = word (fst (snd e)) (snd (snd e))) janus_schemes.
Proof. unfold janus_schemes. repeat (constructor; [vm_compute; reflexivity|]). constructor. Qed.

Theorem janus_reversible :
  forall o st g, In (o, (st, g)) janus_schemes ->
  forall (sp sv : float) (F : list pint -> list vec3),
    (forall s s', map pos s = map pos s' -> F s = F s') ->
  forall (dt : float) (n : nat) (s : list pint), state_ok s ->
    iter n (step sp sv F st g (- dt)%float) (iter n (step sp sv F st g dt) s) = s.
Proof.
  intros o st g Hin sp sv F HF dt n s Hs.
  apply janus_reversible_word; auto.
  pose proof janus_words_palindromic as P. rewrite Forall_forall in P. exact (P _ Hin).
Qed.

Theorem symmetric_word_reversible :
  forall (St Op : Type) (app : Op -> bool -> St -> St),
    (forall o b s, app o (negb b) (app o b s) = s) ->
  forall (w : list Op) (s : St), rev w = w ->
    fold_left (fun s o => app o true s) w (fold_left (fun s o => app o false s) w s) = s.
Proof.
  intros St Op app Hinv w s Hpal. rewrite <- Hpal at 1. clear Hpal. revert s.
  induction w as [|o w IH] using rev_ind; intros s; [reflexivity|].
  rewrite rev_app_distr, !fold_left_app. cbn. rewrite (Hinv o false). apply IH.
Qed.
