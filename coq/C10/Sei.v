(* C10 model of src/integrator_sei.c (symplectic epicycle integrator), Num-polymorphic.
   State: the cache (lastdt and the four pre-computed sin/tan values) and the particles.
   libm's sin and tan are NOT modelled: [trig dt] is an oracle for the four values
   (sin(OMEGA*(-dt/2)), tan(OMEGA*(-dt/4)), sin(OMEGAZ*(-dt/2)), tan(OMEGAZ*(-dt/4))) that
   reb_integrator_sei_init stores; the theorem assumes only that it is odd in dt.
   The accelerations used by operator_phi1 are a function [F] of the positions (gravity).
   Definitions only. *)
From Coq Require Import List Bool.
From RV Require Import Common.Num.
Import ListNotations.

Section Sei.
Context {T : Type} (N : Num T).
Local Notation "a + b" := (nadd N a b).
Local Notation "a - b" := (nsub N a b).
Local Notation "a * b" := (nmul N a b).
Local Notation "a / b" := (ndiv N a b).
Local Notation "- a" := (nneg N a).

Record part := mkPart { qx : T; qy : T; qz : T; qvx : T; qvy : T; qvz : T }.
Record cache := mkCache { lastdt : T; sindt : T; tandt : T; sindtz : T; tandtz : T }.

Variable OM OMZ : T.                       (* ri_sei.OMEGA, ri_sei.OMEGAZ (after the -1 default was resolved) *)
Variable trig : T -> T * T * T * T.         (* dt |-> (sindt, tandt, sindtz, tandtz) *)
Variable F : list part -> list (T * T * T).  (* accelerations, a function of the particles' positions *)

Let two := none N + none N.
Let three := two + none N.
Let four := two + two.

(* if (r->ri_sei.lastdt != r->dt) reb_integrator_sei_init(r); *)
Definition refresh (dt : T) (c : cache) : cache :=
  if neqb N (lastdt c) dt then c
  else let '(s, t, sz, tz) := trig dt in mkCache dt s t sz tz.

(* operator_H012 *)
Definition h012 (dt : T) (c : cache) (p : part) : part :=
  let zx := qz p * OMZ in
  let zy := qvz p in
  let zt1 := zx - tandtz c * zy in
  let zyt := sindtz c * zt1 + zy in
  let zxt := zt1 - tandtz c * zyt in
  let aO := two * qvy p + four * qx p * OM in
  let bO := qy p * OM - two * qvx p in
  let ys := (qy p * OM - bO) / two in
  let xs := qx p * OM - aO in
  let xst1 := xs - tandt c * ys in
  let yst := sindt c * xst1 + ys in
  let xst := xst1 - tandt c * yst in
  mkPart ((xst + aO) / OM)
         ((yst * two + bO) / OM - three / four * aO * dt)
         (zxt / OMZ)
         yst
         (- xst * two - three / two * aO)
         zyt.

(* operator_phi1 *)
Definition phi1 (dt : T) (pa : part * (T * T * T)) : part :=
  let '(p, (ax, ay, az)) := pa in
  mkPart (qx p) (qy p) (qz p) (qvx p + ax * dt) (qvy p + ay * dt) (qvz p + az * dt).

Fixpoint phi1_with (dt : T) (ps : list part) (acc : list (T * T * T)) : list part :=
  match ps, acc with
  | p :: r, a :: ra => phi1 dt (p, a) :: phi1_with dt r ra
  | _, _ => ps
  end.

(* part1 ; accelerations ; part2 *)
Definition sei_step (dt : T) (st : cache * list part) : cache * list part :=
  let c := refresh dt (fst st) in
  let ps1 := map (h012 dt c) (snd st) in
  let ps2 := phi1_with dt ps1 (F ps1) in
  (c, map (h012 dt c) ps2).

Fixpoint iter_sei (n : nat) (dt : T) (st : cache * list part) : cache * list part :=
  match n with O => st | S k => iter_sei k dt (sei_step dt st) end.
End Sei.

Arguments qx {T} _. Arguments qy {T} _. Arguments qz {T} _. Arguments qvx {T} _. Arguments qvy {T} _. Arguments qvz {T} _.
Arguments mkPart {T} _ _ _ _ _ _.
Arguments lastdt {T} _. Arguments sindt {T} _. Arguments tandt {T} _. Arguments sindtz {T} _. Arguments tandtz {T} _.
Arguments mkCache {T} _ _ _ _ _.
