(* C10: the abstract palindrome theorem instantiated with the concrete drift and kick operators of the library
   (C04's transcription of src/integrator_leapfrog.c: drift, kick, pair forces with back-reaction): every
   palindromic word of drifts and kicks, run with the negated step, undoes itself in exact arithmetic, provided the
   force law depends on masses and positions only.  Leapfrog as implemented (part1; forces; part2) is such a word. *)
From Coq Require Import List Bool Reals Lra.
From RV Require Import Common.Num Common.RealNum C04.Model C04.Proofs C10.Proofs.
Import ListNotations.
Open Scope R_scope.

Definition part := (@C04.Model.part R).
Definition mpos (p : part) := (pm p, px p, py p, pz p).

Definition neg_dk (o : dk) : dk := match o with D c => D (- c) | K c => K (- c) end.

Lemma neg_dk_invol o : neg_dk (neg_dk o) = o.
Proof. destruct o; cbn; rewrite Ropp_involutive; reflexivity. Qed.

Lemma drift_mpos_vel c (ps : list part) : map (fun p => (pm p, pvx p, pvy p, pvz p)) (drift RNum c ps) = map (fun p => (pm p, pvx p, pvy p, pvz p)) ps.
Proof. unfold drift. rewrite map_map. apply map_ext. intros p. reflexivity. Qed.

Lemma drift_inv c (ps : list part) : drift RNum (- c) (drift RNum c ps) = ps.
Proof.
  unfold drift. rewrite map_map. rewrite <- (map_id ps) at 2. apply map_ext. intros [m x y z vx vy vz].
  cbn [pm px py pz pvx pvy pvz nadd nmul RNum]. f_equal; ring.
Qed.

Lemma kick_mpos c : forall (ps : list part) acc, map mpos (kick RNum c ps acc) = map mpos ps.
Proof.
  induction ps as [|p ps IH]; intros acc; [reflexivity|].
  destruct acc as [|[[ax ay] az] acc]; [reflexivity|]. cbn [kick map]. rewrite IH. reflexivity.
Qed.

Lemma kick_inv c : forall (ps : list part) acc, kick RNum (- c) (kick RNum c ps acc) acc = ps.
Proof.
  induction ps as [|p ps IH]; intros acc; [reflexivity|].
  destruct acc as [|[[ax ay] az] acc]; [reflexivity|]. cbn [kick]. rewrite IH. f_equal.
  destruct p as [m x y z vx vy vz]. cbn [pm px py pz pvx pvy pvz nadd nmul RNum]. f_equal; ring.
Qed.

(* the accumulated pair force reads masses and positions only *)
Lemma pair_acc_mpos (ps ps' : list part) acc e : map mpos ps = map mpos ps' -> pair_acc RNum ps acc e = pair_acc RNum ps' acc e.
Proof.
  intros H. destruct e as [[i j] pf]. unfold pair_acc.
  assert (Hn : forall k, mpos (nth_d (p0 RNum) ps k) = mpos (nth_d (p0 RNum) ps' k)).
  { intros k. revert ps ps' H. induction k as [|k IHk]; intros [|a l] [|b l'] H; try discriminate; try reflexivity.
    - cbn [map] in H. cbn [nth_d]. unfold mpos in *. injection H; intros; congruence.
    - cbn [map] in H. cbn [nth_d]. apply IHk. injection H; intros; assumption. }
  pose proof (Hn i) as Hi. pose proof (Hn j) as Hj. unfold mpos in Hi, Hj. inversion Hi. inversion Hj.
  repeat match goal with H : _ = _ |- _ => rewrite H end. reflexivity.
Qed.

Lemma map_const_len {A B} (v : B) : forall (a b : list A), length a = length b -> map (fun _ => v) a = map (fun _ => v) b.
Proof. induction a as [|x a IH]; intros [|y b] H; try discriminate; [reflexivity|]. cbn. f_equal. apply IH. cbn in H. injection H. auto. Qed.

Lemma fold_pair_acc_mpos (ps ps' : list part) pairs : map mpos ps = map mpos ps' ->
  forall acc acc', acc = acc' -> fold_left (pair_acc RNum ps) pairs acc = fold_left (pair_acc RNum ps') pairs acc'.
Proof.
  intros H. induction pairs as [|e r IH]; intros acc acc' E; subst acc'; [reflexivity|]. cbn [fold_left].
  apply IH. apply pair_acc_mpos. exact H.
Qed.

Lemma pair_force_mpos (ps ps' : list part) pairs : map mpos ps = map mpos ps' ->
  pair_force RNum ps pairs = pair_force RNum ps' pairs.
Proof.
  intros H. unfold pair_force. apply fold_pair_acc_mpos; [exact H|].
  apply map_const_len. transitivity (length (map mpos ps)); [symmetry; apply map_length|]. rewrite H. apply map_length.
Qed.

Section Rev.
Variable F : force_law.
Hypothesis F_mpos : forall ps ps', map mpos ps = map mpos ps' -> F ps = F ps'.

Definition app (o : dk) (b : bool) (s : list part) : list part := apply_dk F (if b then neg_dk o else o) s.

Lemma apply_neg_inv o s : apply_dk F (neg_dk o) (apply_dk F o s) = s.
Proof.
  destruct o as [c|c]; cbn [neg_dk apply_dk].
  - apply drift_inv.
  - set (acc := pair_force RNum s (F s)).
    assert (E : pair_force RNum (kick RNum c s acc) (F (kick RNum c s acc)) = acc).
    { unfold acc. rewrite (F_mpos (kick RNum c s (pair_force RNum s (F s))) s) by apply kick_mpos.
      apply pair_force_mpos. apply kick_mpos. }
    rewrite E. apply kick_inv.
Qed.

Lemma app_inv o b s : app o (negb b) (app o b s) = s.
Proof.
  unfold app. destruct b; cbn [negb].
  - rewrite <- (neg_dk_invol o) at 1. apply apply_neg_inv.
  - apply apply_neg_inv.
Qed.

Lemma run_neg w : forall s, run_dk F (map neg_dk w) s = fold_left (fun s o => app o true s) w s.
Proof. induction w as [|o w IH]; intros s; [reflexivity|]. cbn [map run_dk fold_left]. apply IH. Qed.

Theorem dk_palindrome_reversible w s : rev w = w -> run_dk F (map neg_dk w) (run_dk F w s) = s.
Proof.
  intros Hp. rewrite run_neg.
  change (run_dk F w s) with (fold_left (fun s o => app o false s) w s).
  apply (symmetric_word_reversible (list part) dk app app_inv w s Hp).
Qed.

(* leapfrog: a step with -dt after a step with dt is the identity *)
Theorem leapfrog_reversible dt s :
  run_dk F [D (half RNum * - dt); K (- dt); D (half RNum * - dt)] (run_dk F [D (half RNum * dt); K dt; D (half RNum * dt)] s) = s.
Proof.
  replace (half RNum * - dt) with (- (half RNum * dt)) by (cbn; lra).
  apply (dk_palindrome_reversible [D (half RNum * dt); K dt; D (half RNum * dt)] s). reflexivity.
Qed.

(* n steps forward then n steps back *)
Fixpoint iterw (n : nat) (w : list dk) (s : list part) : list part :=
  match n with O => s | S k => iterw k w (run_dk F w s) end.
Lemma iterw_snoc n w : forall s, iterw (S n) w s = run_dk F w (iterw n w s).
Proof. induction n as [|n IH]; intros s; [reflexivity|]. change (iterw (S (S n)) w s) with (iterw (S n) w (run_dk F w s)). rewrite IH. reflexivity. Qed.
Theorem dk_palindrome_reversible_n n w : rev w = w -> forall s, iterw n (map neg_dk w) (iterw n w s) = s.
Proof.
  intros Hp. induction n as [|n IH]; intros s; [reflexivity|].
  rewrite (iterw_snoc n w). cbn [iterw]. rewrite (dk_palindrome_reversible w _ Hp). apply IH.
Qed.
End Rev.
