(* C10 property theorems ONLY. *)
From Coq Require Import ZArith List Bool PrimFloat Lia.
From RV Require Import Gen.JanusTables C10.IEEE C10.Model C10.Proofs.
Import ListNotations.

(* every tabulated JANUS scheme yields a palindromic operator word (computed on the tables as they
   stand in the source, regenerated on every run) *)
Theorem C10_janus_words_palindromic :
  Forall (fun e => rev (word (fst (snd e)) (snd (snd e))) = word (fst (snd e)) (snd (snd e))) janus_schemes.
Proof. exact janus_words_palindromic. Qed.
Print Assumptions C10_janus_words_palindromic.

(* JANUS: n steps forward and n steps with the negated step size return all six integer coordinates
   of every particle — hence every position and velocity bit — to their initial values; for every
   supported order, every scale setting, every particle number, every step count and every force
   that depends on positions only. *)
Theorem C10_janus_reversible :
  forall o st g, In (o, (st, g)) janus_schemes ->
  forall (sp sv : float) (F : list pint -> list vec3),
    (forall s s', map pos s = map pos s' -> F s = F s') ->
  forall (dt : float) (n : nat) (s : list pint), state_ok s ->
    iter n (step sp sv F st g (- dt)%float) (iter n (step sp sv F st g dt) s) = s.
Proof. exact janus_reversible. Qed.
Print Assumptions C10_janus_reversible.

(* the sign symmetry of IEEE-754 arithmetic the proof rests on *)
Theorem C10_ieee_mul_odd : forall a b : float, ((- a) * b = - (a * b))%float.
Proof. exact mul_opp_l. Qed.
Theorem C10_ieee_div_odd : forall a b : float, ((- a) / b = - (a / b))%float.
Proof. exact div_opp_l. Qed.
Theorem C10_trunc_odd : forall f : float, wrap (trunc64 (- f)%float + trunc64 f) = 0%Z.
Proof. exact trunc_odd. Qed.
Print Assumptions C10_trunc_odd.

(* exact-arithmetic statement for the other symmetric schemes: a palindromic word of operators whose
   negated-coefficient instance is the inverse is undone by the same word run with -dt *)
Theorem C10_symmetric_word_reversible :
  forall (St Op : Type) (app : Op -> bool -> St -> St),
    (forall o b s, app o (negb b) (app o b s) = s) ->
  forall (w : list Op) (s : St), rev w = w ->
    fold_left (fun s o => app o true s) w (fold_left (fun s o => app o false s) w s) = s.
Proof. exact symmetric_word_reversible. Qed.
Print Assumptions C10_symmetric_word_reversible.

(* non-vacuity: a concrete in-range state and a concrete scheme of the table *)
Example C10_hypotheses_inhabited :
  state_ok [mkP 5 (-7) 0 9223372036854775807 (-9223372036854775808) 3] /\
  In (4%nat, (s5odr4_stages, s5odr4_gamma)) janus_schemes.
Proof. split; [repeat constructor; unfold in64, two63; cbn; try lia | cbn; auto]. Qed.

(* ------------------------------------------------------------------ SEI (over the Coq reals) *)
From Coq Require Import Reals.
From RV Require Import Common.Num Common.RealNum C10.Sei C10.SeiProofs.
Local Open Scope R_scope.

(* SEI: n steps with dt followed by n steps with -dt ON THE SAME SIMULATION (the cache of pre-computed sin/tan
   values is part of the state and is refreshed by the code's own lastdt != dt test) return every particle to
   its initial position and velocity, in exact arithmetic, for any number of particles and steps, any dt, any
   OMEGA, OMEGAZ <> 0, any force that depends on positions only, and any sin/tan oracle that is odd in dt *)
Theorem C10_sei_reversible :
  forall (OM OMZ : R), OM <> 0 -> OMZ <> 0 ->
  forall trig, (forall dt, trig (- dt) = neg4 (trig dt)) ->
  forall F, (forall ps ps', map pos ps = map pos ps' -> F ps = F ps') ->
  forall n dt c ps, cache_ok trig c ->
    snd (iter_sei RNum OM OMZ trig F n (- dt) (iter_sei RNum OM OMZ trig F n dt (c, ps))) = ps.
Proof. exact sei_reversible. Qed.
Print Assumptions C10_sei_reversible.

(* the state of a freshly reset integrator meets the cache hypothesis *)
Theorem C10_sei_reset_cache_ok :
  forall trig, (forall dt, trig (- dt) = neg4 (trig dt)) -> cache_ok trig (mkCache 0 0 0 0 0).
Proof. exact reset_cache_ok. Qed.
Print Assumptions C10_sei_reset_cache_ok.

(* non-vacuity: sin and tan give an odd oracle *)
Example C10_sei_hypotheses_inhabited :
  let trig := fun dt => (sin (1 * (- dt / 2)), tan (1 * (- dt / 4)), sin (2 * (- dt / 2)), tan (2 * (- dt / 4))) in
  forall dt, trig (- dt) = neg4 (trig dt).
Proof.
  intros trig dt. unfold trig, neg4.
  replace (1 * (- - dt / 2)) with (- (1 * (- dt / 2))) by field.
  replace (1 * (- - dt / 4)) with (- (1 * (- dt / 4))) by field.
  replace (2 * (- - dt / 2)) with (- (2 * (- dt / 2))) by field.
  replace (2 * (- - dt / 4)) with (- (2 * (- dt / 4))) by field.
  rewrite !sin_neg, !tan_neg. reflexivity.
Qed.

(* ------------------------------------------------------------------ drift/kick schemes (over the Coq reals) *)
From RV Require Import C04.Model C04.Proofs C10.DKRev.

(* the abstract palindrome theorem with the library's concrete drift and kick (C04's transcription of
   integrator_leapfrog.c and of the pair-force accumulation): a palindromic word of drifts and kicks, run n times
   and then n times with every coefficient negated (dt -> -dt), returns to the initial state, for any pair force
   that depends on masses and positions only; leapfrog as implemented is such a word *)
Theorem C10_drift_kick_palindromes_reversible :
  forall (F : force_law), (forall ps ps', map mpos ps = map mpos ps' -> F ps = F ps') ->
  forall n w, rev w = w -> forall s, iterw F n (map neg_dk w) (iterw F n w s) = s.
Proof. intros F HF n w Hp s. exact (dk_palindrome_reversible_n F HF n w Hp s). Qed.
Print Assumptions C10_drift_kick_palindromes_reversible.

Theorem C10_leapfrog_reversible :
  forall (F : force_law), (forall ps ps', map mpos ps = map mpos ps' -> F ps = F ps') ->
  forall dt s,
  run_dk F [D (half RNum * - dt); K (- dt); D (half RNum * - dt)]
    (run_dk F [D (half RNum * dt); K dt; D (half RNum * dt)] s) = s.
Proof. intros F HF dt s. exact (leapfrog_reversible F HF dt s). Qed.
Print Assumptions C10_leapfrog_reversible.
