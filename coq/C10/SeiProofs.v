(* C10: SEI is reversible in exact arithmetic: n steps with dt followed by n steps with -dt on the same
   simulation (so the cache of pre-computed sin/tan values is carried across the change of sign and has to be
   refreshed by the lastdt != dt test) return every particle to its initial state.  Hypotheses: OMEGA, OMEGAZ
   non-zero; the trig oracle is odd in dt (true of sin and tan); forces depend on positions only. *)
From Coq Require Import List Bool Reals Lra.
From RV Require Import Common.Num Common.RealNum C10.Sei.
Import ListNotations.
Open Scope R_scope.

Section SeiR.
Variable OM OMZ : R.
Hypothesis HOM : OM <> 0.
Hypothesis HOMZ : OMZ <> 0.
Variable trig : R -> R * R * R * R.
Definition neg4 (q : R * R * R * R) : R * R * R * R := let '(a, b, c, d) := q in (- a, - b, - c, - d).
Hypothesis trig_odd : forall dt, trig (- dt) = neg4 (trig dt).
Variable F : list (@part R) -> list (R * R * R).
Definition pos (p : @part R) := (qx p, qy p, qz p).
Hypothesis F_pos : forall ps ps', map pos ps = map pos ps' -> F ps = F ps'.

Local Notation h := (h012 RNum OM OMZ).
Local Notation step := (sei_step RNum OM OMZ trig F).

Definition consts (c : @cache R) := (sindt c, tandt c, sindtz c, tandtz c).
Definition cache_ok (c : @cache R) : Prop := consts c = trig (lastdt c).

Lemma reqb_dec a b : neqb RNum a b = true -> a = b.
Proof. cbn. unfold Reqb. destruct (Req_EM_T a b); [auto|discriminate]. Qed.

Lemma refresh_ok dt c : cache_ok c ->
  cache_ok (refresh RNum trig dt c) /\ consts (refresh RNum trig dt c) = trig dt.
Proof.
  intros Hc. unfold refresh. destruct (neqb RNum (lastdt c) dt) eqn:E.
  - apply reqb_dec in E. split; [exact Hc|]. rewrite <- E. exact Hc.
  - destruct (trig dt) as [[[s t] sz] tz] eqn:Et. unfold cache_ok, consts. cbn. rewrite Et. split; reflexivity.
Qed.

(* the shear-shear-shear rotations and the guiding-centre drift are undone by the negated constants and -dt *)
Lemma h012_inv dt c c' p : consts c' = neg4 (consts c) -> h (- dt) c' (h dt c p) = p.
Proof.
  unfold consts, neg4. intros H. inversion H as [[H1 H2 H3 H4]]. destruct p as [x y z vx vy vz].
  unfold h012. cbn [qx qy qz qvx qvy qvz nadd nsub nmul ndiv nneg none RNum]. rewrite H1, H2, H3, H4.
  f_equal; field; auto.
Qed.

Lemma h012_pos_indep_of_nothing : True. Proof. exact I. Qed.

Lemma phi1_with_pos dt : forall ps acc, map pos (phi1_with RNum dt ps acc) = map pos ps.
Proof.
  induction ps as [|p ps IH]; intros acc; [destruct acc; reflexivity|].
  destruct acc as [|[[ax ay] az] acc]; [reflexivity|]. cbn [phi1_with map]. rewrite IH. reflexivity.
Qed.

Lemma phi1_with_inv dt : forall ps acc, phi1_with RNum (- dt) (phi1_with RNum dt ps acc) acc = ps.
Proof.
  induction ps as [|p ps IH]; intros acc; [destruct acc; reflexivity|].
  destruct acc as [|[[ax ay] az] acc]; [reflexivity|]. cbn [phi1_with]. rewrite IH. f_equal.
  destruct p as [x y z vx vy vz]. unfold phi1. cbn [qx qy qz qvx qvy qvz nadd nmul RNum]. f_equal; ring.
Qed.

(* the particle map of one step, given the constants *)
Definition pstep (dt : R) (c : @cache R) (ps : list (@part R)) : list (@part R) :=
  let ps1 := map (h dt c) ps in map (h dt c) (phi1_with RNum dt ps1 (F ps1)).

Lemma map_h012_inv dt c c' ps : consts c' = neg4 (consts c) -> map (h (- dt) c') (map (h dt c) ps) = ps.
Proof.
  intros H. rewrite map_map. rewrite <- (map_id ps) at 2. apply map_ext. intros p. apply h012_inv. exact H.
Qed.

Lemma pstep_inv dt c c' ps : consts c' = neg4 (consts c) -> pstep (- dt) c' (pstep dt c ps) = ps.
Proof.
  intros H. unfold pstep. rewrite (map_h012_inv dt c c' _ H).
  set (ps1 := map (h dt c) ps).
  rewrite (F_pos (phi1_with RNum dt ps1 (F ps1)) ps1) by apply phi1_with_pos.
  rewrite phi1_with_inv. apply map_h012_inv. exact H.
Qed.

Lemma step_eq dt c ps : step dt (c, ps) = (refresh RNum trig dt c, pstep dt (refresh RNum trig dt c) ps).
Proof. reflexivity. Qed.

(* the particles after a step depend on the cache only through its being consistent *)
Lemma pstep_consts dt c c' ps : consts c = consts c' -> pstep dt c ps = pstep dt c' ps.
Proof.
  unfold consts. intros H. inversion H as [[H1 H2 H3 H4]]. unfold pstep.
  assert (E : forall p, h dt c p = h dt c' p) by (intros p; unfold h012; rewrite H1, H2, H3, H4; reflexivity).
  assert (Em : forall l, map (h dt c) l = map (h dt c') l) by (intros l; apply map_ext; exact E).
  rewrite !Em. reflexivity.
Qed.

Lemma step_back dt c c' ps : cache_ok c -> cache_ok c' ->
  snd (step (- dt) (c', snd (step dt (c, ps)))) = ps.
Proof.
  intros Hc Hc'. rewrite !step_eq. cbn [snd].
  destruct (refresh_ok dt c Hc) as [_ E1]. destruct (refresh_ok (- dt) c' Hc') as [_ E2].
  apply pstep_inv. rewrite E1, E2. apply trig_odd.
Qed.

Lemma step_cache_ok dt c ps : cache_ok c -> cache_ok (fst (step dt (c, ps))).
Proof. intros Hc. rewrite step_eq. cbn [fst]. apply (refresh_ok dt c Hc). Qed.

(* particles of a step do not depend on which consistent cache it starts from *)
Lemma step_cache_indep dt c c' ps : cache_ok c -> cache_ok c' -> snd (step dt (c, ps)) = snd (step dt (c', ps)).
Proof.
  intros Hc Hc'. rewrite !step_eq. cbn [snd]. apply pstep_consts.
  destruct (refresh_ok dt c Hc) as [_ E1]. destruct (refresh_ok dt c' Hc') as [_ E2]. rewrite E1, E2. reflexivity.
Qed.

Local Notation iter := (iter_sei RNum OM OMZ trig F).

Lemma iter_cache_ok n dt : forall st, cache_ok (fst st) -> cache_ok (fst (iter n dt st)).
Proof.
  induction n as [|n IH]; intros [c ps] Hc; [exact Hc|]. cbn [iter_sei]. apply IH.
  destruct (step dt (c, ps)) as [c1 ps1] eqn:E. cbn [fst].
  pose proof (step_cache_ok dt c ps Hc) as H. rewrite E in H. exact H.
Qed.

Lemma iter_cache_indep n dt : forall c c' ps, cache_ok c -> cache_ok c' ->
  snd (iter n dt (c, ps)) = snd (iter n dt (c', ps)).
Proof.
  induction n as [|n IH]; intros c c' ps Hc Hc'; [reflexivity|]. cbn [iter_sei].
  rewrite (step_eq dt c ps), (step_eq dt c' ps).
  rewrite (pstep_consts dt (refresh RNum trig dt c) (refresh RNum trig dt c') ps).
  - apply IH; apply refresh_ok; assumption.
  - destruct (refresh_ok dt c Hc) as [_ E1]. destruct (refresh_ok dt c' Hc') as [_ E2]. rewrite E1, E2. reflexivity.
Qed.

(* iter n = n-th step at the END: iter (S n) st = step (iter n st) *)
Lemma iter_snoc n dt : forall st, iter (S n) dt st = step dt (iter n dt st).
Proof.
  induction n as [|n IH]; intros st; [reflexivity|].
  change (iter (S (S n)) dt st) with (iter (S n) dt (step dt st)). rewrite IH. reflexivity.
Qed.

Theorem sei_reversible n dt : forall c ps, cache_ok c ->
  snd (iter n (- dt) (iter n dt (c, ps))) = ps.
Proof.
  induction n as [|n IH]; intros c ps Hc; [reflexivity|].
  rewrite (iter_snoc n dt). set (st := iter n dt (c, ps)).
  assert (Hst : cache_ok (fst st)) by (apply iter_cache_ok; exact Hc).
  destruct st as [c1 ps1] eqn:Est. cbn [fst] in Hst.
  change (iter (S n) (- dt) (step dt (c1, ps1))) with (iter n (- dt) (step (- dt) (step dt (c1, ps1)))).
  destruct (step dt (c1, ps1)) as [c2 ps2] eqn:E2.
  assert (Hc2 : cache_ok c2). { pose proof (step_cache_ok dt c1 ps1 Hst) as H. rewrite E2 in H. exact H. }
  destruct (step (- dt) (c2, ps2)) as [c3 ps3] eqn:E3.
  assert (Hc3 : cache_ok c3). { pose proof (step_cache_ok (- dt) c2 ps2 Hc2) as H. rewrite E3 in H. exact H. }
  assert (Hps3 : ps3 = ps1).
  { pose proof (step_back dt c1 c2 ps1 Hst Hc2) as H. rewrite E2 in H. cbn [snd] in H. rewrite E3 in H. exact H. }
  subst ps3.
  rewrite (iter_cache_indep n (- dt) c3 c1 ps1 Hc3 Hst).
  rewrite <- Est. apply IH. exact Hc.
Qed.

(* a freshly reset integrator (lastdt = 0, constants 0) is consistent, because an odd oracle vanishes at 0 *)
Lemma reset_cache_ok : cache_ok (mkCache 0 0 0 0 0).
Proof.
  unfold cache_ok, consts. cbn.
  pose proof (trig_odd 0) as H. rewrite Ropp_0 in H.
  destruct (trig 0) as [[[a b] c'] d]. unfold neg4 in H. inversion H.
  f_equal; [f_equal; [f_equal|]|]; lra.
Qed.
End SeiR.
