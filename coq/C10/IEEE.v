(* IEEE-754 sign symmetry of binary64 multiplication and division, derived from the
   standard library's specification of primitive floats (FloatAxioms: mul_spec, div_spec,
   opp_spec, Prim2SF_inj).  Rounding to nearest-even does not look at the sign. *)
From Coq Require Import ZArith Bool PrimFloat SpecFloat FloatOps FloatAxioms.
Open Scope float_scope.

Lemma bra_opp prec emax s m e l :
  binary_round_aux prec emax (negb s) m e l = SFopp (binary_round_aux prec emax s m e l).
Proof.
  unfold binary_round_aux.
  destruct (shr_fexp prec emax m e l) as [mrs' e'].
  destruct (shr_fexp prec emax _ e' loc_Exact) as [mrs'' e''].
  destruct (shr_m mrs''); try reflexivity.
  destruct (Zle_bool e'' (emax - prec)); reflexivity.
Qed.

Lemma xorb_negb_l a b : xorb (negb a) b = negb (xorb a b).
Proof. destruct a, b; reflexivity. Qed.
Lemma xorb_negb_r a b : xorb a (negb b) = negb (xorb a b).
Proof. destruct a, b; reflexivity. Qed.

Lemma SFmul_opp_l prec emax x y :
  SFmul prec emax (SFopp x) y = SFopp (SFmul prec emax x y).
Proof.
  destruct x as [sx|sx| |sx mx ex], y as [sy|sy| |sy my ey]; cbn [SFopp SFmul];
    rewrite ?xorb_negb_l; try reflexivity.
  apply bra_opp.
Qed.
Lemma SFmul_opp_r prec emax x y :
  SFmul prec emax x (SFopp y) = SFopp (SFmul prec emax x y).
Proof.
  destruct x as [sx|sx| |sx mx ex], y as [sy|sy| |sy my ey]; cbn [SFopp SFmul];
    rewrite ?xorb_negb_r; try reflexivity.
  apply bra_opp.
Qed.
Lemma SFdiv_opp_l prec emax x y :
  SFdiv prec emax (SFopp x) y = SFopp (SFdiv prec emax x y).
Proof.
  destruct x as [sx|sx| |sx mx ex], y as [sy|sy| |sy my ey]; cbn [SFopp SFdiv];
    rewrite ?xorb_negb_l; try reflexivity.
  destruct (SFdiv_core_binary prec emax (Z.pos mx) ex (Z.pos my) ey) as [[mz ez] lz].
  apply bra_opp.
Qed.

Theorem mul_opp_l (a b : float) : (- a) * b = - (a * b).
Proof.
  apply Prim2SF_inj. rewrite mul_spec, !opp_spec, mul_spec. apply SFmul_opp_l.
Qed.
Theorem mul_opp_r (a b : float) : a * (- b) = - (a * b).
Proof.
  apply Prim2SF_inj. rewrite mul_spec, !opp_spec, mul_spec. apply SFmul_opp_r.
Qed.
Theorem div_opp_l (a b : float) : (- a) / b = - (a / b).
Proof.
  apply Prim2SF_inj. rewrite div_spec, !opp_spec, div_spec. apply SFdiv_opp_l.
Qed.
Theorem opp_opp (a : float) : - (- a) = a.
Proof.
  apply Prim2SF_inj. rewrite !opp_spec. destruct (Prim2SF a) as [s|s| |s m e]; cbn; rewrite ?negb_involutive; reflexivity.
Qed.
