(* C10: binary64 instance of the SEI model for the correspondence check.  The sin/tan oracle and the force are
   finite tables recorded by the harness (sin/tan computed with libm independently of the library's cache; the
   force table maps the positions the library had between part1 and part2 to the accelerations it used). *)
From Coq Require Import List Bool PrimFloat.
From RV Require Import Common.Num Common.FloatNum C10.Sei.
Import ListNotations.
Open Scope float_scope.

Definition trig_of (tab : list (float * (float * float * float * float))) (dt : float) : float * float * float * float :=
  match find (fun e => same (fst e) dt) tab with
  | Some e => snd e
  | None => (0, 0, 0, 0)
  end.

Definition same3 (a b : float * float * float) : bool :=
  let '(a1, a2, a3) := a in let '(b1, b2, b3) := b in same a1 b1 && same a2 b2 && same a3 b3.
Fixpoint same_pos (a b : list (float * float * float)) : bool :=
  match a, b with
  | [], [] => true
  | x :: a', y :: b' => same3 x y && same_pos a' b'
  | _, _ => false
  end.
Definition force_of (tab : list (list (float * float * float) * list (float * float * float)))
           (ps : list (@part float)) : list (float * float * float) :=
  let key := map (fun p => (qx p, qy p, qz p)) ps in
  match find (fun e => same_pos (fst e) key) tab with
  | Some e => snd e
  | None => []
  end.

Definition part_of (l : list float) : @part float :=
  match l with
  | [x; y; z; vx; vy; vz] => mkPart x y z vx vy vz
  | _ => mkPart 0 0 0 0 0 0
  end.
Definition flat (st : @cache float * list (@part float)) : list float :=
  let c := fst st in
  [lastdt c; sindt c; tandt c; sindtz c; tandtz c] ++
  flat_map (fun p => [qx p; qy p; qz p; qvx p; qvy p; qvz p]) (snd st).

(* a history: one dt per step, all on one simulation starting from a reset integrator *)
Definition sei_run (OM OMZ : float) ttab ftab (ps : list (list float)) (dts : list float) : list float :=
  flat (fold_left (fun st dt => sei_step FNum OM OMZ (trig_of ttab) (force_of ftab) dt st) dts
                  (mkCache 0 0 0 0 0, map part_of ps)).
