(* C10 model: src/integrator_janus.c.  Integer state (int64 as Z with explicit two's-complement
   wrap), binary64 coefficients.  Conversions:
     (REB_PARTICLE_INT_TYPE)(double)  -> trunc64  (truncation toward zero; out of range / NaN gives
                                         INT64_MIN, the x86-64 cvttsd2si result gcc emits)
     (double)(int64)                  -> ofint    (round to nearest even)
   The force is a parameter [F]: accelerations as a function of the integer state (in the code:
   to_double followed by reb_simulation_update_acceleration, a deterministic function of the
   positions and the constant masses).  Definitions only. *)
From Coq Require Import ZArith List Bool PrimFloat Uint63 SpecFloat FloatOps.
Import ListNotations.
Open Scope Z_scope.

Definition two63 : Z := 9223372036854775808.
Definition two64 : Z := 18446744073709551616.
Definition wrap (z : Z) : Z := ((z + two63) mod two64) - two63.

Definition trunc64 (f : float) : Z :=
  match Prim2SF f with
  | S754_zero _ => 0
  | S754_finite s m e =>
      let a := match e with
               | Z0 => Zpos m
               | Zpos _ => Z.shiftl (Zpos m) e
               | Zneg _ => Z.shiftr (Zpos m) (- e)
               end in
      if a <? two63 then (if s then - a else a) else - two63
  | _ => - two63
  end.

Definition ofint (z : Z) : float :=
  if z =? - two63 then (-0x1p63)%float
  else if z <? 0 then PrimFloat.opp (PrimFloat.of_uint63 (Uint63.of_Z (- z)))
  else PrimFloat.of_uint63 (Uint63.of_Z z).

Record pint := mkP { px : Z; py : Z; pz : Z; pvx : Z; pvy : Z; pvz : Z }.
Definition vec3 := (float * float * float)%type.

Section Janus.
Variable sp sv : float.                 (* scale_pos, scale_vel *)
Variable F : list pint -> list vec3.    (* accelerations from the integer state *)

Local Open Scope float_scope.
(* drift(r, c, scale_pos, scale_vel):  x += (int64)(c*(double)vx*scale_vel/scale_pos) *)
Definition dinc (c : float) (v : Z) : Z := trunc64 (((c * ofint v) * sv) / sp).
Definition drift1 (c : float) (p : pint) : pint :=
  mkP (wrap (px p + dinc c (pvx p))) (wrap (py p + dinc c (pvy p))) (wrap (pz p + dinc c (pvz p)))
      (pvx p) (pvy p) (pvz p).
Definition drift (c : float) (s : list pint) : list pint := map (drift1 c) s.

(* kick(r, c, scale_vel):  vx += (int64)(c*ax/scale_vel) *)
Definition kinc (c : float) (a : float) : Z := trunc64 ((c * a) / sv).
Definition kick1 (c : float) (pa : pint * vec3) : pint :=
  let '(p, (ax, ay, az)) := pa in
  mkP (px p) (py p) (pz p)
      (wrap (pvx p + kinc c ax)) (wrap (pvy p + kinc c ay)) (wrap (pvz p + kinc c az)).
(* particles beyond the length of the acceleration list are left alone (never happens: F returns N) *)
Fixpoint kick_with (c : float) (s : list pint) (acc : list vec3) : list pint :=
  match s, acc with
  | p :: r, a :: ra => kick1 c (p, a) :: kick_with c r ra
  | _, _ => s
  end.
Definition kick (c : float) (s : list pint) : list pint := kick_with c s (F s).

(* one entry of the operator word of a step: (is_kick, g).  Coefficient passed to drift: (g*dt)/2,
   to kick: g*dt  — exactly the expressions gg(s,0)*dt/2., (gg(s,i-1)+gg(s,i))*dt/2., gg(s,i)*dt *)
Definition coef (dt : float) (e : bool * float) : float :=
  if fst e then snd e * dt else (snd e * dt) / 2.
Definition op (dt : float) (e : bool * float) (s : list pint) : list pint :=
  if fst e then kick (coef dt e) s else drift (coef dt e) s.
Definition run (dt : float) (w : list (bool * float)) (s : list pint) : list pint :=
  fold_left (fun s e => op dt e s) w s.
End Janus.

(* gg(s, stage) *)
Definition gg (stages : nat) (gamma : list float) (stage : nat) : float :=
  if Nat.ltb stage ((stages + 1) / 2) then nth stage gamma 0%float
  else nth ((stages - 1 - stage) mod 17) gamma 0%float.

(* the word of part1 ; [accel] ; part2 :  D g0 ; K g0 ; for i=1..stages-1: D (g(i-1)+g(i)) ; K g(i) ; D g(stages-1) *)
Fixpoint word_loop (stages : nat) (gamma : list float) (i n : nat) : list (bool * float) :=
  match n with
  | O => []
  | S n' => (false, (gg stages gamma (i - 1) + gg stages gamma i)%float) :: (true, gg stages gamma i)
            :: word_loop stages gamma (S i) n'
  end.
Definition word (stages : nat) (gamma : list float) : list (bool * float) :=
  (false, gg stages gamma 0) :: (true, gg stages gamma 0)
  :: word_loop stages gamma 1 (stages - 1) ++ [(false, gg stages gamma (stages - 1))].

Definition step sp sv F (stages : nat) (gamma : list float) (dt : float) (s : list pint) : list pint :=
  run sp sv F dt (word stages gamma) s.

Fixpoint iter {A} (n : nat) (f : A -> A) (x : A) : A :=
  match n with O => x | S k => iter k f (f x) end.

Definition in64 (z : Z) : Prop := - two63 <= z < two63.
Definition pint_ok (p : pint) : Prop :=
  in64 (px p) /\ in64 (py p) /\ in64 (pz p) /\ in64 (pvx p) /\ in64 (pvy p) /\ in64 (pvz p).
Definition state_ok (s : list pint) : Prop := Forall pint_ok s.
