(* C18 — general lemmas about the placement function (both layout models use it), by induction on the member list,
   and the reflection lemmas used by Props.v. *)
From Coq Require Import ZArith String List Bool Lia ZifyBool.
From RV Require Import C18.Types C18.Model.
Import ListNotations.
Open Scope Z_scope.

(* ---------------------------------------------------------------- align_up *)
Lemma align_up_spec : forall x a, 0 < a ->
  x <= align_up x a /\ align_up x a < x + a /\ align_up x a mod a = 0.
Proof.
  intros x a Ha. unfold align_up.
  pose proof (Z.div_mod (x + a - 1) a ltac:(lia)) as Hd.
  pose proof (Z.mod_pos_bound (x + a - 1) a Ha) as Hb.
  repeat split.
  - nia.
  - nia.
  - apply Z.mod_mul. lia.
Qed.

Lemma align_up_least : forall x a y, 0 < a -> x <= y -> y mod a = 0 -> align_up x a <= y.
Proof.
  intros x a y Ha Hxy Hy. unfold align_up.
  apply Z.mod_divide in Hy; [|lia]. destruct Hy as [k Hk]. subst y.
  assert ((x + a - 1) / a <= k).
  { apply Z.lt_succ_r. apply Z.div_lt_upper_bound; lia. }
  nia.
Qed.

(* ---------------------------------------------------------------- place *)
Definition sane (sas : list (Z * Z)) : Prop := Forall (fun sa => 0 <= fst sa /\ 0 < snd sa) sas.

(* members laid out in [lo, hi): each starts at or after the end of the previous one *)
Fixpoint nonoverlap (lo : Z) (l : list (Z * Z)) (hi : Z) : Prop :=
  match l with
  | [] => lo <= hi
  | (o, s) :: r => lo <= o /\ nonoverlap (o + s) r hi
  end.

Lemma place_cons : forall off s a r,
  place off ((s, a) :: r) =
  (align_up off a :: fst (place (align_up off a + s) r), snd (place (align_up off a + s) r)).
Proof. intros. cbn [place]. destruct (place (align_up off a + s) r). reflexivity. Qed.

Lemma place_length : forall sas off, length (fst (place off sas)) = length sas.
Proof.
  induction sas as [|[s a] r IH]; intros off; [reflexivity|].
  rewrite place_cons. cbn [fst length]. now rewrite IH.
Qed.

Lemma place_no_overlap : forall sas off, sane sas ->
  nonoverlap off (combine (fst (place off sas)) (map fst sas)) (snd (place off sas)).
Proof.
  induction sas as [|[s a] r IH]; intros off H.
  - cbn. lia.
  - inversion H as [|x l [Hs Ha] Hr]; subst. cbn [fst snd] in *.
    rewrite place_cons. cbn [fst snd map combine nonoverlap].
    split; [apply (align_up_spec off a Ha)|]. apply IH. exact Hr.
Qed.

Lemma place_aligned : forall sas off, sane sas ->
  Forall2 (fun o sa => o mod snd sa = 0) (fst (place off sas)) sas.
Proof.
  induction sas as [|[s a] r IH]; intros off H.
  - constructor.
  - inversion H as [|x l [Hs Ha] Hr]; subst. cbn [fst snd] in *.
    rewrite place_cons. cbn [fst]. constructor; [apply (align_up_spec off a Ha)|]. apply IH. exact Hr.
Qed.

(* the offset chosen for a member is the LEAST aligned offset not before the end of its predecessor *)
Lemma place_tight : forall s a r off y, 0 < a -> off <= y -> y mod a = 0 ->
  hd 0 (fst (place off ((s, a) :: r))) <= y.
Proof. intros. rewrite place_cons. cbn [fst hd]. now apply align_up_least. Qed.

Lemma place_end_ge : forall sas off, sane sas -> off <= snd (place off sas).
Proof.
  induction sas as [|[s a] r IH]; intros off H; [cbn; lia|].
  inversion H as [|x l [Hs Ha] Hr]; subst. cbn [fst snd] in *.
  rewrite place_cons. cbn [snd]. specialize (IH (align_up off a + s) Hr).
  pose proof (align_up_spec off a Ha). lia.
Qed.

Lemma max_align_pos : forall sas, 0 < max_align sas.
Proof. unfold max_align. induction sas as [|[s a] r IH]; cbn [fold_right snd]; lia. Qed.

Lemma max_align_ge : forall sas sa, In sa sas -> snd sa <= max_align sas.
Proof.
  unfold max_align. induction sas as [|x r IH]; intros sa H; [destruct H|].
  cbn [fold_right]. destruct H as [H|H].
  - subst. lia.
  - specialize (IH sa H). lia.
Qed.

Lemma struct_size_ok : forall sas, sane sas ->
  snd (place 0 sas) <= struct_size sas /\ struct_size sas mod max_align sas = 0 /\
  struct_size sas < snd (place 0 sas) + max_align sas.
Proof.
  intros sas H. unfold struct_size. pose proof (max_align_pos sas) as Hp.
  pose proof (align_up_spec (snd (place 0 sas)) (max_align sas) Hp). lia.
Qed.

(* the placement depends only on the (size, alignment) sequence: two member lists (one from the header, one from the
   ctypes class) with pairwise equal sizes and alignments get identical offsets and total size *)
Lemma layout_deterministic : forall n1 n2 name1 name2 sas,
  map (fun m => (snd (fst m), snd m)) (rl_members (layout_record name1 false n1 sas)) =
  map (fun m => (snd (fst m), snd m)) (rl_members (layout_record name2 false n2 sas)) \/ length n1 <> length n2.
Proof.
  intros n1 n2 name1 name2 sas. destruct (Nat.eq_dec (length n1) (length n2)) as [E|E]; [left|right; exact E].
  unfold layout_record. cbn [rl_members].
  generalize (fst (place 0 sas)) as offs. generalize (map fst sas) as szs. clear sas.
  revert n2 E. induction n1 as [|x n1 IH]; intros [|y n2] E szs offs; try discriminate; [reflexivity|].
  destruct offs as [|o offs]; [reflexivity|]. destruct szs as [|z szs]; [reflexivity|].
  cbn. f_equal. apply IH. now injection E.
Qed.

(* ---------------------------------------------------------------- reflection of the comparison *)
Lemma devs_within_sound : forall ds known, devs_within ds known = true ->
  forall d, In d ds -> exists k, In k known /\ dev_eqb d k = true.
Proof.
  intros ds known H d Hd. unfold devs_within in H. rewrite forallb_forall in H.
  specialize (H d Hd). apply existsb_exists in H. exact H.
Qed.

Lemma dev_eqb_eq : forall a b, dev_eqb a b = true -> a = b.
Proof.
  intros [[[a1 a2] a3] a4] [[[b1 b2] b3] b4] H. unfold dev_eqb in H.
  repeat (apply andb_prop in H; destruct H as [H ?]).
  repeat match goal with h : String.eqb _ _ = true |- _ => apply String.eqb_eq in h end. now subst.
Qed.

(* per-position deviations: what cmp_members emits for one python member against one C member *)
Definition member_devs (T : tables) (cls : string)
           (p : (string * string * pytype) * (string * Z * Z)) (c : cmember * (string * Z * Z)) : list dev :=
  let '((py, want, pt), (_, poff, psz)) := p in let '(m, (_, coff, csz)) := c in
  (if String.eqb want (cm_name m) then [] else [(cls, py, cm_name m, "name"%string)]) ++
  (if poff =? coff then [] else [(cls, py, cm_name m, "offset"%string)]) ++
  (if psz =? csz then [] else [(cls, py, cm_name m, "size"%string)]) ++
  (if kind_match (c_kind (cm_type m)) (py_kind pt) then
     (if compat (t_class_map T) (cm_type m) pt then [] else [(cls, py, cm_name m, "target"%string)])
   else [(cls, py, cm_name m, "kind"%string)]).

(* the meaning of "this python field mirrors this C member exactly" *)
Definition member_ok (T : tables)
           (p : (string * string * pytype) * (string * Z * Z)) (c : cmember * (string * Z * Z)) : Prop :=
  snd (fst (fst p)) = cm_name (fst c) /\                      (* denotes the member of that name *)
  snd (fst (snd p)) = snd (fst (snd c)) /\                    (* same offset *)
  snd (snd p) = snd (snd c) /\                                (* same size *)
  kind_match (c_kind (cm_type (fst c))) (py_kind (snd (fst p))) = true /\   (* same kind *)
  compat (t_class_map T) (cm_type (fst c)) (snd (fst p)) = true.            (* same type all the way down *)

Lemma member_devs_nil : forall T cls p c, member_devs T cls p c = [] -> member_ok T p c.
Proof.
  intros T cls [[[py want] pt] [[pn poff] psz]] [m [[cn coff] csz]] H. unfold member_devs in H.
  unfold member_ok. cbn [fst snd].
  destruct (String.eqb want (cm_name m)) eqn:E1; [|discriminate].
  destruct (poff =? coff) eqn:E2; [|discriminate].
  destruct (psz =? csz) eqn:E3; [|discriminate].
  destruct (kind_match (c_kind (cm_type m)) (py_kind pt)) eqn:E4; [|discriminate].
  destruct (compat (t_class_map T) (cm_type m) pt) eqn:E5; [|discriminate].
  apply String.eqb_eq in E1. repeat split; auto; lia.
Qed.

Lemma member_devs_field : forall T cls p c d, In d (member_devs T cls p c) ->
  fst (fst (fst d)) = cls /\ snd (fst (fst d)) = fst (fst (fst p)).
Proof.
  intros T cls [[[py want] pt] [[pn poff] psz]] [m [[cn coff] csz]] d H. unfold member_devs in H. cbn [fst snd].
  repeat (apply in_app_or in H; destruct H as [H|H]);
    repeat match type of H with In _ (if ?b then _ else _) => destruct b end;
    cbn in H; try contradiction; destruct H as [H|[]]; subst d; cbn; auto.
Qed.

Lemma cmp_members_cons : forall T cls p pr c cr,
  cmp_members T cls (p :: pr) (c :: cr) = member_devs T cls p c ++ cmp_members T cls pr cr.
Proof.
  intros T cls [[[py want] pt] [[pn poff] psz]] pr [m [[cn coff] csz]] cr.
  cbn [cmp_members member_devs]. repeat rewrite <- app_assoc. reflexivity.
Qed.

(* Position by position: if no reported deviation mentions a python field, that field mirrors the C member at the
   same position exactly. *)
Lemma cmp_members_sound : forall T cls pm cm i p c,
  nth_error pm i = Some p -> nth_error cm i = Some c ->
  (forall d, In d (cmp_members T cls pm cm) -> snd (fst (fst d)) <> fst (fst (fst p))) ->
  member_ok T p c.
Proof.
  intros T cls pm. induction pm as [|p0 pr IH]; intros cm i p c Hp Hc H.
  - destruct i; discriminate.
  - destruct cm as [|c0 cr]; [destruct i; discriminate|].
    rewrite cmp_members_cons in H. destruct i as [|i].
    + injection Hp as <-. injection Hc as <-. apply (member_devs_nil T cls).
      destruct (member_devs T cls p0 c0) as [|d l] eqn:E; [reflexivity|exfalso].
      assert (Hin : In d (member_devs T cls p0 c0)) by (rewrite E; now left).
      apply (H d); [apply in_or_app; left; now left|].
      apply (member_devs_field T cls p0 c0 d Hin).
    + cbn [nth_error] in Hp, Hc. apply (IH cr i p c Hp Hc).
      intros d Hd. apply H. apply in_or_app. now right.
Qed.

(* every deviation that cmp_members reports beyond the common length is reported too: a C member the python class
   lacks (unless the class is a declared prefix mirror) *)
Lemma cmp_members_missing : forall T cls pm cm m x,
  str_in cls (t_prefix_ok T) = false -> nth_error cm (length pm) = Some (m, x) ->
  In (cls, EmptyString, cm_name m, "missing-in-python"%string) (cmp_members T cls pm cm).
Proof.
  intros T cls pm. induction pm as [|p0 pr IH]; intros cm m x Hp Hn.
  - destruct cm as [|[m0 x0] cr]; [discriminate|]. cbn in Hn. injection Hn as -> ->.
    cbn [cmp_members]. rewrite Hp. now left.
  - destruct cm as [|c0 cr]; [discriminate|]. rewrite cmp_members_cons. apply in_or_app. right.
    apply (IH cr m x Hp). exact Hn.
Qed.

Lemma cmp_members_class : forall T cls pm cm d, In d (cmp_members T cls pm cm) -> fst (fst (fst d)) = cls.
Proof.
  intros T cls pm. induction pm as [|p0 pr IH]; intros cm d H.
  - destruct cm as [|[m x] cr]; [destruct H|]. cbn [cmp_members] in H.
    destruct (str_in cls (t_prefix_ok T)); [destruct H|]. destruct H as [H|[]]. now subst d.
  - destruct cm as [|c0 cr].
    + destruct p0 as [[[py want] pt] [[pn poff] psz]]. cbn [cmp_members] in H. destruct H as [H|[]]. now subst d.
    + rewrite cmp_members_cons in H. apply in_app_or in H. destruct H as [H|H].
      * apply (member_devs_field T cls p0 c0 d H).
      * apply (IH cr d H).
Qed.

(* The semantic content of the exhaustive comparison: whenever every reported deviation is in a list `known`,
   every python field that `known` does not mention mirrors the C member at its position exactly. *)
Lemma mirror_member_exact_gen : forall T ss cs known devs,
  mirror_deviations T ss cs = Some devs -> (forall d, In d devs -> In d known) ->
  forall cl pl, c_layouts ss = Some cl -> py_layouts (map (expanded_class T) cs) = Some pl ->
  forall c sn s lc lp, In c cs -> assoc (pc_name c) (t_class_map T) = Some sn ->
    find_struct sn ss = Some s -> find_layout sn cl = Some lc -> find_layout (pc_name c) pl = Some lp ->
  forall i p m,
    nth_error (combine (expand_fields T (pc_name c) (pc_fields c)) (rl_members lp)) i = Some p ->
    nth_error (combine (cs_members s) (rl_members lc)) i = Some m ->
    (forall k, In k known -> ~ (fst (fst (fst k)) = pc_name c /\ snd (fst (fst k)) = fst (fst (fst p)))) ->
    member_ok T p m.
Proof.
  intros T ss cs known devs Hd Hk cl pl Hcl Hpl c sn s lc lp Hc Ha Hs Hlc Hlp i p m Hp Hm Hn.
  unfold mirror_deviations in Hd. rewrite Hcl, Hpl in Hd. injection Hd as <-.
  apply (cmp_members_sound T (pc_name c) _ _ i p m Hp Hm).
  intros d Hin Heq.
  assert (Hall : In d (flat_map (cmp_class T ss cl pl) cs)).
  { apply in_flat_map. exists c. split; [exact Hc|]. unfold cmp_class. rewrite Ha, Hs, Hlc, Hlp.
    apply in_or_app. left. exact Hin. }
  apply (Hn d (Hk d Hall)). split; [apply (cmp_members_class _ _ _ _ _ Hin)|exact Heq].
Qed.

(* and a C member beyond the python class's last field is reported unless the class is a declared prefix mirror, as is
   any difference in total size: used for "every member of every mirrored structure" *)
Lemma mirror_total_gen : forall T ss cs known devs,
  mirror_deviations T ss cs = Some devs -> (forall d, In d devs -> In d known) ->
  forall cl pl, c_layouts ss = Some cl -> py_layouts (map (expanded_class T) cs) = Some pl ->
  forall c sn s lc lp, In c cs -> assoc (pc_name c) (t_class_map T) = Some sn ->
    find_struct sn ss = Some s -> find_layout sn cl = Some lc -> find_layout (pc_name c) pl = Some lp ->
    str_in (pc_name c) (t_prefix_ok T) = false ->
    (forall k, In k known -> fst (fst (fst k)) <> pc_name c \/
                             (snd k <> "total-size"%string /\ snd k <> "missing-in-python"%string)) ->
    rl_size lp = rl_size lc /\ rl_align lp = rl_align lc.
Proof.
  intros T ss cs known devs Hd Hk cl pl Hcl Hpl c sn s lc lp Hc Ha Hs Hlc Hlp Hpre Hn.
  unfold mirror_deviations in Hd. rewrite Hcl, Hpl in Hd. injection Hd as <-.
  destruct ((rl_size lp =? rl_size lc) && (rl_align lp =? rl_align lc)) eqn:E; [lia|exfalso].
  assert (Hall : In (pc_name c, EmptyString, sn, "total-size"%string) (flat_map (cmp_class T ss cl pl) cs)).
  { apply in_flat_map. exists c. split; [exact Hc|]. unfold cmp_class. rewrite Ha, Hs, Hlc, Hlp.
    apply in_or_app. right. rewrite Hpre, E. now left. }
  destruct (Hn _ (Hk _ Hall)) as [H|[H _]]; apply H; reflexivity.
Qed.

(* ---------------------------------------------------------------- options *)
Lemma flat_map_nil : forall {A B} (f : A -> list B) l, flat_map f l = [] -> forall x, In x l -> f x = [].
Proof.
  intros A B f l. induction l as [|a l IH]; intros H x Hx; [destruct Hx|].
  cbn in H. apply app_eq_nil in H. destruct H as [H1 H2]. destruct Hx as [Hx|Hx].
  - now subst.
  - now apply IH.
Qed.

Lemma nodup_z_sound : forall l, nodup_z l = true -> NoDup l.
Proof.
  induction l as [|x r IH]; intros H; [constructor|]. cbn in H. apply andb_prop in H. destruct H as [H1 H2].
  constructor; [|now apply IH]. intros Hin. apply negb_true_iff in H1.
  assert (existsb (Z.eqb x) r = true) by (apply existsb_exists; exists x; split; [exact Hin|apply Z.eqb_refl]). congruence.
Qed.

Lemma nodup_s_sound : forall l, nodup_s l = true -> NoDup l.
Proof.
  induction l as [|x r IH]; intros H; [constructor|]. cbn in H. apply andb_prop in H. destruct H as [H1 H2].
  constructor; [|now apply IH]. intros Hin. apply negb_true_iff in H1.
  assert (str_in x r = true) by (apply existsb_exists; exists x; split; [exact Hin|apply String.eqb_refl]). congruence.
Qed.

Lemma options_exact_gen : forall T es ds, option_deviations T es ds = [] ->
  forall d, In d ds -> exists rule, rule_of T (pd_name d) = Some rule /\
    (forall k v, In (k, v) (pd_items d) -> assoc (c_const_of rule k) (all_consts es) = Some v) /\
    NoDup (map snd (pd_items d)) /\ NoDup (map fst (pd_items d)).
Proof.
  intros T es ds H d Hd. unfold option_deviations in H. pose proof (flat_map_nil _ _ H d Hd) as Hx. cbv beta in Hx.
  destruct (rule_of T (pd_name d)) as [rule|]; [|discriminate]. exists rule. split; [reflexivity|].
  apply app_eq_nil in Hx. destruct Hx as [H1 H2]. apply app_eq_nil in H2. destruct H2 as [H2 H3].
  repeat split.
  - intros k v Hkv. pose proof (flat_map_nil _ _ H1 (k, v) Hkv) as Hy. cbv beta in Hy. cbn [fst snd] in Hy.
    destruct (assoc (c_const_of rule k) (all_consts es)) as [v'|]; [|discriminate].
    destruct (v' =? v) eqn:E; [|discriminate]. f_equal. lia.
  - apply nodup_z_sound. destruct (nodup_z (map snd (pd_items d))); [reflexivity|discriminate].
  - apply nodup_s_sound. destruct (nodup_s (map fst (pd_items d))); [reflexivity|discriminate].
Qed.

(* "reads back as the name that was set": the getters return the name of the first item whose value equals the stored
   value; with duplicate-free values that is the name that was set *)
Lemma readback_unique : forall (items : list (string * Z)) k k' v,
  NoDup (map snd items) -> In (k, v) items -> In (k', v) items -> k = k'.
Proof.
  induction items as [|[a b] r IH]; intros k k' v Hn H1 H2; [destruct H1|].
  cbn in Hn. inversion Hn as [|x l Hnotin Hr]; subst.
  destruct H1 as [H1|H1]; destruct H2 as [H2|H2].
  - congruence.
  - injection H1 as -> ->. exfalso. apply Hnotin. apply in_map_iff. exists (k', v). now split.
  - injection H2 as -> ->. exfalso. apply Hnotin. apply in_map_iff. exists (k, v). now split.
  - now apply (IH k k' v).
Qed.

(* ---------------------------------------------------------------- corners of the placement function *)
Lemma place_nil : forall off, place off [] = ([], off).
Proof. reflexivity. Qed.

Lemma empty_record : struct_size [] = 0 /\ union_size [] = 0 /\ max_align [] = 1.
Proof. repeat split; reflexivity. Qed.

Lemma align_up_fixed : forall x a, 0 < a -> x mod a = 0 -> align_up x a = x.
Proof.
  intros x a Ha Hx. pose proof (align_up_spec x a Ha) as [H1 [H2 H3]].
  pose proof (align_up_least x a x Ha (Z.le_refl x) Hx). lia.
Qed.

(* a single member sits at offset 0; a record of one member has the member's size rounded up to its alignment *)
Lemma single_member : forall s a, 0 < a ->
  fst (place 0 [(s, a)]) = [0] /\ snd (place 0 [(s, a)]) = s.
Proof.
  intros s a Ha. cbn. rewrite (align_up_fixed 0 a Ha (Z.mod_0_l a ltac:(lia))). split; reflexivity.
Qed.

(* a member of size 0 (zero-length array, empty record) occupies nothing: the next member may start at the same offset *)
Lemma zero_size_member : forall off a r, 0 < a ->
  place off ((0, a) :: r) = (align_up off a :: fst (place (align_up off a) r), snd (place (align_up off a) r)).
Proof. intros off a r Ha. rewrite place_cons. now rewrite Z.add_0_r. Qed.

(* the type-size functions are total only on well-formed types: a negative array length or a non-positive vector size
   has no layout (the record then has no layout either: c_layout1 returns None, the theorems fail closed) *)
Lemma c_sa_negative_array : forall env n t, n < 0 -> c_sa env (CArr n t) = None.
Proof.
  intros env n t Hn. cbn. destruct (c_sa env t) as [[s a]|]; [|reflexivity].
  destruct (0 <=? n) eqn:E; [lia|reflexivity].
Qed.
Lemma py_sa_negative_array : forall env n t, n < 0 -> py_sa env (PArr n t) = None.
Proof.
  intros env n t Hn. cbn. destruct (py_sa env t) as [[s a]|]; [|reflexivity].
  destruct (0 <=? n) eqn:E; [lia|reflexivity].
Qed.

(* every (size, alignment) the C type-size function returns is sane, provided the records it may refer to are *)
Lemma assoc_in : forall {A} k (l : list (string * A)) v, assoc k l = Some v -> In (k, v) l.
Proof.
  induction l as [|[k' v'] r IH]; intros v H; [discriminate|]. cbn in H.
  destruct (String.eqb k k') eqn:E.
  - injection H as <-. apply String.eqb_eq in E. subst. now left.
  - right. now apply IH.
Qed.

Definition env_sane (env : senv) : Prop := forall n s a, In (n, (s, a)) env -> 0 <= s /\ 0 < a.

Lemma c_prim_sane : forall n k s, c_prim_info n = Some (k, s) -> 0 < s.
Proof.
  intros n k s H. unfold c_prim_info in H. apply assoc_in in H.
  repeat (destruct H as [H|H]; [inversion H; subst; lia|]). destruct H.
Qed.
Lemma py_prim_sane : forall n k s, py_prim_info n = Some (k, s) -> 0 < s.
Proof.
  intros n k s H. unfold py_prim_info in H. apply assoc_in in H.
  repeat (destruct H as [H|H]; [inversion H; subst; lia|]). destruct H.
Qed.

Lemma c_sa_sane : forall env t s a, env_sane env -> c_sa env t = Some (s, a) -> 0 <= s /\ 0 < a.
Proof.
  intros env t. induction t as [| n | n | t IH | r IHr args v | n t IH | n | b t IH]; intros s a He H; cbn [c_sa] in H; try discriminate.
  - destruct (c_prim_info n) as [[k z]|] eqn:E; [|discriminate]. injection H as <- <-. apply c_prim_sane in E. lia.
  - injection H as <- <-. lia.
  - injection H as <- <-. lia.
  - destruct (c_sa env t) as [[s' a']|] eqn:E; [|discriminate]. destruct (0 <=? n) eqn:En; [|discriminate].
    injection H as <- <-. destruct (IH s' a' He eq_refl). split; [nia|lia].
  - apply assoc_in in H. apply (He n s a H).
  - destruct (0 <? b) eqn:Eb; [|discriminate]. injection H as <- <-. lia.
Qed.

Lemma py_sa_sane : forall env t s a, env_sane env -> py_sa env t = Some (s, a) -> 0 <= s /\ 0 < a.
Proof.
  intros env t. induction t as [| n | t IH | r IHr args | n t IH | c]; intros s a He H; cbn [py_sa] in H; try discriminate.
  - destruct (py_prim_info n) as [[k z]|] eqn:E; [|discriminate]. injection H as <- <-. apply py_prim_sane in E. lia.
  - injection H as <- <-. lia.
  - injection H as <- <-. lia.
  - destruct (py_sa env t) as [[s' a']|] eqn:E; [|discriminate]. destruct (0 <=? n) eqn:En; [|discriminate].
    injection H as <- <-. destruct (IH s' a' He eq_refl). split; [nia|lia].
  - apply assoc_in in H. apply (He c s a H).
Qed.

(* an aligned(n) attribute can only raise the alignment *)
Lemma c_member_sa_sane : forall env m s a, env_sane env -> c_member_sa env m = Some (s, a) -> 0 <= s /\ 0 < a.
Proof.
  intros env m s a He H. unfold c_member_sa in H. destruct (c_sa env (cm_type m)) as [[s' a']|] eqn:E; [|discriminate].
  injection H as <- <-. destruct (c_sa_sane env _ _ _ He E). lia.
Qed.
