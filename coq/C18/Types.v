(* C18 — vocabulary shared by the generated descriptions (coq/Gen/Structs.v, coq/Gen/PyMirror.v) and the model.
   Definitions only. *)
From Coq Require Import ZArith String List.
Import ListNotations.

(* ---- C side (as printed by clang for the current rebound.h, typedefs resolved to builtin types) ---- *)
Inductive ctype : Type :=
| CVoid
| CPrim (name : string)                 (* builtin arithmetic type: "int", "unsigned int", "long", "double", "char", ... *)
| CEnum (name : string)                 (* enum type (named, or "anon@line:col") *)
| CPtr (t : ctype)
| CFun (ret : ctype) (args : list ctype) (variadic : bool)   (* function type; occurs under CPtr only *)
| CArr (n : Z) (t : ctype)
| CStruct (name : string)               (* struct/union by name (complete or incomplete) *)
| CVec (bytes : Z) (t : ctype).         (* gcc vector type, e.g. __m512d = CVec 64 double *)

Record cmember := { cm_name : string; cm_type : ctype; cm_aligned : Z (* aligned(n) attribute, 0 if none *) }.
Record cstruct := { cs_name : string; cs_union : bool; cs_header : string; cs_members : list cmember }.
Record cenum := { ce_name : string; ce_header : string; ce_consts : list (string * Z) }.
Record cdecl := { cd_name : string; cd_header : string; cd_dllexport : bool; cd_is_function : bool }.

(* ---- Python side (ctypes vocabulary, as written in the sources) ---- *)
Inductive pytype : Type :=
| PNone                                 (* restype None *)
| PPrim (name : string)                 (* c_int, c_uint, c_double, c_void_p, c_char_p, ... *)
| PPtr (t : pytype)                     (* POINTER(t) *)
| PFun (ret : pytype) (args : list pytype)   (* CFUNCTYPE(ret, args...) *)
| PArr (n : Z) (t : pytype)             (* t * n *)
| PStruct (cls : string).               (* a ctypes.Structure subclass by value *)

Record pyclass := { pc_name : string; pc_module : string; pc_fields : list (string * pytype) }.
Record pydict := { pd_name : string; pd_module : string; pd_items : list (string * Z) }.
Record pyprops := { pp_class : string; pp_props : list (string * bool * list string) }.
