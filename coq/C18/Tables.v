(* C18 — hand-kept tables (the only non-generated data): which python class mirrors which C record, intentionally
   different member names, naming rules of the option dictionaries, python-only keep-alive attributes, and the list
   of deviations that are known, reported defects of the pinned sources (see known_findings.json). *)
From Coq Require Import ZArith String List.
From RV Require Import C18.Types C18.Model.
Import ListNotations.
Open Scope string_scope.

Definition tables0 : tables := {|
  t_class_map := [
    ("Simulation", "reb_simulation"); ("Particle", "reb_particle"); ("Orbit", "reb_orbit"); ("Rotation", "reb_rotation");
    ("Variation", "reb_variational_configuration"); ("ODE", "reb_ode"); ("CollisionS", "reb_collision");
    ("Simulationarchive", "reb_simulationarchive"); ("BinaryFieldDescriptor", "reb_binary_field_descriptor");
    ("HashPointerPair", "reb_hash_pointer_pair"); ("Vec3dBasic", "reb_vec3d"); ("Vec6d", "reb_vec6d");
    ("reb_dp7", "reb_dp7"); ("ParticleInt", "reb_particle_int"); ("ServerData", "reb_server_data"); ("timeval", "timeval");
    ("IntegratorBS", "reb_integrator_bs"); ("IntegratorEOS", "reb_integrator_eos"); ("IntegratorIAS15", "reb_integrator_ias15");
    ("IntegratorJanus", "reb_integrator_janus"); ("IntegratorMercurius", "reb_integrator_mercurius");
    ("IntegratorSABA", "reb_integrator_saba"); ("IntegratorSEI", "reb_integrator_sei"); ("IntegratorTRACE", "reb_integrator_trace");
    ("IntegratorWHFast", "reb_integrator_whfast"); ("IntegratorWHFast512", "reb_integrator_whfast512")];
  (* python field names that intentionally differ from the C member by more than leading underscores *)
  t_alias := [
    ("Simulation", "gravity_ignore", "gravity_ignore_terms");
    ("Simulation", "_display_view", "display_settings");
    ("Simulation", "_odes_warnings", "ode_warnings");
    ("IntegratorIAS15", "_map_allocated_n", "N_allocated_map");
    ("IntegratorTRACE", "_N_allocated_additionalforces", "N_allocated_additional_forces")];
  (* python array fields that cover several consecutive C members *)
  t_split := [("Simulation", "max_radius", ["max_radius0"; "max_radius1"])];
  (* only reached through a pointer, never embedded or allocated from python: a prefix of the C record suffices *)
  t_prefix_ok := ["ServerData"];
  t_dict_rules := [
    ("INTEGRATORS", "REB_INTEGRATOR_", []);
    ("BOUNDARIES", "REB_BOUNDARY_", []);
    ("GRAVITIES", "REB_GRAVITY_", []);
    ("COLLISIONS", "REB_COLLISION_", []);
    ("WHFAST_KERNELS", "REB_WHFAST_KERNEL_", []);
    ("WHFAST_COORDINATES", "REB_WHFAST_COORDINATES_", []);
    ("TRACE_PERI_MODES", "REB_TRACE_PERI_", []);
    ("EOS_TYPES", "REB_EOS_", []);
    ("SABA_TYPES", "REB_SABA_", [
       ("cm1", "REB_SABA_CM_1"); ("cm2", "REB_SABA_CM_2"); ("cm3", "REB_SABA_CM_3"); ("cm4", "REB_SABA_CM_4");
       ("cl1", "REB_SABA_CL_1"); ("cl2", "REB_SABA_CL_2"); ("cl3", "REB_SABA_CL_3"); ("cl4", "REB_SABA_CL_4");
       ("10,4", "REB_SABA_10_4"); ("8,6,4", "REB_SABA_8_6_4"); ("10,6,4", "REB_SABA_10_6_4");
       ("h8,4,4", "REB_SABA_H_8_4_4"); ("h8,6,4", "REB_SABA_H_8_6_4"); ("h10,6,4", "REB_SABA_H_10_6_4")])];
  (* python-side references that keep ctypes callback objects alive (not C members by design) *)
  t_keepalive := [
    ("IntegratorMercurius", "_Lfp"); ("IntegratorTRACE", "_Sfp"); ("IntegratorTRACE", "_S_perifp"); ("ODE", "_dfp");
    ("Simulation", "_afp"); ("Simulation", "_pretmp"); ("Simulation", "_posttmp"); ("Simulation", "_hb");
    ("Simulation", "_corfp"); ("Simulation", "_colrfp"); ("Simulation", "_fpa")];
  (* exported on ELF platforms (default visibility) although not declared DLLEXPORT in rebound.h *)
  t_symbol_exceptions := [("reb_integrator_bs_update_particles", "integrator_bs.h")];
  (* legacy module that nothing imports (checked: dead_modules_ok) *)
  t_dead_modules := ["widget"]
|}.

(* Deviations of the sources that are genuine, reported, still OPEN defects (known_findings.json, property C18): none.
   History: Simulation.N_var_config (fixed ce86165), IntegratorWHFast512._p_jh (148876d), Simulation.python_unit_t/l/m (e063900).
   With the empty list C18_mirror_exact_partial / C18_mirror_member_exact state the mirror property at full strength. *)
Definition known_deviations : list dev := [].

(* documentation paths (sim.<path> / r-><path>) -> python class, property, option dictionary ("" = named callbacks),
   normalisation the setter applies (Model.normalise) *)
Definition doc_rules : list docrule := [
  ("integrator", "Simulation", "integrator", "INTEGRATORS", 1%Z);
  ("gravity", "Simulation", "gravity", "GRAVITIES", 1%Z);
  ("collision", "Simulation", "collision", "COLLISIONS", 1%Z);
  ("boundary", "Simulation", "boundary", "BOUNDARIES", 1%Z);
  ("ri_whfast.kernel", "IntegratorWHFast", "kernel", "WHFAST_KERNELS", 2%Z);
  ("ri_whfast.coordinates", "IntegratorWHFast", "coordinates", "WHFAST_COORDINATES", 1%Z);
  ("ri_saba.type", "IntegratorSABA", "type", "SABA_TYPES", 3%Z);
  ("ri_eos.phi0", "IntegratorEOS", "phi0", "EOS_TYPES", 3%Z);
  ("ri_eos.phi1", "IntegratorEOS", "phi1", "EOS_TYPES", 3%Z);
  ("ri_trace.peri_mode", "IntegratorTRACE", "peri_mode", "TRACE_PERI_MODES", 0%Z);
  ("collision_resolve", "Simulation", "collision_resolve", "", 0%Z);
  ("ri_mercurius.L", "IntegratorMercurius", "L", "", 0%Z);
  ("ri_trace.S", "IntegratorTRACE", "S", "", 0%Z);
  ("ri_trace.S_peri", "IntegratorTRACE", "S_peri", "", 0%Z)].

(* known, reported documentation defects: none open (docs/boundaryconditions.md `reb_boundary_periodic` was fixed in /repo
   commit a8196ca) *)
Definition known_doc_deviations : list ddev := [].

(* naming rule of the built-in callbacks a setter accepts by name *)
Definition named_callback_prefixes : list (string * string * string) := [
  ("Simulation", "collision_resolve", "reb_collision_resolve_");
  ("IntegratorMercurius", "L", "reb_integrator_mercurius_L_");
  ("IntegratorTRACE", "S", "reb_integrator_trace_switch_");
  ("IntegratorTRACE", "S_peri", "reb_integrator_trace_switch_peri_")].
