(* C18 property theorems ONLY (each closed by an already proved lemma or by exhaustive computation over the
   descriptions regenerated from the current sources: Gen/Structs.v from src/*.h, Gen/PyMirror.v from rebound/**/*.py). *)
From Coq Require Import ZArith String List Bool Arith.
From RV Require Import C18.Types C18.Model C18.Tables C18.Proofs Gen.Structs Gen.PyMirror Gen.DocOptions.
Import ListNotations.
Open Scope Z_scope.

(* ---- the layout function (used for both the C records and the ctypes classes), for every member list ---- *)
Theorem C18_layout_no_overlap : forall sas off, sane sas ->
  nonoverlap off (combine (fst (place off sas)) (map fst sas)) (snd (place off sas)).
Proof. exact place_no_overlap. Qed.
Print Assumptions C18_layout_no_overlap.

Theorem C18_layout_aligned : forall sas off, sane sas ->
  Forall2 (fun o sa => o mod snd sa = 0) (fst (place off sas)) sas.
Proof. exact place_aligned. Qed.
Print Assumptions C18_layout_aligned.

Theorem C18_layout_tight : forall s a r off y, 0 < a -> off <= y -> y mod a = 0 ->
  hd 0 (fst (place off ((s, a) :: r))) <= y.
Proof. exact place_tight. Qed.
Print Assumptions C18_layout_tight.

Theorem C18_struct_size_multiple_of_alignment : forall sas, sane sas ->
  snd (place 0 sas) <= struct_size sas /\ struct_size sas mod max_align sas = 0 /\
  struct_size sas < snd (place 0 sas) + max_align sas.
Proof. exact struct_size_ok. Qed.
Print Assumptions C18_struct_size_multiple_of_alignment.

Theorem C18_layout_deterministic : forall n1 n2 name1 name2 sas,
  map (fun m => (snd (fst m), snd m)) (rl_members (layout_record name1 false n1 sas)) =
  map (fun m => (snd (fst m), snd m)) (rl_members (layout_record name2 false n2 sas)) \/ length n1 <> length n2.
Proof. exact layout_deterministic. Qed.
Print Assumptions C18_layout_deterministic.

(* ---- corners of the layout function.  The theorems above assume `sane` (sizes >= 0, alignments > 0); these say what
   happens at the edges of that domain and that the model never leaves it. ---- *)

(* an empty record has size 0 and alignment 1 (gcc's and ctypes' answer; checked against both in the correspondence) *)
Theorem C18_layout_empty_record : struct_size [] = 0 /\ union_size [] = 0 /\ max_align [] = 1 /\ forall off, place off [] = ([], off).
Proof. destruct empty_record as [A [B C]]. repeat split; auto. Qed.
Print Assumptions C18_layout_empty_record.

(* one member: offset 0, no padding before it *)
Theorem C18_layout_single_member : forall s a, 0 < a -> fst (place 0 [(s, a)]) = [0] /\ snd (place 0 [(s, a)]) = s.
Proof. exact single_member. Qed.
Print Assumptions C18_layout_single_member.

(* size-0 members (zero-length arrays, empty records) occupy nothing *)
Theorem C18_layout_zero_size_member : forall off a r, 0 < a ->
  place off ((0, a) :: r) = (align_up off a :: fst (place (align_up off a) r), snd (place (align_up off a) r)).
Proof. exact zero_size_member. Qed.
Print Assumptions C18_layout_zero_size_member.

(* outside the domain the model has NO layout (fails closed): negative array lengths *)
Theorem C18_layout_rejects_negative_arrays : forall envc envp n tc tp, n < 0 ->
  c_sa envc (CArr n tc) = None /\ py_sa envp (PArr n tp) = None.
Proof. intros. split; [now apply c_sa_negative_array | now apply py_sa_negative_array]. Qed.
Print Assumptions C18_layout_rejects_negative_arrays.

(* and inside it, every (size, alignment) either model computes for any type is sane, so the `sane` hypothesis of the
   general theorems is always met by what the models feed to `place` *)
Theorem C18_type_sizes_sane : forall env, env_sane env ->
  (forall t s a, c_sa env t = Some (s, a) -> 0 <= s /\ 0 < a) /\
  (forall m s a, c_member_sa env m = Some (s, a) -> 0 <= s /\ 0 < a) /\
  (forall t s a, py_sa env t = Some (s, a) -> 0 <= s /\ 0 < a).
Proof.
  intros env He. repeat split; intros; try (eapply c_sa_sane; eauto; fail); try (eapply c_member_sa_sane; eauto; fail);
    try (eapply py_sa_sane; eauto; fail).
Qed.
Print Assumptions C18_type_sizes_sane.

(* ---- exhaustive, over the regenerated descriptions ---- *)

(* every layout computed for the regenerated C records (unions included) and python classes is well-formed: members in
   increasing, non-overlapping order inside the record, sizes >= 0, total size a multiple of the alignment *)
Theorem C18_generated_layouts_wellformed :
  all_wellformed (map cs_union c_structs) (c_layouts c_structs) = true /\
  all_wellformed (map (fun _ => false) py_classes) (py_layouts (map (expanded_class tables0) py_classes)) = true.
Proof. split; vm_compute; reflexivity. Qed.
Print Assumptions C18_generated_layouts_wellformed.

(* Every ctypes.Structure class of the package is mapped to a C record; both layouts are computable; every deviation
   of any member of any class from the C record (name / offset / size / kind / pointee or signature / missing member /
   total size) is one of the reported defects listed in Tables.known_deviations. *)
Theorem C18_mirror_exact_partial : exists devs,
  mirror_deviations tables0 c_structs py_classes = Some devs /\ forall d, In d devs -> In d known_deviations.
Proof.
  assert (H : match mirror_deviations tables0 c_structs py_classes with
              | Some devs => devs_within devs known_deviations | None => false end = true) by (vm_compute; reflexivity).
  destruct (mirror_deviations tables0 c_structs py_classes) as [devs|]; [|discriminate].
  exists devs. split; [reflexivity|]. intros d Hd.
  destruct (devs_within_sound _ _ H d Hd) as [k [Hk E]]. apply dev_eqb_eq in E. now subst.
Qed.
Print Assumptions C18_mirror_exact_partial.

(* What that means member by member: a python field that the known-deviation list does not mention denotes the C
   member of the intended name at the same offset, with the same size, kind and type. *)
Theorem C18_mirror_member_exact :
  forall cl pl, c_layouts c_structs = Some cl -> py_layouts (map (expanded_class tables0) py_classes) = Some pl ->
  forall c sn s lc lp, In c py_classes -> assoc (pc_name c) (t_class_map tables0) = Some sn ->
    find_struct sn c_structs = Some s -> find_layout sn cl = Some lc -> find_layout (pc_name c) pl = Some lp ->
  forall i p m,
    nth_error (combine (expand_fields tables0 (pc_name c) (pc_fields c)) (rl_members lp)) i = Some p ->
    nth_error (combine (cs_members s) (rl_members lc)) i = Some m ->
    (forall k, In k known_deviations -> ~ (fst (fst (fst k)) = pc_name c /\ snd (fst (fst k)) = fst (fst (fst p)))) ->
    member_ok tables0 p m.
Proof.
  destruct C18_mirror_exact_partial as [devs [Hd Hk]].
  exact (mirror_member_exact_gen tables0 c_structs py_classes known_deviations devs Hd Hk).
Qed.
Print Assumptions C18_mirror_member_exact.

(* and the python class covers the whole C record (same total size and alignment), except declared prefix mirrors *)
Theorem C18_mirror_total_size :
  forall cl pl, c_layouts c_structs = Some cl -> py_layouts (map (expanded_class tables0) py_classes) = Some pl ->
  forall c sn s lc lp, In c py_classes -> assoc (pc_name c) (t_class_map tables0) = Some sn ->
    find_struct sn c_structs = Some s -> find_layout sn cl = Some lc -> find_layout (pc_name c) pl = Some lp ->
    str_in (pc_name c) (t_prefix_ok tables0) = false ->
    rl_size lp = rl_size lc /\ rl_align lp = rl_align lc.
Proof.
  destruct C18_mirror_exact_partial as [devs [Hd Hk]].
  intros cl pl Hcl Hpl c sn s lc lp Hc Ha Hs Hlc Hlp Hpre.
  apply (mirror_total_gen tables0 c_structs py_classes known_deviations devs Hd Hk cl pl Hcl Hpl c sn s lc lp); try assumption.
  (* no listed deviation is a total-size / missing-member deviation (checked by computation, for whatever the list is) *)
  intros k Hk'.
  assert (H : forallb (fun k : dev => negb (String.eqb (snd k) "total-size") && negb (String.eqb (snd k) "missing-in-python"))
                      known_deviations = true) by (vm_compute; reflexivity).
  rewrite forallb_forall in H. specialize (H k Hk'). apply andb_prop in H. destruct H as [H1 H2].
  right. split; intros E; rewrite E in *; discriminate.
Qed.
Print Assumptions C18_mirror_total_size.

(* Every (name, value) of every option dictionary equals the C enum constant the name denotes (naming rule + explicit
   exceptions of Tables.v); values and names are duplicate-free. *)
Theorem C18_options_exact : forall d, In d py_dicts ->
  exists rule, rule_of tables0 (pd_name d) = Some rule /\
    (forall k v, In (k, v) (pd_items d) -> assoc (c_const_of rule k) (all_consts c_enums) = Some v) /\
    NoDup (map snd (pd_items d)) /\ NoDup (map fst (pd_items d)).
Proof. apply options_exact_gen. vm_compute. reflexivity. Qed.
Print Assumptions C18_options_exact.

(* so a getter (first name whose value equals the stored one) reads back the name that was set *)
Theorem C18_options_read_back : forall d, In d py_dicts ->
  forall k k' v, In (k, v) (pd_items d) -> In (k', v) (pd_items d) -> k = k'.
Proof.
  intros d Hd k k' v. destruct (C18_options_exact d Hd) as [rule [_ [_ [Hn _]]]]. now apply readback_unique.
Qed.
Print Assumptions C18_options_read_back.

Theorem C18_binary_warnings_exact : binary_warnings_ok c_enums py_binary_warnings = true.
Proof. vm_compute. reflexivity. Qed.
Print Assumptions C18_binary_warnings_exact.

(* No class has a property with the name of one of its fields (the field descriptor would hide the property). *)
Theorem C18_no_shadowing : shadowing py_classes py_props = [] /\ props_classes_known py_classes py_props = true.
Proof. vm_compute. split; reflexivity. Qed.
Print Assumptions C18_no_shadowing.

(* Every attribute a property setter assigns on self is a field, a property, or a declared keep-alive slot. *)
Theorem C18_setter_targets_exist : bad_setter_targets tables0 py_classes py_props = [].
Proof. vm_compute. reflexivity. Qed.
Print Assumptions C18_setter_targets_exist.

(* Getter and setter of a property name the same C member: every FIELD a setter assigns is one of the fields its getter
   reads (or, for write-only properties whose getter reads no field, the field "_" ++ property); an accessor that searches
   a C array never leaves its `for` loop unconditionally (it would only ever inspect element 0), and a getter and a
   setter that both search test the same condition (they locate the same element). *)
Theorem C18_setter_matches_getter :
  setter_getter_mismatch py_classes py_props py_getter_reads = [] /\
  unguarded_loop_exits py_loop_exits = [] /\ search_mismatch py_loop_search = [].
Proof. vm_compute. repeat split; reflexivity. Qed.
Print Assumptions C18_setter_matches_getter.

(* Callbacks: every CFUNCTYPE alias a setter wraps a python callable with (AFF, CORFF, COLRFF, FPA, ODEDER, MERCURIUSLF,
   TRACEKF, TRACECF, ...) has the return type, argument count and argument types of the C member's prototype in the header,
   and every exported C function a setter stores by name has exactly the member's function type (or is the C-side setter
   taking a parameter of that type); the function a setter stores for a NAME is PREFIX ++ name.  (The field's own CFUNCTYPE is compared with the prototype by the mirror theorems.) *)
Theorem C18_callback_signatures :
  callback_mismatch tables0 c_structs py_classes py_props py_functypes py_setter_callbacks c_fun_types = [] /\
  named_callback_mismatch named_callback_prefixes py_named_callbacks = [] /\
  (8 <= length (callback_props py_classes py_props))%nat.
Proof. split; [vm_compute; reflexivity | split; [vm_compute; reflexivity | apply Nat.leb_le; vm_compute; reflexivity]]. Qed.
Print Assumptions C18_callback_signatures.

(* Documentation (docs/*.md, regenerated): every option string the docs tell the user to assign (sim.<path> = "name") is
   accepted by the python setter (after the setter's normalisation) / is a named built-in callback; every C constant the
   docs assign (r-><path> = REB_X) is a constant of that option's enum; where the docs show the C and the python form side by
   side, the python name selects the value of that C constant (resp. stores that C function); every REB_<OPTION>_* token
   anywhere in the docs is a real enum constant -- except the listed, reported documentation defects. *)
Theorem C18_documented_options :
  ddevs_within (doc_deviations tables0 doc_rules c_enums c_decls py_dicts py_named_callbacks
                               doc_py_options doc_c_options doc_c_callbacks doc_pairs doc_enum_tokens)
               known_doc_deviations = true /\
  (30 <= length doc_py_options)%nat /\ (30 <= length doc_pairs)%nat.
Proof. split; [vm_compute; reflexivity | split; apply Nat.leb_le; vm_compute; reflexivity]. Qed.
Print Assumptions C18_documented_options.

(* Every clibrebound.<symbol> the (imported) python modules reference is declared DLLEXPORT in rebound.h (or is a listed
   exception declared in the named header); dynamic lookups have a matching exported family; excluded modules are
   imported by nobody. *)
Theorem C18_symbol_exists :
  missing_symbols tables0 c_decls py_symbols = [] /\ prefixes_ok c_decls py_symbol_prefixes = true /\
  dead_modules_ok tables0 py_imported_modules = true.
Proof. vm_compute. repeat split; reflexivity. Qed.
Print Assumptions C18_symbol_exists.

(* Non-vacuity: the generated descriptions are not empty, the hypotheses of the member theorem are met by a concrete
   member (Simulation.N_active <-> reb_simulation.N_active), and `sane` holds of a real member list. *)
Example C18_hypotheses_inhabited :
  (20 <= length py_classes)%nat /\ (300 <= length (flat_map pc_fields py_classes))%nat /\
  (9 <= length py_dicts)%nat /\ (90 <= length py_symbols)%nat /\
  (exists cl pl, c_layouts c_structs = Some cl /\ py_layouts (map (expanded_class tables0) py_classes) = Some pl) /\
  existsb (fun q => let '(a, b, c, d) := q in
             (String.eqb a "Simulation" && String.eqb b "reb_simulation" && String.eqb c "N_active" && String.eqb d "N_active")%bool)
          (name_pairs tables0 py_classes) = true /\
  sane [(8, 8); (4, 4); (24, 8); (1024, 1)].
Proof.
  split; [apply Nat.leb_le; vm_compute; reflexivity|].
  split; [apply Nat.leb_le; vm_compute; reflexivity|].
  split; [apply Nat.leb_le; vm_compute; reflexivity|].
  split; [apply Nat.leb_le; vm_compute; reflexivity|].
  split; [|split].
  - destruct (c_layouts c_structs) as [cl|] eqn:E1; [|vm_compute in E1; discriminate].
    destruct (py_layouts (map (expanded_class tables0) py_classes)) as [pl|] eqn:E2; [|vm_compute in E2; discriminate].
    exists cl, pl. split; reflexivity.
  - vm_compute. reflexivity.
  - repeat constructor; cbn; discriminate.
Qed.
