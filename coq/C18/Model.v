(* C18 — executable model: the x86-64 SysV record-layout function for C types, the ctypes record-layout
   function (same placement algorithm over the ctypes vocabulary), the member-by-member mirror comparison, the
   option-dictionary comparison, the property/field checks and the symbol check.  Definitions only.
   Hand-kept tables (class map, aliases, naming rules, known deviations) are in C18/Tables.v. *)
From Coq Require Import ZArith String Ascii List Bool.
From RV Require Import C18.Types.
Import ListNotations.
Open Scope string_scope. Open Scope list_scope. Open Scope Z_scope.

(* ------------------------------------------------------------------ small utilities *)
Definition str_in (s : string) (l : list string) : bool := existsb (String.eqb s) l.

Fixpoint assoc {A} (k : string) (l : list (string * A)) : option A :=
  match l with [] => None | (k', v) :: r => if String.eqb k k' then Some v else assoc k r end.

Fixpoint strip_underscores (s : string) : string :=
  match s with String "_" r => strip_underscores r | _ => s end.

Definition upper_ascii (c : ascii) : ascii :=
  let n := N_of_ascii c in if (N.leb 97 n && N.leb n 122)%bool then ascii_of_N (n - 32) else c.
Fixpoint upper (s : string) : string :=
  match s with EmptyString => EmptyString | String c r => String (upper_ascii c) (upper r) end.

Fixpoint has_prefix (p s : string) : bool :=
  match p, s with
  | EmptyString, _ => true
  | String a p', String b s' => Ascii.eqb a b && has_prefix p' s'
  | _, _ => false
  end.

Fixpoint nodup_z (l : list Z) : bool :=
  match l with [] => true | x :: r => negb (existsb (Z.eqb x) r) && nodup_z r end.
Fixpoint nodup_s (l : list string) : bool :=
  match l with [] => true | x :: r => negb (str_in x r) && nodup_s r end.

(* ------------------------------------------------------------------ scalar tables *)
Inductive kind := KSigned | KUnsigned | KFloat | KChar | KBool | KPtr | KFunPtr | KEnum | KStruct | KArr | KVec | KNone.
Definition kind_eqb (a b : kind) : bool :=
  match a, b with
  | KSigned, KSigned | KUnsigned, KUnsigned | KFloat, KFloat | KChar, KChar | KBool, KBool | KPtr, KPtr
  | KFunPtr, KFunPtr | KEnum, KEnum | KStruct, KStruct | KArr, KArr | KVec, KVec | KNone, KNone => true
  | _, _ => false
  end.
(* gcc gives an enum the type unsigned int, or int when a constant is negative; ctypes mirrors write c_int or c_uint.
   Both read the same 4 bytes; all REBOUND constants are < 2^31, so the two readings agree on every enumerator. *)
Definition kind_match (c p : kind) : bool :=
  match c, p with
  | KEnum, KSigned | KEnum, KUnsigned => true
  | _, _ => kind_eqb c p
  end.

(* x86-64 SysV (LP64): size = alignment for every scalar. *)
Definition c_prim_info (n : string) : option (kind * Z) :=
  assoc n [("char", (KChar, 1)); ("signed char", (KSigned, 1)); ("unsigned char", (KUnsigned, 1)); ("_Bool", (KBool, 1));
           ("short", (KSigned, 2)); ("unsigned short", (KUnsigned, 2));
           ("int", (KSigned, 4)); ("unsigned int", (KUnsigned, 4));
           ("long", (KSigned, 8)); ("unsigned long", (KUnsigned, 8));
           ("long long", (KSigned, 8)); ("unsigned long long", (KUnsigned, 8));
           ("float", (KFloat, 4)); ("double", (KFloat, 8)); ("long double", (KFloat, 16))].

(* ctypes on the same platform *)
Definition py_prim_info (n : string) : option (kind * Z) :=
  assoc n [("c_char", (KChar, 1)); ("c_byte", (KSigned, 1)); ("c_ubyte", (KUnsigned, 1)); ("c_bool", (KBool, 1));
           ("c_int8", (KSigned, 1)); ("c_uint8", (KUnsigned, 1));
           ("c_short", (KSigned, 2)); ("c_ushort", (KUnsigned, 2)); ("c_int16", (KSigned, 2)); ("c_uint16", (KUnsigned, 2));
           ("c_int", (KSigned, 4)); ("c_uint", (KUnsigned, 4)); ("c_int32", (KSigned, 4)); ("c_uint32", (KUnsigned, 4));
           ("c_long", (KSigned, 8)); ("c_ulong", (KUnsigned, 8)); ("c_longlong", (KSigned, 8)); ("c_ulonglong", (KUnsigned, 8));
           ("c_int64", (KSigned, 8)); ("c_uint64", (KUnsigned, 8)); ("c_size_t", (KUnsigned, 8)); ("c_ssize_t", (KSigned, 8));
           ("c_float", (KFloat, 4)); ("c_double", (KFloat, 8)); ("c_longdouble", (KFloat, 16));
           ("c_void_p", (KPtr, 8)); ("c_char_p", (KPtr, 8))].

(* ------------------------------------------------------------------ placement (shared by both sides) *)
Definition align_up (x a : Z) : Z := ((x + a - 1) / a) * a.

(* sas: (size, alignment) of each member in order.  Returns the offsets and the end of the last member. *)
Fixpoint place (off : Z) (sas : list (Z * Z)) : list Z * Z :=
  match sas with
  | [] => ([], off)
  | (s, a) :: r => let o := align_up off a in let '(os, e) := place (o + s) r in (o :: os, e)
  end.
Definition max_align (sas : list (Z * Z)) : Z := fold_right (fun sa m => Z.max (snd sa) m) 1 sas.
Definition max_size (sas : list (Z * Z)) : Z := fold_right (fun sa m => Z.max (fst sa) m) 0 sas.
Definition struct_size (sas : list (Z * Z)) : Z := align_up (snd (place 0 sas)) (max_align sas).
Definition union_size (sas : list (Z * Z)) : Z := align_up (max_size sas) (max_align sas).

Record rlayout := { rl_name : string; rl_members : list (string * Z * Z) (* name, offset, size *); rl_size : Z; rl_align : Z }.
Definition senv := list (string * (Z * Z)).      (* record name -> (size, alignment) *)

Fixpoint all_some {A} (l : list (option A)) : option (list A) :=
  match l with
  | [] => Some []
  | Some x :: r => match all_some r with Some r' => Some (x :: r') | None => None end
  | None :: _ => None
  end.

Definition layout_record (name : string) (is_union : bool) (names : list string) (sas : list (Z * Z)) : rlayout :=
  let offs := if is_union then map (fun _ => 0) sas else fst (place 0 sas) in
  {| rl_name := name;
     rl_members := combine (combine names offs) (map fst sas);
     rl_size := if is_union then union_size sas else struct_size sas;
     rl_align := max_align sas |}.

(* ------------------------------------------------------------------ C side *)
Fixpoint c_sa (env : senv) (t : ctype) : option (Z * Z) :=
  match t with
  | CVoid => None
  | CFun _ _ _ => None
  | CPrim n => match c_prim_info n with Some (_, s) => Some (s, s) | None => None end
  | CEnum _ => Some (4, 4)
  | CPtr _ => Some (8, 8)
  | CArr n t' => match c_sa env t' with Some (s, a) => if 0 <=? n then Some (n * s, a) else None | None => None end
  | CStruct nm => assoc nm env
  | CVec b _ => if 0 <? b then Some (b, b) else None
  end.

Definition c_member_sa (env : senv) (m : cmember) : option (Z * Z) :=
  match c_sa env (cm_type m) with
  | Some (s, a) => Some (s, Z.max a (cm_aligned m))
  | None => None
  end.

Definition c_layout1 (env : senv) (s : cstruct) : option rlayout :=
  match all_some (map (c_member_sa env) (cs_members s)) with
  | Some sas => Some (layout_record (cs_name s) (cs_union s) (map cm_name (cs_members s)) sas)
  | None => None
  end.

(* records are listed so that a record embedded by value precedes its user (C requires complete types) *)
Fixpoint c_layouts_from (env : senv) (ss : list cstruct) : option (list rlayout) :=
  match ss with
  | [] => Some []
  | s :: r => match c_layout1 env s with
              | Some l => match c_layouts_from ((cs_name s, (rl_size l, rl_align l)) :: env) r with
                          | Some ls => Some (l :: ls) | None => None end
              | None => None
              end
  end.
Definition c_layouts (ss : list cstruct) : option (list rlayout) := c_layouts_from [] ss.

(* ------------------------------------------------------------------ ctypes side *)
Fixpoint py_sa (env : senv) (t : pytype) : option (Z * Z) :=
  match t with
  | PNone => None
  | PPrim n => match py_prim_info n with Some (_, s) => Some (s, s) | None => None end
  | PPtr _ => Some (8, 8)
  | PFun _ _ => Some (8, 8)
  | PArr n t' => match py_sa env t' with Some (s, a) => if 0 <=? n then Some (n * s, a) else None | None => None end
  | PStruct c => assoc c env
  end.

Definition py_layout1 (env : senv) (c : pyclass) : option rlayout :=
  match all_some (map (fun f => py_sa env (snd f)) (pc_fields c)) with
  | Some sas => Some (layout_record (pc_name c) false (map fst (pc_fields c)) sas)
  | None => None
  end.

Fixpoint py_layouts_from (env : senv) (cs : list pyclass) : option (list rlayout) :=
  match cs with
  | [] => Some []
  | c :: r => match py_layout1 env c with
              | Some l => match py_layouts_from ((pc_name c, (rl_size l, rl_align l)) :: env) r with
                          | Some ls => Some (l :: ls) | None => None end
              | None => None
              end
  end.
Definition py_layouts (cs : list pyclass) : option (list rlayout) := py_layouts_from [] cs.

(* lines  (record, member, offset, size)  for the correspondence with gcc / ctypes *)
Definition layout_lines (ls : list rlayout) : list (string * string * Z * Z) :=
  flat_map (fun l => map (fun m => (rl_name l, fst (fst m), snd (fst m), snd m)) (rl_members l)
                     ++ [(rl_name l, "<sizeof>", rl_size l, rl_align l)]) ls.

(* ------------------------------------------------------------------ type correspondence *)
Definition c_kind (t : ctype) : kind :=
  match t with
  | CVoid => KNone
  | CPrim n => match c_prim_info n with Some (k, _) => k | None => KNone end
  | CEnum _ => KEnum
  | CPtr (CFun _ _ _) => KFunPtr
  | CPtr _ => KPtr
  | CFun _ _ _ => KNone
  | CArr _ _ => KArr
  | CStruct _ => KStruct
  | CVec _ _ => KVec
  end.
Definition py_kind (t : pytype) : kind :=
  match t with
  | PNone => KNone
  | PPrim n => match py_prim_info n with Some (k, _) => k | None => KNone end
  | PPtr _ => KPtr
  | PFun _ _ => KFunPtr
  | PArr _ _ => KArr
  | PStruct _ => KStruct
  end.

Section Compat.
  Variable class_map : list (string * string).     (* python class -> C record *)
  Definition class_is (cls cname : string) : bool :=
    match assoc cls class_map with Some n => String.eqb n cname | None => false end.

  (* full structural agreement of a C type and a ctypes type *)
  Fixpoint compat (c : ctype) (p : pytype) {struct c} : bool :=
    match c, p with
    | CVoid, PNone => true
    | CPrim n, PPrim m =>
        match c_prim_info n, py_prim_info m with
        | Some (k1, s1), Some (k2, s2) => kind_eqb k1 k2 && (s1 =? s2)
        | _, _ => false
        end
    | CEnum _, PPrim m =>
        match py_prim_info m with Some (k, s) => (kind_eqb k KSigned || kind_eqb k KUnsigned) && (s =? 4) | None => false end
    | CPtr (CFun r args v), PFun pr pargs =>
        negb v && compat r pr &&
        (fix go (l1 : list ctype) (l2 : list pytype) {struct l1} : bool :=
           match l1, l2 with
           | [], [] => true
           | a :: l1', b :: l2' => compat a b && go l1' l2'
           | _, _ => false
           end) args pargs
    | CPtr (CFun _ _ _), _ => false
    | CPtr t, PPrim m =>
        String.eqb m "c_void_p" ||
        (String.eqb m "c_char_p" && match t with CPrim "char" => true | _ => false end)
    | CPtr t, PPtr q => compat t q
    | CArr n t, PArr m q => (n =? m) && compat t q
    | CStruct nm, PStruct cls => class_is cls nm
    | _, _ => false
    end.
End Compat.

(* ------------------------------------------------------------------ mirror comparison *)
Record tables := {
  t_class_map : list (string * string);                      (* python class -> C record *)
  t_alias : list (string * string * string);                 (* class, python field, C member *)
  t_split : list (string * string * list string);            (* class, python array field, C members it covers *)
  t_prefix_ok : list string;                                 (* classes that mirror only a prefix of the C record *)
  t_dict_rules : list (string * string * list (string * string)); (* dict, C prefix, explicit (key, C constant) exceptions *)
  t_keepalive : list (string * string);                      (* class, python-only attribute a setter may assign *)
  t_symbol_exceptions : list (string * string);              (* symbol, header: declared without DLLEXPORT outside rebound.h *)
  t_dead_modules : list string                               (* modules that no module of the package imports *)
}.

Definition dev := (string * string * string * string)%type.    (* class, python field, C member, code *)
Definition dev_eqb (a b : dev) : bool :=
  let '(a1, a2, a3, a4) := a in let '(b1, b2, b3, b4) := b in
  String.eqb a1 b1 && String.eqb a2 b2 && String.eqb a3 b3 && String.eqb a4 b4.

Definition alias_of (T : tables) (cls py : string) : option string :=
  match find (fun e => String.eqb (fst (fst e)) cls && String.eqb (snd (fst e)) py) (t_alias T) with
  | Some e => Some (snd e) | None => None end.
(* the C member a python field is meant to denote *)
Definition c_name_of (T : tables) (cls py : string) : string :=
  match alias_of T cls py with Some c => c | None => strip_underscores py end.

Definition split_of (T : tables) (cls py : string) : option (list string) :=
  match find (fun e => String.eqb (fst (fst e)) cls && String.eqb (snd (fst e)) py) (t_split T) with
  | Some e => Some (snd e) | None => None end.

(* python fields after splitting the declared array fields into the C members they cover:
   (python field, intended C member, type) *)
Definition expand_fields (T : tables) (cls : string) (fs : list (string * pytype)) : list (string * string * pytype) :=
  flat_map (fun f =>
    match split_of T cls (fst f), snd f with
    | Some cn, PArr n t => if Z.of_nat (length cn) =? n then map (fun c => (fst f, c, t)) cn
                          else [(fst f, c_name_of T cls (fst f), snd f)]
    | _, _ => [(fst f, c_name_of T cls (fst f), snd f)]
    end) fs.

Definition expanded_class (T : tables) (c : pyclass) : pyclass :=
  {| pc_name := pc_name c; pc_module := pc_module c;
     pc_fields := map (fun e => (fst (fst e), snd e)) (expand_fields T (pc_name c) (pc_fields c)) |}.

(* compare member lists position by position *)
Fixpoint cmp_members (T : tables) (cls : string)
         (pm : list ((string * string * pytype) * (string * Z * Z)))      (* (py, intended C name, type), layout *)
         (cm : list (cmember * (string * Z * Z))) : list dev :=
  match pm, cm with
  | [], [] => []
  | [], (m, _) :: _ => if str_in cls (t_prefix_ok T) then [] else [(cls, "", cm_name m, "missing-in-python")]
  | ((py, _, _), _) :: _, [] => [(cls, py, "", "missing-in-c")]
  | ((py, want, pt), (_, poff, psz)) :: pr, (m, (_, coff, csz)) :: cr =>
      (if String.eqb want (cm_name m) then [] else [(cls, py, cm_name m, "name")]) ++
      (if poff =? coff then [] else [(cls, py, cm_name m, "offset")]) ++
      (if psz =? csz then [] else [(cls, py, cm_name m, "size")]) ++
      (if kind_match (c_kind (cm_type m)) (py_kind pt) then
         (if compat (t_class_map T) (cm_type m) pt then [] else [(cls, py, cm_name m, "target")])
       else [(cls, py, cm_name m, "kind")]) ++
      cmp_members T cls pr cr
  end.

Definition find_layout (n : string) (ls : list rlayout) : option rlayout :=
  find (fun l => String.eqb (rl_name l) n) ls.
Definition find_struct (n : string) (ss : list cstruct) : option cstruct :=
  find (fun s => String.eqb (cs_name s) n) ss.

Definition cmp_class (T : tables) (ss : list cstruct) (cl pl : list rlayout) (c : pyclass) : list dev :=
  let cls := pc_name c in
  match assoc cls (t_class_map T) with
  | None => [(cls, "", "", "class-not-mapped")]
  | Some sn =>
      match find_struct sn ss, find_layout sn cl, find_layout cls pl with
      | Some s, Some lc, Some lp =>
          cmp_members T cls (combine (expand_fields T cls (pc_fields c)) (rl_members lp))
                            (combine (cs_members s) (rl_members lc)) ++
          (if str_in cls (t_prefix_ok T) then []
           else if (rl_size lp =? rl_size lc) && (rl_align lp =? rl_align lc) then [] else [(cls, "", sn, "total-size")])
      | _, _, _ => [(cls, "", sn, "no-layout")]
      end
  end.

(* all deviations of the python mirror from the C header; None if a layout cannot be computed *)
Definition mirror_deviations (T : tables) (ss : list cstruct) (cs : list pyclass) : option (list dev) :=
  match c_layouts ss, py_layouts (map (expanded_class T) cs) with
  | Some cl, Some pl => Some (flat_map (cmp_class T ss cl pl) cs)
  | _, _ => None
  end.

Definition devs_within (ds known : list dev) : bool := forallb (fun d => existsb (dev_eqb d) known) ds.

(* name pairs for the searcher: class, C record, python field, intended C member *)
Definition name_pairs (T : tables) (cs : list pyclass) : list (string * string * string * string) :=
  flat_map (fun c => match assoc (pc_name c) (t_class_map T) with
                     | Some sn => map (fun e => (pc_name c, sn, fst (fst e), snd (fst e))) (expand_fields T (pc_name c) (pc_fields c))
                     | None => [] end) cs.

(* ------------------------------------------------------------------ options *)
Definition all_consts (es : list cenum) : list (string * Z) := flat_map ce_consts es.

Definition rule_of (T : tables) (d : string) : option (string * list (string * string)) :=
  match find (fun e => String.eqb (fst (fst e)) d) (t_dict_rules T) with
  | Some e => Some (snd (fst e), snd e) | None => None end.

(* the C constant an option name denotes: explicit exception, else PREFIX ++ upper(name) *)
Definition c_const_of (rule : string * list (string * string)) (key : string) : string :=
  match assoc key (snd rule) with Some c => c | None => String.append (fst rule) (upper key) end.

Definition odev := (string * string * string)%type.   (* dict, key, code *)
Definition option_deviations (T : tables) (es : list cenum) (ds : list pydict) : list odev :=
  flat_map (fun d =>
    match rule_of T (pd_name d) with
    | None => [(pd_name d, "", "no-naming-rule")]
    | Some rule =>
        flat_map (fun kv => match assoc (c_const_of rule (fst kv)) (all_consts es) with
                            | Some v => if v =? snd kv then [] else [(pd_name d, fst kv, "value")]
                            | None => [(pd_name d, fst kv, "no-such-constant")]
                            end) (pd_items d) ++
        (if nodup_z (map snd (pd_items d)) then [] else [(pd_name d, "", "duplicate-value")]) ++
        (if nodup_s (map fst (pd_items d)) then [] else [(pd_name d, "", "duplicate-key")])
    end) ds.

Definition option_pairs (T : tables) (ds : list pydict) : list (string * string * string * Z) :=
  flat_map (fun d => match rule_of T (pd_name d) with
                     | Some rule => map (fun kv => (pd_name d, fst kv, c_const_of rule (fst kv), snd kv)) (pd_items d)
                     | None => [] end) ds.

(* BINARY_WARNINGS: every (major, id) is a constant of reb_simulation_binary_error_codes whose name says ERROR iff major *)
Fixpoint contains (sub s : string) : bool :=
  has_prefix sub s || match s with EmptyString => false | String _ r => contains sub r end.
Definition binary_warnings_ok (es : list cenum) (bw : list (bool * Z)) : bool :=
  match find (fun e => String.eqb (ce_name e) "reb_simulation_binary_error_codes") es with
  | None => false
  | Some e => forallb (fun w => existsb (fun c => (snd c =? snd w) && Bool.eqb (contains "_ERROR_" (fst c)) (fst w)) (ce_consts e)) bw
              && nodup_z (map snd bw)
  end.

(* ------------------------------------------------------------------ properties vs fields *)
Definition fields_of_class (cs : list pyclass) (cls : string) : list string :=
  match find (fun c => String.eqb (pc_name c) cls) cs with Some c => map fst (pc_fields c) | None => [] end.

Definition shadowing (cs : list pyclass) (ps : list pyprops) : list (string * string) :=
  flat_map (fun p => flat_map (fun pr => if str_in (fst (fst pr)) (fields_of_class cs (pp_class p))
                                         then [(pp_class p, fst (fst pr))] else []) (pp_props p)) ps.

(* an attribute assigned by a setter must be a field, another property, or a declared python-only keep-alive slot *)
Definition bad_setter_targets (T : tables) (cs : list pyclass) (ps : list pyprops) : list (string * string * string) :=
  flat_map (fun p =>
    let fs := fields_of_class cs (pp_class p) in
    let pn := map (fun pr => fst (fst pr)) (pp_props p) in
    flat_map (fun pr => flat_map (fun a =>
        if str_in a fs || str_in a pn ||
           existsb (fun k => String.eqb (fst k) (pp_class p) && String.eqb (snd k) a) (t_keepalive T)
        then [] else [(pp_class p, fst (fst pr), a)]) (snd pr)) (pp_props p)) ps.

(* every class with properties/fields is a known class (the two generated lists talk about the same classes) *)
Definition props_classes_known (cs : list pyclass) (ps : list pyprops) : bool :=
  forallb (fun p => existsb (fun c => String.eqb (pc_name c) (pp_class p)) cs) ps.

(* ------------------------------------------------------------------ symbols *)
Definition decl_ok (T : tables) (ds : list cdecl) (sym : string) : bool :=
  existsb (fun d => String.eqb (cd_name d) sym &&
                    ((String.eqb (cd_header d) "rebound.h" && cd_dllexport d) ||
                     existsb (fun e => String.eqb (fst e) sym && String.eqb (snd e) (cd_header d)) (t_symbol_exceptions T))) ds.

Definition missing_symbols (T : tables) (ds : list cdecl) (syms : list (string * string)) : list (string * string) :=
  filter (fun ms => negb (str_in (fst ms) (t_dead_modules T)) && negb (decl_ok T ds (snd ms))) syms.

(* dynamic lookups getattr(clibrebound, prefix + ...): at least one exported function with that prefix must exist *)
Definition prefixes_ok (ds : list cdecl) (ps : list (string * string)) : bool :=
  forallb (fun p => existsb (fun d => has_prefix (snd p) (cd_name d) && cd_dllexport d && String.eqb (cd_header d) "rebound.h") ds) ps.

Definition dead_modules_ok (T : tables) (imported : list string) : bool :=
  forallb (fun m => negb (str_in m imported)) (t_dead_modules T).

(* ------------------------------------------------------------------ setter and getter of a property name the same member
   F := the fields of the class among the attribute names the getter reads; when the getter reads no field (write-only
   properties whose getter raises) F := ["_" ++ property].  Every FIELD the setter assigns must be in F (non-field
   targets are python-only slots or other properties, constrained by bad_setter_targets). *)
Definition getter_reads (reads : list (string * string * list string)) (cls prop : string) : list string :=
  match find (fun e => String.eqb (fst (fst e)) cls && String.eqb (snd (fst e)) prop) reads with
  | Some e => snd e | None => [] end.

Definition backing_fields (fs reads : list string) (prop : string) : list string :=
  match filter (fun a => str_in a fs) reads with
  | [] => [String "_" prop]
  | l => l
  end.

Definition setter_getter_mismatch (cs : list pyclass) (ps : list pyprops)
           (reads : list (string * string * list string)) : list (string * string * string) :=
  flat_map (fun p =>
    let fs := fields_of_class cs (pp_class p) in
    flat_map (fun pr =>
      let prop := fst (fst pr) in
      let F := backing_fields fs (getter_reads reads (pp_class p) prop) prop in
      flat_map (fun a => if str_in a fs && negb (str_in a F) then [(pp_class p, prop, a)] else []) (snd pr))
      (pp_props p)) ps.

(* accessors that search a C array: (1) no return/break/continue sits in a `for` body without an `if` between the `for` and
   it (otherwise only the first element is ever inspected); (2) when both the getter and the setter of a property search,
   they test the same condition, so they locate the same element. *)
Definition unguarded_loop_exits (l : list (string * string * string * string * bool))
  : list (string * string * string * string * bool) :=
  filter (fun e => negb (snd e)) l.
Definition search_mismatch (l : list (string * string * bool * bool * bool)) : list (string * string) :=
  flat_map (fun e => let '(c, p, g, s, same) := e in if g && s && negb same then [(c, p)] else []) l.

(* ------------------------------------------------------------------ callbacks
   For every property whose setter stores into a function-pointer FIELD f (C member m = c_name_of f):
   (1) every CFUNCTYPE alias the setter wraps its argument with / casts to has the signature of the C member's prototype
       (return type, argument count, argument types; struct arguments by the class map);
   (2) every exported C function the setter references is either of exactly the member's function type (a built-in callback
       stored by name) or takes a parameter of the member's type (the C-side setter function). *)
Fixpoint ctype_eqb (a b : ctype) {struct a} : bool :=
  match a, b with
  | CVoid, CVoid => true
  | CPrim n, CPrim m => String.eqb n m
  | CEnum n, CEnum m => String.eqb n m
  | CPtr x, CPtr y => ctype_eqb x y
  | CFun r1 a1 v1, CFun r2 a2 v2 =>
      ctype_eqb r1 r2 && Bool.eqb v1 v2 &&
      (fix go (l1 l2 : list ctype) {struct l1} : bool :=
         match l1, l2 with
         | [], [] => true
         | x :: l1', y :: l2' => ctype_eqb x y && go l1' l2'
         | _, _ => false
         end) a1 a2
  | CArr n x, CArr m y => (n =? m) && ctype_eqb x y
  | CStruct n, CStruct m => String.eqb n m
  | CVec n x, CVec m y => (n =? m) && ctype_eqb x y
  | _, _ => false
  end.

Definition c_member_type (T : tables) (ss : list cstruct) (cls pyfield : string) : option ctype :=
  match assoc cls (t_class_map T) with
  | Some sn => match find_struct sn ss with
               | Some s => match find (fun m => String.eqb (cm_name m) (c_name_of T cls pyfield)) (cs_members s) with
                           | Some m => Some (cm_type m) | None => None end
               | None => None end
  | None => None
  end.

Definition py_field_type (cs : list pyclass) (cls f : string) : option pytype :=
  match find (fun c => String.eqb (pc_name c) cls) cs with
  | Some c => assoc f (pc_fields c) | None => None end.

Definition setter_cb (l : list (string * string * list string * list string)) (cls prop : string) : list string * list string :=
  match find (fun e => let '(c, p, _, _) := e in String.eqb c cls && String.eqb p prop) l with
  | Some (_, _, w, s) => (w, s) | None => ([], []) end.

Definition callback_mismatch (T : tables) (ss : list cstruct) (cs : list pyclass) (ps : list pyprops)
           (functypes : list (string * string * pytype)) (scb : list (string * string * list string * list string))
           (cfuns : list (string * ctype)) : list (string * string * string * string) :=
  flat_map (fun p =>
    let cls := pp_class p in
    flat_map (fun pr =>
      let prop := fst (fst pr) in
      let '(wr, sy) := setter_cb scb cls prop in
      flat_map (fun f =>
        match py_field_type cs cls f with
        | Some (PFun _ _) =>
            match c_member_type T ss cls f with
            | Some ct =>
                flat_map (fun a => match find (fun e => String.eqb (fst (fst e)) a) functypes with
                                   | Some e => if compat (t_class_map T) ct (snd e) then [] else [(cls, prop, a, "alias-signature")]
                                   | None => [(cls, prop, a, "alias-unknown")] end) wr ++
                flat_map (fun s => match assoc s cfuns with
                                   | Some (CFun r args v) =>
                                       if ctype_eqb (CPtr (CFun r args v)) ct || existsb (ctype_eqb ct) args then []
                                       else [(cls, prop, s, "symbol-prototype")]
                                   | _ => [(cls, prop, s, "symbol-not-exported-function")] end) sy
            | None => [(cls, prop, f, "no-c-member")]
            end
        | _ => []
        end) (snd pr)) (pp_props p)) ps.

(* the python-settable callbacks: (class, property, field) for the searcher *)
Definition callback_props (cs : list pyclass) (ps : list pyprops) : list (string * string * string) :=
  flat_map (fun p => flat_map (fun pr => flat_map (fun f =>
     match py_field_type cs (pp_class p) f with Some (PFun _ _) => [(pp_class p, fst (fst pr), f)] | _ => [] end) (snd pr))
     (pp_props p)) ps.

(* ------------------------------------------------------------------ documented options (docs/*.md, Gen/DocOptions.v)
   model of the normalisation the setters apply to a name before the dictionary lookup:
   0 none (TRACE peri_mode) | 1 lower() | 2 lower()+remove " " | 3 lower()+remove " ", "(", ")"   *)
Definition lower_ascii (c : ascii) : ascii :=
  let n := N_of_ascii c in if (N.leb 65 n && N.leb n 90)%bool then ascii_of_N (n + 32) else c.
Fixpoint lower (s : string) : string :=
  match s with EmptyString => EmptyString | String c r => String (lower_ascii c) (lower r) end.
Fixpoint strip_chars (cs : list ascii) (s : string) : string :=
  match s with
  | EmptyString => EmptyString
  | String c r => if existsb (Ascii.eqb c) cs then strip_chars cs r else String c (strip_chars cs r)
  end.
Definition normalise (mode : Z) (s : string) : string :=
  if mode =? 0 then s else if mode =? 1 then lower s
  else if mode =? 2 then strip_chars [" "%char] (lower s)
  else strip_chars [" "%char; "("%char; ")"%char] (lower s).
Fixpoint drop (n : nat) (s : string) : string :=
  match n, s with O, _ => s | S n', String _ r => drop n' r | _, EmptyString => EmptyString end.

(* path in the docs -> (python class, property, option dictionary or "" for a named-callback property, normalisation) *)
Definition docrule := (string * string * string * string * Z)%type.
Definition doc_rule_of (rules : list docrule) (path : string) : option docrule :=
  find (fun r => let '(p, _, _, _, _) := r in String.eqb p path) rules.

Definition dict_items (ds : list pydict) (d : string) : list (string * Z) :=
  match find (fun x => String.eqb (pd_name x) d) ds with Some x => pd_items x | None => [] end.

(* value a documented python string selects: Some v, following the setter (incl. the "sabaXYZ" shortcut of `integrator`) *)
Definition doc_value (ds : list pydict) (dict : string) (mode : Z) (s : string) : option Z :=
  let k := normalise mode s in
  match assoc k (dict_items ds dict) with
  | Some v => Some v
  | None =>
      if String.eqb dict "INTEGRATORS" && has_prefix "saba" k && Nat.ltb 4 (String.length k) then
        match assoc (normalise 3 (drop 4 k)) (dict_items ds "SABA_TYPES") with
        | Some _ => assoc "saba" (dict_items ds "INTEGRATORS") | None => None end
      else None
  end.

Definition ddev := (string * string * string * string)%type.     (* file, path, item, code *)
Definition ddev_eqb (a b : ddev) : bool :=
  let '(a1, a2, a3, a4) := a in let '(b1, b2, b3, b4) := b in
  String.eqb a1 b1 && String.eqb a2 b2 && String.eqb a3 b3 && String.eqb a4 b4.

Definition doc_deviations (T : tables) (rules : list docrule) (es : list cenum) (cds : list cdecl) (ds : list pydict)
           (named : list (string * string * string * list string))
           (dpy dc dcb : list (string * string * string)) (dpairs : list (string * string * string * string))
           (toks : list (string * string)) : list ddev :=
  let consts := all_consts es in
  let named_syms (cls prop nm : string) : option (list string) :=
    match find (fun e => let '(c, p, n, _) := e in String.eqb c cls && String.eqb p prop && String.eqb n nm) named with
    | Some (_, _, _, sy) => Some sy | None => None end in
  flat_map (fun e => let '(f, path, s) := e in
    match doc_rule_of rules path with
    | None => [(f, path, s, "unknown-option-path")]
    | Some (_, cls, prop, dict, mode) =>
        if String.eqb dict "" then
          match named_syms cls prop s with Some _ => [] | None => [(f, path, s, "no-such-named-callback")] end
        else match doc_value ds dict mode s with Some _ => [] | None => [(f, path, s, "not-in-python-dictionary")] end
    end) dpy ++
  flat_map (fun e => let '(f, path, c) := e in
    match doc_rule_of rules path with
    | None => [(f, path, c, "unknown-option-path")]
    | Some (_, _, _, dict, _) =>
        match rule_of T dict, assoc c consts with
        | Some rule, Some _ => if has_prefix (fst rule) c then [] else [(f, path, c, "constant-of-another-enum")]
        | _, _ => [(f, path, c, "no-such-c-constant")]
        end
    end) dc ++
  flat_map (fun e => let '(f, path, sym) := e in
    match doc_rule_of rules path with
    | None => [(f, path, sym, "unknown-option-path")]
    | Some (_, _, _, dict, _) =>
        if String.eqb dict "" then (if decl_ok T cds sym then [] else [(f, path, sym, "no-such-exported-function")])
        else [(f, path, sym, "not-a-c-constant")]
    end) dcb ++
  flat_map (fun e => let '(f, path, c, s) := e in
    match doc_rule_of rules path with
    | None => []
    | Some (_, cls, prop, dict, mode) =>
        if String.eqb dict "" then
          match named_syms cls prop s with
          | Some sy => if str_in c sy then [] else [(f, path, s, "pair-names-different-function")]
          | None => [] end
        else match doc_value ds dict mode s, assoc c consts with
             | Some v, Some w => if v =? w then [] else [(f, path, s, "pair-values-differ")]
             | _, _ => [] end              (* missing sides are reported above *)
    end) dpairs ++
  flat_map (fun e => let '(f, t) := e in
    if existsb (fun r => has_prefix (snd (fst r)) t) (t_dict_rules T) && negb (match assoc t consts with Some _ => true | None => false end)
    then [(f, "", t, "no-such-c-constant")] else []) toks.

Definition ddevs_within (ds known : list ddev) : bool := forallb (fun d => existsb (ddev_eqb d) known) ds.

(* built-in callbacks selected by name: the function stored for "name" is PREFIX ++ name (e.g. "merge" ->
   reb_collision_resolve_merge), so that the name means what it says *)
Definition named_callback_mismatch (prefixes : list (string * string * string))
           (named : list (string * string * string * list string)) : list (string * string * string) :=
  flat_map (fun e => let '(cls, prop, nm, syms) := e in
    match find (fun r => let '(c, p, _) := r in String.eqb c cls && String.eqb p prop) prefixes with
    | Some (_, _, pre) => if str_in (String.append pre nm) syms then [] else [(cls, prop, nm)]
    | None => [(cls, prop, nm)]
    end) named.

(* ------------------------------------------------------------------ well-formedness of a computed layout (executable) *)
Fixpoint nonoverlap_b (lo : Z) (ms : list (string * Z * Z)) (hi : Z) : bool :=
  match ms with
  | [] => lo <=? hi
  | (_, o, s) :: r => (lo <=? o) && (0 <=? s) && nonoverlap_b (o + s) r hi
  end.
Definition rl_wellformed (is_union : bool) (l : rlayout) : bool :=
  (0 <=? rl_size l) && (0 <? rl_align l) && (rl_size l mod rl_align l =? 0) &&
  (if is_union then forallb (fun m => (snd (fst m) =? 0) && (0 <=? snd m) && (snd m <=? rl_size l)) (rl_members l)
   else nonoverlap_b 0 (rl_members l) (rl_size l)).
Definition all_wellformed (unions : list bool) (ls : option (list rlayout)) : bool :=
  match ls with
  | Some l => (Nat.eqb (length l) (length unions)) && forallb (fun p => rl_wellformed (fst p) (snd p)) (combine unions l)
  | None => false
  end.
