(* binary64 instance of Num (primitive floats, round-to-nearest-even), evaluated by
   vm_compute in the correspondence checks.  Imports PrimFloat/Uint63 only (not Floats). *)
From Coq Require Import ZArith List PrimFloat Uint63 FloatClass.
From RV Require Import Common.Num.
Import ListNotations.

Definition f_ofZ (z : Z) : float :=
  match z with
  | Z0 => PrimFloat.zero
  | Zpos _ => PrimFloat.of_uint63 (Uint63.of_Z z)
  | Zneg p => PrimFloat.opp (PrimFloat.of_uint63 (Uint63.of_Z (Zpos p)))
  end.

Definition FNum : Num float := {|
  nzero := PrimFloat.zero;
  none  := PrimFloat.one;
  nadd  := PrimFloat.add;
  nsub  := PrimFloat.sub;
  nmul  := PrimFloat.mul;
  ndiv  := PrimFloat.div;
  nneg  := PrimFloat.opp;
  nsqrt := PrimFloat.sqrt;
  nabs  := PrimFloat.abs;
  nltb  := PrimFloat.ltb;
  nleb  := PrimFloat.leb;
  neqb  := PrimFloat.eqb;
  nofZ  := f_ofZ;
  nisnan := PrimFloat.is_nan
|}.

(* bit-level equality of two doubles (all NaNs identified: C and Coq may differ in
   NaN payload/sign, which no property speaks about) *)
Definition class_eqb (a b : float_class) : bool :=
  match a, b with
  | PNormal, PNormal | NNormal, NNormal | PSubn, PSubn | NSubn, NSubn
  | PZero, PZero | NZero, NZero | PInf, PInf | NInf, NInf | NaN, NaN => true
  | _, _ => false
  end.

Definition same (a b : float) : bool :=
  if PrimFloat.is_nan a then PrimFloat.is_nan b
  else andb (PrimFloat.eqb a b) (class_eqb (PrimFloat.classify a) (PrimFloat.classify b)).

Fixpoint same_list (a b : list float) : bool :=
  match a, b with
  | [], [] => true
  | x :: r, y :: s => andb (same x y) (same_list r s)
  | _, _ => false
  end.

(* indices (from 0) of the cases whose model value differs from the expected value *)
Fixpoint bad_cases_from (n : nat) (l : list (list float * list float)) : list nat :=
  match l with
  | [] => []
  | (a, b) :: r => if same_list a b then bad_cases_from (S n) r else n :: bad_cases_from (S n) r
  end.
Definition bad_cases l := bad_cases_from 0 l.
