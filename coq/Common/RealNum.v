(* Coq-reals instance of Num: the arithmetic the theorems are about. *)
From Coq Require Import ZArith Reals.
From RV Require Import Common.Num.
Open Scope R_scope.

Definition Rltb (a b : R) : bool := if Rlt_dec a b then true else false.
Definition Rleb (a b : R) : bool := if Rle_dec a b then true else false.
Definition Reqb (a b : R) : bool := if Req_EM_T a b then true else false.

Definition RNum : Num R := {|
  nzero := 0;
  none  := 1;
  nadd  := Rplus;
  nsub  := Rminus;
  nmul  := Rmult;
  ndiv  := Rdiv;
  nneg  := Ropp;
  nsqrt := sqrt;
  nabs  := Rabs;
  nltb  := Rltb;
  nleb  := Rleb;
  neqb  := Reqb;
  nofZ  := IZR;
  nisnan := fun _ => false
|}.
