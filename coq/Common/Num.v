(* Num: the arithmetic signature every numerical model is written against.
   One Gallina term, several arithmetics: see FloatNum (binary64, used by the
   correspondence check against the compiled C code) and RealNum (Coq reals,
   used by the theorems). Definitions only. *)
From Coq Require Import ZArith List.
Import ListNotations.

Record Num (T : Type) : Type := mkNum {
  nzero : T;
  none  : T;
  nadd  : T -> T -> T;
  nsub  : T -> T -> T;
  nmul  : T -> T -> T;
  ndiv  : T -> T -> T;
  nneg  : T -> T;
  nsqrt : T -> T;
  nabs  : T -> T;
  nltb  : T -> T -> bool;
  nleb  : T -> T -> bool;
  neqb  : T -> T -> bool;
  nofZ  : Z -> T;
  nisnan : T -> bool
}.

Arguments nzero {T} _.
Arguments none {T} _.
Arguments nadd {T} _ _ _.
Arguments nsub {T} _ _ _.
Arguments nmul {T} _ _ _.
Arguments ndiv {T} _ _ _.
Arguments nneg {T} _ _.
Arguments nsqrt {T} _ _.
Arguments nabs {T} _ _.
Arguments nltb {T} _ _ _.
Arguments nleb {T} _ _ _.
Arguments neqb {T} _ _ _.
Arguments nofZ {T} _ _.
Arguments nisnan {T} _ _.

(* A decimal literal p/10^k of the C source, e.g. 0.01 = dec 1 100.  In binary64 a
   correctly rounded division of two exactly representable integers yields the double
   nearest to the rational, i.e. the value the C compiler gives the literal. *)
Definition ndec {T} (N : Num T) (p q : Z) : T := ndiv N (nofZ N p) (nofZ N q).

(* generic list helpers used by several models *)
Fixpoint sumf {T} (N : Num T) (l : list T) (acc : T) : T :=
  match l with
  | [] => acc
  | x :: r => sumf N r (nadd N acc x)
  end.

Fixpoint nth_d {A} (d : A) (l : list A) (n : nat) : A :=
  match l, n with
  | [], _ => d
  | x :: _, O => x
  | _ :: r, S k => nth_d d r k
  end.

Fixpoint upd {A} (l : list A) (n : nat) (v : A) : list A :=
  match l, n with
  | [], _ => []
  | _ :: r, O => v :: r
  | x :: r, S k => x :: upd r k v
  end.
