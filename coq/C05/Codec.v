(* C05 — byte-level codec: the reader's framing loop inverts the writer's framing, for every field list. *)
From Coq Require Import NArith List String Bool Arith Lia ZifyBool.
From RV Require Import C05.Types C05.Model.
Import ListNotations.
Open Scope N_scope.

Lemma le_enc_length : forall k v, List.length (le_enc k v) = k.
Proof. induction k; intros; cbn [le_enc List.length]; auto. Qed.

Lemma le_dec_enc : forall k v, v < 256 ^ N.of_nat k -> le_dec (le_enc k v) = v.
Proof.
  induction k; intros v H.
  - cbn in *. lia.
  - cbn [le_enc le_dec]. rewrite IHk.
    + pose proof (N.div_mod v 256). lia.
    + rewrite Nat2N.inj_succ, N.pow_succ_r' in H.
      apply N.div_lt_upper_bound; lia.
Qed.

Lemma le_enc_dec : forall l, Forall (fun b => b < 256) l -> le_enc (List.length l) (le_dec l) = l.
Proof.
  induction l; intros H; cbn [le_enc le_dec List.length]; auto.
  inversion H; subst.
  assert (E1 : (a + 256 * le_dec l) mod 256 = a).
  { replace (a + 256 * le_dec l) with (a + le_dec l * 256) by lia. rewrite N.mod_add by lia. apply N.mod_small; auto. }
  assert (E2 : (a + 256 * le_dec l) / 256 = le_dec l).
  { replace (a + 256 * le_dec l) with (a + le_dec l * 256) by lia. rewrite N.div_add by lia. rewrite (N.div_small a) by auto. lia. }
  rewrite E1, E2, IHl; auto.
Qed.

Definition field_ok (hdr_id end_id : N) (f : field) : Prop :=
  f_type f < 4294967296 /\ f_type f <> end_id /\ f_type f <> hdr_id /\ len (f_payload f) < 18446744073709551616.

Lemma firstn_app_exact : forall {A} (a b : list A) n, n = List.length a -> firstn n (a ++ b) = a.
Proof. intros; subst. rewrite firstn_app, Nat.sub_diag, firstn_all. cbn. apply app_nil_r. Qed.
Lemma skipn_app_exact : forall {A} (a b : list A) n, n = List.length a -> skipn n (a ++ b) = b.
Proof. intros; subst. rewrite skipn_app, Nat.sub_diag, skipn_all. reflexivity. Qed.

Lemma header_parse : forall ty sz rest, ty < 4294967296 -> sz < 18446744073709551616 ->
  let b := enc_header ty sz ++ rest in
  (List.length b <? 16)%nat = false /\ le_dec (firstn 4 b) = ty /\ le_dec (firstn 8 (skipn 8 b)) = sz /\ skipn 16 b = rest.
Proof.
  intros ty sz rest Ht Hs b. subst b. unfold enc_header.
  assert (L4 := le_enc_length 4 ty). assert (L8 := le_enc_length 8 sz).
  split; [|split; [|split]].
  - apply Nat.ltb_ge. rewrite !app_length, L4, L8. cbn. lia.
  - rewrite <- app_assoc. rewrite firstn_app_exact by auto. apply le_dec_enc. cbn. lia.
  - replace ((le_enc 4 ty ++ [0; 0; 0; 0] ++ le_enc 8 sz) ++ rest)
      with ((le_enc 4 ty ++ [0; 0; 0; 0]) ++ (le_enc 8 sz ++ rest)) by (rewrite <- !app_assoc; reflexivity).
    rewrite skipn_app_exact by (rewrite app_length, L4; reflexivity).
    rewrite firstn_app_exact by auto. apply le_dec_enc. cbn. lia.
  - replace ((le_enc 4 ty ++ [0; 0; 0; 0] ++ le_enc 8 sz) ++ rest)
      with ((le_enc 4 ty ++ [0; 0; 0; 0] ++ le_enc 8 sz) ++ rest) by reflexivity.
    apply skipn_app_exact. rewrite !app_length, L4, L8. reflexivity.
Qed.

Lemma dec_fields_enc : forall hdr_id end_id fs tail fuel,
  end_id < 4294967296 ->
  Forall (field_ok hdr_id end_id) fs ->
  (List.length fs < fuel)%nat ->
  dec_fields fuel hdr_id end_id (flat_map enc_field fs ++ enc_header end_id 0 ++ tail) = Some (fs, tail).
Proof.
  intros hdr_id end_id fs tail fuel He. revert fuel.
  induction fs as [|f fs IH]; intros fuel Hok Hfuel.
  - destruct fuel; [cbn in Hfuel; lia|]. cbn [flat_map app dec_fields].
    destruct (header_parse end_id 0 tail He ltac:(lia)) as (A & B & C & D).
    rewrite A, B, D, N.eqb_refl. reflexivity.
  - destruct fuel; [cbn in Hfuel; lia|].
    inversion Hok as [|? ? (Ht & Hne & Hnh & Hl) Hok']; subst.
    cbn [flat_map]. unfold enc_field at 1. rewrite <- !app_assoc.
    cbn [dec_fields].
    match goal with |- context [enc_header (f_type f) (len (f_payload f)) ++ ?r] =>
      destruct (header_parse (f_type f) (len (f_payload f)) r Ht Hl) as (A & B & C & D) end.
    rewrite A, B, C, D.
    destruct (f_type f =? end_id) eqn:E1; [apply N.eqb_eq in E1; contradiction|].
    destruct (f_type f =? hdr_id) eqn:E2; [apply N.eqb_eq in E2; contradiction|].
    unfold drop, take, len. rewrite Nat2N.id.
    rewrite skipn_app_exact by reflexivity. rewrite firstn_app_exact by reflexivity.
    assert (Hf : (List.length fs < fuel)%nat). { clear - Hfuel. cbn [List.length] in Hfuel. lia. }
    rewrite (IH fuel Hok' Hf).
    destruct f; reflexivity.
Qed.

(* length of the encoding bounds the number of fields (fuel = S (length stream) is always enough) *)
Lemma enc_fields_length : forall fs, (List.length fs <= List.length (flat_map enc_field fs))%nat.
Proof.
  induction fs; cbn [flat_map List.length]; auto.
  rewrite app_length. set (r := flat_map enc_field fs) in *. unfold enc_field, enc_header. rewrite !app_length, !le_enc_length. cbn [List.length]. lia.
Qed.

(* The reader's framing loop applied to a complete stream written by the writer: the 64-byte header is
   consumed as the pseudo-field "header", then exactly the written fields are returned, and the rest is the
   12-byte trailer. *)
Theorem decode_encode : forall hdr_id end_id trailer_size h60 fs,
  hdr_id < 4294967296 -> end_id < 4294967296 -> hdr_id <> end_id ->
  List.length h60 = 60%nat ->
  Forall (field_ok hdr_id end_id) fs ->
  decode hdr_id end_id (encode end_id trailer_size (le_enc 4 hdr_id ++ h60) fs)
  = Some (mkfield hdr_id (skipn 12 h60) :: fs, repeat 0 (N.to_nat trailer_size)).
Proof.
  intros hdr_id end_id ts h60 fs Hh He Hne L Hok.
  unfold decode, encode.
  set (body := flat_map enc_field fs ++ enc_header end_id 0 ++ repeat 0 (N.to_nat ts)).
  set (stream := (le_enc 4 hdr_id ++ h60) ++ body).
  assert (L4 := le_enc_length 4 hdr_id).
  cbn [dec_fields].
  assert (A : (List.length stream <? 16)%nat = false).
  { apply Nat.ltb_ge. unfold stream. rewrite !app_length, L4, L. lia. }
  rewrite A.
  assert (B : le_dec (firstn 4 stream) = hdr_id).
  { unfold stream. rewrite <- app_assoc. rewrite firstn_app_exact by auto. apply le_dec_enc. cbn. lia. }
  rewrite B.
  destruct (hdr_id =? end_id) eqn:E; [apply N.eqb_eq in E; contradiction|].
  rewrite N.eqb_refl.
  (* split h60 = h12 ++ h48 *)
  assert (S16 : skipn 16 stream = skipn 12 h60 ++ body).
  { unfold stream. rewrite <- app_assoc.
    replace 16%nat with (List.length (le_enc 4 hdr_id) + 12)%nat by (rewrite L4; reflexivity).
    rewrite skipn_app. rewrite skipn_all2 by lia. cbn [app].
    replace (List.length (le_enc 4 hdr_id) + 12 - List.length (le_enc 4 hdr_id))%nat with 12%nat by lia.
    rewrite skipn_app. replace (12 - List.length h60)%nat with 0%nat by lia. reflexivity. }
  rewrite S16.
  assert (L48 : List.length (skipn 12 h60) = 48%nat) by (rewrite skipn_length; lia).
  unfold drop, take, header_rest. change (N.to_nat 48) with 48%nat.
  rewrite skipn_app_exact by auto. rewrite firstn_app_exact by auto.
  unfold body. rewrite dec_fields_enc; auto.
  unfold stream, body. rewrite !app_length. pose proof (enc_fields_length fs). lia.
Qed.
