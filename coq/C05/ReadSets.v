(* C05 — continuation, the part the model can carry: which code READS the members that are not persisted.
   Regenerated (clang AST) read sets per source file, checked against the audited exempt list. *)
From Coq Require Import NArith List String Bool.
From RV Require Import C05.Types C05.Model C05.Exempt C05.Table Gen.Descriptors Gen.ReadSets.
Import ListNotations.

Definition allowed_reader (m f : string) : bool :=
  match find (fun e => String.eqb (fst e) m) exempt_readers with
  | Some e => existsb (String.eqb f) (snd e)
  | None => false
  end.

(* re-derived by the reader itself: count members set from the field size, members assigned in finish_fields *)
Definition rederived (m : string) : bool :=
  existsb (fun cs => String.eqb (fst cs) m) reader_count_sets ||
  String.eqb m "ri_whfast512.recalculate_constants".

(* every member that any source file READS is persisted, or re-derived by the reader, or exempt *)
Lemma gen_reads_covered :
  forallb (fun mr => persisted table (fst mr) || rederived (fst mr) || is_exempt (fst mr)) member_readers = true.
Proof. vm_compute. reflexivity. Qed.

(* every READ of an exempt member happens in a file that the audit allows for that member *)
Lemma gen_exempt_readers_audited :
  forallb (fun mr => negb (is_exempt (fst mr)) || forallb (allowed_reader (fst mr)) (snd mr)) member_readers = true.
Proof. vm_compute. reflexivity. Qed.

(* the audit list covers exactly the exempt members, and every name in the read/write sets is a member *)
Lemma gen_exempt_readers_exact :
  forallb (fun e => existsb (fun r => String.eqb (fst r) (fst e)) exempt_readers) exempt &&
  forallb (fun r => is_exempt (fst r)) exempt_readers &&
  forallb (fun mr => match member_of sim_members (fst mr) with Some _ => true | None => false end) (member_readers ++ member_writers) = true.
Proof. vm_compute. reflexivity. Qed.

(* a persisted member is either written by some code other than the reader, or is pure input (never assigned): nothing is
   persisted that only input.c ever assigns - and conversely every member that some step code assigns and some code reads
   is persisted or exempt (previous lemmas).  Here: members nobody reads at all (dead state) are listed explicitly. *)
Definition never_read : list string :=
  map m_path (filter (fun m => negb (existsb (fun mr => String.eqb (fst mr) (m_path m)) member_readers)) sim_members).
