(* C05 — types shared by the generated description (coq/Gen/Descriptors.v) and the model. *)
From Coq Require Import NArith List String Bool.
Import ListNotations.
Open Scope N_scope.

(* enum reb_binary_field_dtype of rebound.h *)
Inductive dtype := DDouble | DInt | DUInt | DU32 | DI64 | DU64 | DVec3 | DParticle | DParticle4
                 | DPointer | DPointerAligned | DPointerFixed | DDp7 | DOther | DEnd.

Definition dtype_eqb (a b : dtype) : bool :=
  match a, b with
  | DDouble, DDouble | DInt, DInt | DUInt, DUInt | DU32, DU32 | DI64, DI64 | DU64, DU64 | DVec3, DVec3
  | DParticle, DParticle | DParticle4, DParticle4 | DPointer, DPointer | DPointerAligned, DPointerAligned
  | DPointerFixed, DPointerFixed | DDp7, DDp7 | DOther, DOther | DEnd, DEnd => true
  | _, _ => false
  end.

(* one row of reb_binary_field_descriptor_list: id, dtype, name, member path (offsetof argument), count member
   path (offset_N argument; "" when 0), element_size *)
Record desc := mkdesc { d_id : N; d_dt : dtype; d_name : string; d_member : string; d_count : string; d_esize : N }.

(* class of the C type of a struct member *)
Inductive ckind := KDouble | KInt | KUInt | KU32 | KI32 | KI64 | KU64 | KChar | KFloat | KEnum | KPtr | KFunPtr | KStruct | KArr.

Definition ckind_eqb (a b : ckind) : bool :=
  match a, b with
  | KDouble, KDouble | KInt, KInt | KUInt, KUInt | KU32, KU32 | KI32, KI32 | KI64, KI64 | KU64, KU64 | KChar, KChar
  | KFloat, KFloat | KEnum, KEnum | KPtr, KPtr | KFunPtr, KFunPtr | KStruct, KStruct | KArr, KArr => true
  | _, _ => false
  end.

(* member path, byte offset in its struct, type class, sizeof, pointee / struct / array type name *)
Record member := mkmember { m_path : string; m_off : N; m_kind : ckind; m_size : N; m_tyname : string }.

(* the writer's switch(dtype): size of a simple field *)
Definition simple_size (particle_size : N) (dt : dtype) : option N :=
  match dt with
  | DDouble => Some 8 | DInt => Some 4 | DUInt => Some 4 | DU32 => Some 4 | DI64 => Some 8 | DU64 => Some 8
  | DVec3 => Some 24 | DParticle => Some particle_size | DParticle4 => Some (4 * particle_size)
  | _ => None
  end.

Definition is_simple (dt : dtype) : bool :=
  match dt with
  | DDouble | DInt | DUInt | DU32 | DI64 | DU64 | DVec3 | DParticle | DParticle4 => true
  | _ => false
  end.

(* value the reader's final fix-up loops assign to an address-valued member of a record: NULL or the address of the
   simulation being read into *)
Inductive relink_value := RNull | RSelf.
