(* C05 — glue evaluated by the correspondence cases (vm_compute on byte streams produced by the library). *)
From Coq Require Import NArith List String Bool Arith.
From RV Require Import C05.Types C05.Model C05.Table Gen.Descriptors.
Import ListNotations.
Open Scope N_scope.

Definition dec (b : bytes) := decode hdr_id end_id b.

Definition empty_mem : key -> mval := fun _ => MP None.

(* memory of a freshly created simulation = what the reader makes of the library's save of Simulation() *)
Definition mem_of (m0 : key -> mval) (fs : list field) : key -> mval := rfields legacy_maxrad_id table m0 fs.

Definition gen_view (m : key -> mval) (fp : bool) : list field := view particle_size fp_id table (mkstate m fp).

Definition is_fp (f : field) : bool := f_type f =? fp_id.
Definition no_fp (fs : list field) : list field := filter (fun f => negb (is_fp f)) fs.

(* b0: library save of a fresh simulation; b: library save of the state; b2: library save (load b).
   1. the Coq writer framing re-encodes the decoded fields to exactly b, trailer is 12 zero bytes;
   2. Coq writer (Coq reader b) = b field for field (function-pointer flag aside: callbacks are not restored);
   3. Coq writer (Coq reader b) = library writer (library reader b) = b2, pointer members masked. *)
Definition corr (b0 b b2 : bytes) : N :=
  match dec b0, dec b, dec b2 with
  | Some (_ :: f0, _), Some (_ :: fs, tr), Some (_ :: fs2, _) =>
      let m := mem_of (mem_of empty_mem f0) fs in
      let v := gen_view m false in
      (if bytes_eqb (encode end_id trailer_size (firstn 64 b) fs) b && bytes_eqb tr (repeat 0 (N.to_nat trailer_size)) then 0 else 1)
      + (if fields_eqb (mask_fields recspecs (no_fp v)) (mask_fields recspecs (no_fp fs)) then 0 else 2)
      + (if fields_eqb (mask_fields recspecs v) (mask_fields recspecs fs2) then 0 else 4)
  | _, _, _ => 8
  end.

Fixpoint bad_from (i : nat) (l : list N) : list nat :=
  match l with [] => [] | x :: r => if x =? 0 then bad_from (S i) r else i :: bad_from (S i) r end.
Definition bad_idx (l : list N) : list nat := bad_from O l.

(* Simulationarchive snapshot k >= 1: b0 = library save of a fresh simulation, s0 = snapshot 0 (full stream),
   dl = the delta blob (fields, END, trailer; no 64-byte header), r = library save(restored snapshot k).
   Coq reader(snapshot 0) then Coq reader(delta) then Coq writer must equal r (pointer members masked);
   a size-0 array field in the delta must make the array vanish. *)
Definition delta_corr (b0 s0 dl r : bytes) : N :=
  match dec b0, dec s0, dec_fields (S (List.length dl)) hdr_id end_id dl, dec r with
  | Some (_ :: f0, _), Some (_ :: fs0, _), Some (dfs, _), Some (_ :: fr, _) =>
      let m := mem_of (mem_of (mem_of empty_mem f0) fs0) dfs in
      if fields_eqb (mask_fields recspecs (gen_view m false)) (mask_fields recspecs fr) then 0 else 1
  | _, _, _, _ => 8
  end.
