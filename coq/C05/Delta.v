(* C05 — the reader applied to a DELTA (Simulationarchive snapshots k>=1: reb_binary_diff with output_option 0).
   A field that the base stream has and the new stream lacks is recorded as a header with size 0 ("vanished").
   The reader must honour it: for array rows realloc(ptr,0) and count member := 0, so that the writer omits
   the field again.  Theorem: reading delta(view a, view b) into the memory a gives a memory with the persisted view
   of b - also when b lacks arrays that a has (reset_integrator, integrator switch, ...). *)
From Coq Require Import NArith List String Bool Arith Lia ZifyBool.
From RV Require Import C05.Types C05.Model C05.Codec C05.Roundtrip C05.Whole.
Import ListNotations.
Open Scope N_scope.

Definition flookup (fs : list field) (ty : N) : option field := find (fun f => f_type f =? ty) fs.

(* field-list semantics of reb_binary_diff(..., output_option=0) for streams with unique types (cursor-independent,
   cf. C17.Proofs.loop1_spec): vanished fields as size-0 headers, changed fields from stream 2, then new fields *)
Definition delta (fs1 fs2 : list field) : list field :=
  flat_map (fun f1 => match flookup fs2 (f_type f1) with
                      | None => [mkfield (f_type f1) []]
                      | Some f2 => if bytes_eqb (f_payload f1) (f_payload f2) then [] else [f2]
                      end) fs1
  ++ filter (fun f2 => match flookup fs1 (f_type f2) with None => true | Some _ => false end) fs2.

Lemma bytes_eqb_true : forall a b, bytes_eqb a b = true -> a = b.
Proof.
  induction a; destruct b; cbn [bytes_eqb]; intros H; try discriminate; auto.
  apply andb_true_iff in H. destruct H as [H1 H2]. apply N.eqb_eq in H1. f_equal; auto.
Qed.
Lemma bytes_eqb_same : forall a, bytes_eqb a a = true.
Proof. induction a; cbn [bytes_eqb]; auto. rewrite N.eqb_refl. auto. Qed.

Lemma find_app' : forall {A} (p : A -> bool) l1 l2,
  find p (l1 ++ l2) = match find p l1 with Some x => Some x | None => find p l2 end.
Proof. induction l1; intros; cbn [app find]; auto. destruct (p a); auto. Qed.

Lemma split_parts_empty : forall ks, split_parts ks 0 [] = map (fun k => (k, MP (Some []))) ks.
Proof. induction ks; cbn [split_parts map]; auto. unfold take, drop. cbn. f_equal. exact IHks. Qed.

Lemma take_all' : forall n l, len l = n -> take n l = l.
Proof. intros n l H. unfold take, len in *. apply firstn_all2. lia. Qed.

Lemma split_parts_keys : forall ks q pl k, In k ks -> In k (map fst (split_parts ks q pl)).
Proof.
  induction ks as [|k1 ks IH]; intros q pl k Hk; [inversion Hk|].
  cbn [split_parts map fst]. destruct Hk as [->|Hk]; [left; reflexivity|right; apply IH; auto].
Qed.

Definition list_eq_dec_field : forall a b : field, {a = b} + {a <> b}.
Proof. decide equality; [apply (list_eq_dec N.eq_dec) | apply N.eq_dec]. Defined.

Section Delta.
Variable psz legacy fpid : N.
Variable tbl : list desc.
Notation L := (live tbl).
Notation mview m := (flat_map (wdesc psz m) L).
Hypothesis Htbl : whole_table_okb legacy fpid tbl = true.

(* the new state: well-formed, and an absent array (count*element_size = 0) is the zero-length array *)
Definition absent_okb (m : key -> mval) (d : desc) : bool :=
  negb (is_arr (d_dt d)) || negb (count_of m d * d_esize d =? 0) ||
  forallb (fun k => match m k with MP (Some []) => true | _ => false end) (parts d).
Definition absent_normal (m : key -> mval) : Prop := forall d, In d L -> absent_okb m d = true.

Lemma id_inj : forall d d', In d L -> In d' L -> d_id d = d_id d' -> d = d'.
Proof.
  intros d d' H H' E. pose proof (find_row legacy fpid tbl Htbl d H) as A. pose proof (find_row legacy fpid tbl Htbl d' H') as B.
  rewrite E in A. congruence.
Qed.

Lemma wdesc_type : forall m d f, In f (wdesc psz m d) -> f_type f = d_id d.
Proof.
  intros m d f H. unfold wdesc in H. destruct (d_dt d); cbn [simple_size] in H;
    repeat match type of H with
           | context [if ?c then _ else _] => destruct c
           | context [match ?c with _ => _ end] => destruct c
           end; try contradiction; destruct H as [<-|[]]; reflexivity.
Qed.

Lemma wdesc_cases : forall m d, wdesc psz m d = [] \/ exists f, wdesc psz m d = [f].
Proof.
  intros. unfold wdesc. destruct (d_dt d); cbn [simple_size];
    repeat match goal with
           | |- context [if ?c then _ else _] => destruct c
           | |- context [match ?c with _ => _ end] => destruct c
           end; eauto.
Qed.

(* looking a row's id up in a view gives that row's field *)
Lemma flookup_view_gen : forall m l d, (forall x, In x l -> In x L) -> In d L ->
  flookup (flat_map (wdesc psz m) l) (d_id d) =
  (if existsb (fun x => desc_eqb x d) l then match wdesc psz m d with f :: _ => Some f | [] => None end else None).
Proof.
  induction l as [|x l IH]; intros d Hsub Hd; cbn [flat_map existsb]; auto.
  assert (Hx : In x L) by (apply Hsub; left; auto).
  assert (Hl : forall y, In y l -> In y L) by (intros; apply Hsub; right; auto).
  unfold flookup. rewrite find_app'. fold (flookup (flat_map (wdesc psz m) l) (d_id d)). rewrite (IH d Hl Hd).
  destruct (desc_eqb x d) eqn:E.
  - apply desc_eqb_eq in E. subst x. cbn [orb].
    destruct (wdesc_cases m d) as [E0|[f E0]]; rewrite E0.
    + cbn [find].
      destruct (existsb (fun x => desc_eqb x d) l) eqn:Ex; auto.
    + cbn [find]. rewrite (wdesc_type m d f) by (rewrite E0; left; auto). rewrite N.eqb_refl. reflexivity.
  - cbn [orb].
    assert (Hne : find (fun f => f_type f =? d_id d) (wdesc psz m x) = None).
    { destruct (wdesc_cases m x) as [E0|[f E0]]; rewrite E0; cbn [find]; auto.
      rewrite (wdesc_type m x f) by (rewrite E0; left; auto).
      destruct (d_id x =? d_id d) eqn:Ei; auto. apply N.eqb_eq in Ei. apply id_inj in Ei; auto. subst.
      assert (desc_eqb d d = true).
      { unfold desc_eqb. rewrite !N.eqb_refl, !String.eqb_refl. destruct (d_dt d); reflexivity. }
      congruence. }
    rewrite Hne. reflexivity.
Qed.

Lemma desc_eqb_refl : forall d, desc_eqb d d = true.
Proof. intros. unfold desc_eqb. rewrite !N.eqb_refl, !String.eqb_refl. destruct (d_dt d); reflexivity. Qed.

Lemma flookup_view : forall m d, In d L ->
  flookup (mview m) (d_id d) = match wdesc psz m d with f :: _ => Some f | [] => None end.
Proof.
  intros m d Hd. rewrite (flookup_view_gen m L d (fun x H => H) Hd).
  assert (existsb (fun x => desc_eqb x d) L = true) by (apply existsb_exists; exists d; split; auto; apply desc_eqb_refl).
  rewrite H. reflexivity.
Qed.

(* ---------- membership in the delta of two views *)
Lemma delta_changed : forall a b d fb, In d L -> wdesc psz b d = [fb] -> wdesc psz a d <> [fb] -> In fb (delta (mview a) (mview b)).
Proof.
  intros a b d fb Hd Hb Hne. unfold delta. apply in_or_app.
  destruct (wdesc_cases a d) as [Ea|[fa Ea]].
  - right. apply filter_In. split.
    + apply in_flat_map. exists d. split; auto. rewrite Hb. left; auto.
    + rewrite (wdesc_type b d fb) by (rewrite Hb; left; auto). rewrite flookup_view by auto. rewrite Ea. reflexivity.
  - left. apply in_flat_map. exists fa. split.
    + apply in_flat_map. exists d. split; auto. rewrite Ea. left; auto.
    + rewrite (wdesc_type a d fa) by (rewrite Ea; left; auto). rewrite flookup_view by auto. rewrite Hb.
      destruct (bytes_eqb (f_payload fa) (f_payload fb)) eqn:E; [|left; auto].
      exfalso. apply Hne. rewrite Ea. f_equal. apply bytes_eqb_true in E.
      destruct fa as [ta pa], fb as [tb pb]. cbn in E. subst.
      assert (ta = d_id d) by (apply (wdesc_type a d (mkfield ta pb)); rewrite Ea; left; auto).
      assert (tb = d_id d) by (apply (wdesc_type b d (mkfield tb pb)); rewrite Hb; left; auto). congruence.
Qed.

Lemma delta_vanished : forall a b d fa, In d L -> wdesc psz a d = [fa] -> wdesc psz b d = [] ->
  In (mkfield (d_id d) []) (delta (mview a) (mview b)).
Proof.
  intros a b d fa Hd Ea Eb. unfold delta. apply in_or_app. left. apply in_flat_map. exists fa. split.
  - apply in_flat_map. exists d. split; auto. rewrite Ea. left; auto.
  - rewrite (wdesc_type a d fa) by (rewrite Ea; left; auto). rewrite flookup_view by auto. rewrite Eb. left; auto.
Qed.

(* every field of the delta is a field of b's view or the vanished marker of a row that a writes and b does not *)
Lemma delta_elems : forall a b f, In f (delta (mview a) (mview b)) ->
  In f (mview b) \/ exists d fa, In d L /\ wdesc psz a d = [fa] /\ wdesc psz b d = [] /\ f = mkfield (d_id d) [].
Proof.
  intros a b f H. unfold delta in H. apply in_app_or in H. destruct H as [H|H].
  - apply in_flat_map in H. destruct H as [fa [Hfa H]]. apply in_flat_map in Hfa. destruct Hfa as [d [Hd Hfa]].
    pose proof (wdesc_type a d fa Hfa) as Ety. rewrite Ety in H. rewrite flookup_view in H by auto.
    destruct (wdesc_cases a d) as [Ea|[fa' Ea]]; rewrite Ea in Hfa; [contradiction|]. destruct Hfa as [->|[]].
    destruct (wdesc_cases b d) as [Eb|[fb Eb]]; rewrite Eb in H.
    + destruct H as [<-|[]]. right. exists d, fa. auto.
    + destruct (bytes_eqb (f_payload fa) (f_payload fb)); [contradiction|]. destruct H as [<-|[]].
      left. apply in_flat_map. exists d. split; auto. rewrite Eb. left; auto.
  - apply filter_In in H. tauto.
Qed.

(* ---------- the vanished marker of an array row writes b's values: zero-length parts and count 0 *)
Lemma vanished_writes_values : forall b d k v, mem_wf psz tbl b -> absent_normal b -> In d L ->
  is_arr (d_dt d) = true -> wdesc psz b d = [] ->
  In (k, v) (writes legacy tbl (mkfield (d_id d) [])) -> v = b k.
Proof.
  intros b d k v Hwf Hab Hd Harr Eb Hkv.
  pose proof (Hwf d Hd) as Hm. pose proof (Hab d Hd) as Ha. pose proof (row_ok legacy fpid tbl Htbl d Hd) as Hr.
  unfold row_okb in Hr. apply andb_true_iff in Hr. destruct Hr as [_ Hr]. rewrite Harr in Hr. cbn [negb orb] in Hr.
  apply andb_true_iff in Hr. destruct Hr as [Hes _].
  unfold writes in Hkv. cbn [f_type f_payload] in Hkv. rewrite (find_row legacy fpid tbl Htbl d Hd) in Hkv.
  unfold wdesc in Eb. unfold mem_okb in Hm. unfold absent_okb in Ha. rewrite Harr in Ha. cbn [negb orb] in Ha.
  assert (Hsz : count_of b d * d_esize d = 0).
  { destruct (d_dt d); try discriminate Harr; destruct (count_of b d * d_esize d =? 0) eqn:E; try discriminate Eb; apply N.eqb_eq; auto. }
  rewrite Hsz in Ha. cbn [N.eqb negb orb] in Ha.
  assert (Hc0 : count_of b d = 0) by (apply N.eq_mul_0 in Hsz; destruct Hsz; [auto|lia]).
  assert (Hcommon : In (k, v) (map (fun k0 => (k0, MP (Some []))) (parts d) ++ [((d_count d, O), MB [0; 0; 0; 0])]) -> v = b k).
  { intros Hin. apply in_app_or in Hin. destruct Hin as [Hin|[Hin|[]]].
    - apply in_map_iff in Hin. destruct Hin as [k0 [E Hk0]]. inversion E; subst.
      rewrite forallb_forall in Ha. specialize (Ha k Hk0). destruct (b k) as [|[[|]|]]; try discriminate. reflexivity.
    - inversion Hin; subst.
      destruct (d_dt d); try discriminate Harr;
        (destruct (b (d_count d, O)) as [cb|] eqn:Ec; [|discriminate Hm];
         apply andb_true_iff in Hm; destruct Hm as [Hm _]; apply andb_true_iff in Hm; destruct Hm as [Hm _];
         apply andb_true_iff in Hm; destruct Hm as [Hl4 Hb];
         unfold count_of in Hc0; rewrite Ec in Hc0; cbn [vbytes] in Hc0;
         assert (E4 : List.length cb = 4%nat) by (apply Nat.eqb_eq; auto);
         assert (Hcb : le_enc (List.length cb) (le_dec cb) = cb)
           by (apply le_enc_dec; apply Forall_forall; intros x Hx; rewrite forallb_forall in Hb; specialize (Hb x Hx); lia);
         rewrite Hc0, E4 in Hcb; cbn in Hcb; rewrite <- Hcb; reflexivity). }
  assert (E1 : len (@nil N) / nparts d = 0) by reflexivity.
  assert (E2 : (len (@nil N) mod 4294967296) / d_esize d = 0) by reflexivity.
  destruct (d_dt d); try discriminate Harr; apply Hcommon;
    rewrite E1, E2, split_parts_empty in Hkv; exact Hkv.
Qed.

(* ---------- keys the writer reads for a row *)
Definition rkeys (d : desc) : list key :=
  if is_arr (d_dt d) then (d_count d, O) :: parts d
  else if is_simple (d_dt d) || dtype_eqb (d_dt d) DPointerFixed then [(d_member d, O)] else [].

Lemma wdesc_ext : forall m1 m2 d, (forall k, In k (rkeys d) -> m1 k = m2 k) -> wdesc psz m1 d = wdesc psz m2 d.
Proof.
  intros m1 m2 d H. unfold rkeys in H. unfold wdesc.
  destruct (d_dt d) eqn:Edt; cbn [is_arr is_simple dtype_eqb orb simple_size] in *; try reflexivity;
    try (rewrite (H (d_member d, O)) by (left; auto); reflexivity).
  all: assert (Hc : count_of m1 d = count_of m2 d) by (unfold count_of; rewrite (H (d_count d, O)) by (left; auto); reflexivity);
       rewrite Hc; destruct (count_of m2 d * d_esize d =? 0); auto; f_equal; f_equal;
       apply flat_map_ext_in'; intros k Hk; rewrite (H k) by (right; auto); reflexivity.
Qed.

Lemma writes_cover : forall m d f k, In d L -> wdesc psz m d = [f] -> In k (rkeys d) -> In k (map fst (writes legacy tbl f)).
Proof.
  intros m d f k Hd Hw Hk. pose proof (wdesc_type m d f) as Hty. rewrite Hw in Hty. specialize (Hty (or_introl eq_refl)).
  unfold writes. rewrite Hty, (find_row legacy fpid tbl Htbl d Hd). unfold rkeys in Hk. unfold wdesc in Hw.
  destruct (d_dt d) eqn:Edt; cbn [is_arr is_simple dtype_eqb orb simple_size] in *; try contradiction;
    try (destruct Hk as [<-|[]]; left; reflexivity); try discriminate Hw.
  all: try (rewrite map_app; apply in_or_app; destruct Hk as [<-|Hk]; [right; left; reflexivity|]; left; apply split_parts_keys; exact Hk).
Qed.

Lemma app_eq_len : forall {A} (a b c e : list A), List.length a = List.length b -> a ++ c = b ++ e -> a = b /\ c = e.
Proof.
  induction a; destruct b; cbn [List.length app]; intros c e Hl H; try discriminate; auto.
  inversion H; subst. destruct (IHa b c e) as [-> ->]; auto.
Qed.

Lemma concat_eq_parts : forall (g1 g2 : key -> bytes) q ks,
  (forall k, In k ks -> len (g1 k) = q /\ len (g2 k) = q) ->
  flat_map g1 ks = flat_map g2 ks -> forall k, In k ks -> g1 k = g2 k.
Proof.
  induction ks as [|k0 ks IH]; intros Hl H k Hk; [inversion Hk|].
  cbn [flat_map] in H. destruct (Hl k0 (or_introl eq_refl)) as [L1 L2].
  apply app_eq_len in H. 2:{ unfold len in *. lia. }
  destruct H as [H0 H1]. destruct Hk as [<-|Hk]; auto. apply IH; auto. intros; apply Hl; right; auto.
Qed.

(* a row that both states write identically reads identical member values *)
Lemma unchanged_row : forall a b d f, mem_wf psz tbl a -> mem_wf psz tbl b -> In d L ->
  wdesc psz a d = [f] -> wdesc psz b d = [f] -> forall k, In k (rkeys d) -> a k = b k.
Proof.
  intros a b d f Hwa Hwb Hd Ea Eb k Hk.
  pose proof (Hwa d Hd) as Ha. pose proof (Hwb d Hd) as Hb. pose proof (row_ok legacy fpid tbl Htbl d Hd) as Hr.
  unfold row_okb in Hr. apply andb_true_iff in Hr. destruct Hr as [_ Hr].
  unfold rkeys in Hk. unfold wdesc in Ea, Eb. unfold mem_okb in Ha, Hb.
  destruct (d_dt d) eqn:Edt; cbn [is_arr is_simple dtype_eqb orb simple_size negb] in *; try contradiction;
    try (destruct Hk as [<-|[]];
         destruct (a (d_member d, O)) as [ba|] eqn:Eav; [|discriminate Ha];
         destruct (b (d_member d, O)) as [bb|] eqn:Ebv; [|discriminate Hb];
         apply N.eqb_eq in Ha, Hb; cbn [vbytes] in Ea, Eb;
         rewrite take_all' in Ea by auto; rewrite take_all' in Eb by auto; congruence).
  1,2,4: (
    destruct (a (d_count d, O)) as [ca|] eqn:Eca; [|discriminate Ha];
    destruct (b (d_count d, O)) as [cb|] eqn:Ecb; [|discriminate Hb];
    apply andb_true_iff in Ha; destruct Ha as [Ha Hpa]; apply andb_true_iff in Ha; destruct Ha as [Ha Hlta];
    apply andb_true_iff in Ha; destruct Ha as [Hl4a Hba];
    apply andb_true_iff in Hb; destruct Hb as [Hb Hpb]; apply andb_true_iff in Hb; destruct Hb as [Hb Hltb];
    apply andb_true_iff in Hb; destruct Hb as [Hl4b Hbb];
    apply andb_true_iff in Hr; destruct Hr as [Hes Hmod];
    set (sa := count_of a d * d_esize d) in *; set (sb := count_of b d * d_esize d) in *;
    destruct (sa =? 0) eqn:Esa; [discriminate Ea|]; destruct (sb =? 0) eqn:Esb; [discriminate Eb|];
    assert (Hparta : forall k0, In k0 (parts d) -> exists x, a k0 = MP (Some x) /\ len x = sa / nparts d)
      by (intros k0 Hk0; rewrite forallb_forall in Hpa; specialize (Hpa k0 Hk0); try rewrite Esa in Hpa; cbn [orb] in Hpa;
          destruct (a k0) as [|[x|]]; try discriminate; exists x; split; auto; apply N.eqb_eq; auto);
    assert (Hpartb : forall k0, In k0 (parts d) -> exists x, b k0 = MP (Some x) /\ len x = sb / nparts d)
      by (intros k0 Hk0; rewrite forallb_forall in Hpb; specialize (Hpb k0 Hk0); try rewrite Esb in Hpb; cbn [orb] in Hpb;
          destruct (b k0) as [|[x|]]; try discriminate; exists x; split; auto; apply N.eqb_eq; auto);
    pose proof (nparts_pos_array d) as Hnp; rewrite Edt in Hnp;
    assert (Hdiv : forall s0, s0 = count_of a d * d_esize d \/ s0 = count_of b d * d_esize d -> nparts d * (s0 / nparts d) = s0)
      by (intros s0 Hs0; pose proof (N.div_mod s0 (nparts d));
          assert (s0 mod nparts d = 0)
            by (destruct Hs0 as [-> | ->]; rewrite N.mul_mod by lia; replace (d_esize d mod nparts d) with 0 by lia;
                rewrite N.mul_0_r; apply N.mod_0_l; lia); lia);
    assert (Hla : len (flat_map (fun k0 => take (sa / nparts d) (vbytes (a k0))) (parts d)) = sa)
      by (rewrite (len_concat_parts (fun k0 => vbytes (a k0)) (sa / nparts d) (parts d))
            by (intros k0 Hk0; destruct (Hparta k0 Hk0) as [x [E1 E2]]; rewrite E1; cbn [vbytes]; lia);
          fold (nparts d); apply Hdiv; left; reflexivity);
    assert (Hlb : len (flat_map (fun k0 => take (sb / nparts d) (vbytes (b k0))) (parts d)) = sb)
      by (rewrite (len_concat_parts (fun k0 => vbytes (b k0)) (sb / nparts d) (parts d))
            by (intros k0 Hk0; destruct (Hpartb k0 Hk0) as [x [E1 E2]]; rewrite E1; cbn [vbytes]; lia);
          fold (nparts d); apply Hdiv; right; reflexivity);
    assert (Hpl : flat_map (fun k0 => take (sa / nparts d) (vbytes (a k0))) (parts d)
                = flat_map (fun k0 => take (sb / nparts d) (vbytes (b k0))) (parts d)) by congruence;
    assert (Hss : sa = sb) by (rewrite <- Hla, <- Hlb, Hpl; reflexivity);
    assert (Hcc : count_of a d = count_of b d) by (unfold sa, sb in Hss; apply N.mul_cancel_r in Hss; [auto|lia]);
    destruct Hk as [<-|Hk];
    [ rewrite Eca, Ecb; f_equal;
      assert (E4a : List.length ca = 4%nat) by (apply Nat.eqb_eq; auto);
      assert (E4b : List.length cb = 4%nat) by (apply Nat.eqb_eq; auto);
      assert (Ha' : le_enc 4 (le_dec ca) = ca)
        by (rewrite <- E4a; apply le_enc_dec; apply Forall_forall; intros x Hx; rewrite forallb_forall in Hba; specialize (Hba x Hx); lia);
      assert (Hb' : le_enc 4 (le_dec cb) = cb)
        by (rewrite <- E4b; apply le_enc_dec; apply Forall_forall; intros x Hx; rewrite forallb_forall in Hbb; specialize (Hbb x Hx); lia);
      unfold count_of in Hcc; rewrite Eca, Ecb in Hcc; cbn [vbytes] in Hcc; rewrite <- Ha', <- Hb', Hcc; reflexivity
    | destruct (Hparta k Hk) as [xa [E1 E2]]; destruct (Hpartb k Hk) as [xb [E3 E4]]; rewrite E1, E3; f_equal; f_equal;
      assert (Hg : (fun k0 => take (sa / nparts d) (vbytes (a k0))) k = (fun k0 => take (sb / nparts d) (vbytes (b k0))) k)
        by (apply (concat_eq_parts (fun k0 => take (sa / nparts d) (vbytes (a k0))) (fun k0 => take (sb / nparts d) (vbytes (b k0))) (sa / nparts d) (parts d)); auto;
            intros k0 Hk0; destruct (Hparta k0 Hk0) as [ya [F1 F2]]; destruct (Hpartb k0 Hk0) as [yb [F3 F4]];
            rewrite F1, F3; cbn [vbytes]; split; [apply len_take; lia | rewrite <- Hss; apply len_take; rewrite Hss; lia]);
      cbv beta in Hg; rewrite E1, E3 in Hg; cbn [vbytes] in Hg; rewrite <- Hss in Hg, E4;
      rewrite take_all' in Hg by auto; rewrite take_all' in Hg by auto; exact Hg ]).
  (* fixed *)
  destruct Hk as [<-|[]].
  destruct (a (d_member d, O)) as [|[ba|]] eqn:Eav; try discriminate Ha; try discriminate Ea.
  destruct (b (d_member d, O)) as [|[bb|]] eqn:Ebv; try discriminate Hb; try discriminate Eb.
  apply N.eqb_eq in Ha, Hb. rewrite take_all' in Ea by auto. rewrite take_all' in Eb by auto. congruence.
Qed.

Notation WD a b := (flat_map (writes legacy tbl) (delta (mview a) (mview b))).

Lemma WD_values : forall a b k v, mem_wf psz tbl a -> mem_wf psz tbl b -> absent_normal b ->
  In (k, v) (WD a b) -> v = b k.
Proof.
  intros a b k v Hwa Hwb Hab H. apply in_flat_map in H. destruct H as [f [Hf Hkv]].
  apply delta_elems in Hf. destruct Hf as [Hf|(d & fa & Hd & Ea & Eb & ->)].
  - apply in_flat_map in Hf. destruct Hf as [d [Hd Hf]]. eapply (writes_are_values psz legacy fpid tbl Htbl); eauto.
  - destruct (is_arr (d_dt d)) eqn:Harr; [eapply vanished_writes_values; eauto|].
    (* vanished marker of a non-array row: only a fixed-size pointer can vanish; realloc(ptr,0) = NULL = b's value *)
    pose proof (Hwb d Hd) as Hb. pose proof (Hwa d Hd) as Ha.
    unfold writes in Hkv. cbn [f_type f_payload] in Hkv. rewrite (find_row legacy fpid tbl Htbl d Hd) in Hkv.
    unfold wdesc in Ea, Eb. unfold mem_okb in Ha, Hb.
    destruct (d_dt d); cbn [is_arr simple_size] in *; try discriminate Harr; try discriminate Ea; try discriminate Eb;
      try (destruct (b (d_member d, O)); discriminate).
    destruct (b (d_member d, O)) as [|[|]] eqn:Ebv; try discriminate Eb; try discriminate Hb.
    destruct Hkv as [Hkv|[]]. inversion Hkv; subst. rewrite Ebv. reflexivity.
Qed.

(* ---------- the theorem *)
Theorem delta_roundtrip : forall a b, mem_wf psz tbl a -> mem_wf psz tbl b -> absent_normal b ->
  flat_map (wdesc psz (rfields legacy tbl a (delta (mview a) (mview b)))) L = flat_map (wdesc psz b) L.
Proof.
  intros a b Hwa Hwb Hab. unfold rfields. set (fin := apply_writes a (WD a b)).
  assert (Hfv : forall k, fin k = b k \/ (fin k = a k /\ ~ In k (map fst (WD a b)))).
  { intros k. destruct (in_dec key_dec k (map fst (WD a b))) as [Hi|Hn].
    - left. apply apply_writes_agree; auto. intros k' v' Hin. apply (WD_values a b k' v'); auto.
    - right. split; auto. apply apply_writes_notin; auto. }
  apply flat_map_ext_in'. intros d Hd.
  destruct (wdesc_cases b d) as [Eb|[fb Eb]].
  - (* b does not write the row *)
    rewrite Eb. pose proof (Hwb d Hd) as Hb. pose proof (Hwa d Hd) as Ha.
    destruct (is_arr (d_dt d)) eqn:Harr.
    + assert (Hszb : count_of b d * d_esize d = 0).
      { unfold wdesc in Eb. destruct (d_dt d); try discriminate Harr;
          destruct (count_of b d * d_esize d =? 0) eqn:E; try discriminate Eb; apply N.eqb_eq; auto. }
      assert (Hszf : count_of fin d * d_esize d = 0).
      { destruct (Hfv (d_count d, O)) as [E|[E Hn]].
        - unfold count_of. rewrite E. exact Hszb.
        - destruct (wdesc_cases a d) as [Ea|[fa Ea]].
          + unfold count_of. rewrite E. fold (count_of a d). unfold wdesc in Ea.
            destruct (d_dt d); try discriminate Harr; destruct (count_of a d * d_esize d =? 0) eqn:E0; try discriminate Ea; apply N.eqb_eq; auto.
          + exfalso. apply Hn. pose proof (delta_vanished a b d fa Hd Ea Eb) as Hv.
            assert (Hc : In (d_count d, O) (map fst (writes legacy tbl (mkfield (d_id d) [])))).
            { unfold writes. cbn [f_type f_payload]. rewrite (find_row legacy fpid tbl Htbl d Hd).
              destruct (d_dt d); try discriminate Harr; rewrite map_app; apply in_or_app; right; left; reflexivity. }
            apply in_map_iff in Hc. destruct Hc as [[k' v'] [Ek Hc]]. cbn [fst] in Ek. subst k'.
            apply in_map_iff. exists ((d_count d, O), v'). split; auto. apply in_flat_map. eauto. }
      unfold wdesc. destruct (d_dt d); try discriminate Harr; rewrite Hszf; reflexivity.
    + destruct (wdesc_cases a d) as [Ea|[fa Ea]].
      * (* neither writes the row: the member keeps a's or gets b's value, both not a non-NULL pointer *)
        unfold wdesc in *. unfold mem_okb in Ha, Hb.
        destruct (d_dt d) eqn:Edt; cbn [is_arr simple_size] in *; try discriminate Harr; try reflexivity;
          try (destruct (b (d_member d, O)); discriminate).
        destruct (b (d_member d, O)) as [|[|]] eqn:Ebv; try discriminate Hb; try discriminate Eb.
        destruct (Hfv (d_member d, O)) as [E|[E _]]; rewrite E; [rewrite Ebv; reflexivity|].
        destruct (a (d_member d, O)) as [|[|]]; try discriminate Ha; try discriminate Ea; reflexivity.
      * (* a writes it, b does not: the vanished marker is in the delta and sets the member to b's value *)
        pose proof (delta_vanished a b d fa Hd Ea Eb) as Hv.
        assert (Hrk : forall k, In k (rkeys d) -> fin k = b k).
        { intros k Hk. destruct (Hfv k) as [E|[_ Hn]]; auto. exfalso. apply Hn.
          assert (Hc : In k (map fst (writes legacy tbl (mkfield (d_id d) [])))).
          { unfold writes. cbn [f_type f_payload]. rewrite (find_row legacy fpid tbl Htbl d Hd). unfold rkeys in Hk.
            unfold wdesc in Ea. destruct (d_dt d); cbn [is_arr is_simple dtype_eqb orb simple_size] in *;
              try discriminate Harr; try discriminate Ea; try contradiction;
              try (destruct Hk as [<-|[]]; left; reflexivity). }
          apply in_map_iff in Hc. destruct Hc as [[k' v'] [Ek Hc]]. cbn [fst] in Ek. subst k'.
          apply in_map_iff. exists (k, v'). split; auto. apply in_flat_map. eauto. }
        rewrite <- Eb. apply wdesc_ext. exact Hrk.
  - (* b writes fb *)
    rewrite Eb. rewrite <- Eb. apply wdesc_ext. intros k Hk.
    destruct (Hfv k) as [E|[E Hn]]; auto. rewrite E.
    destruct (wdesc_cases a d) as [Ea|[fa Ea]].
    + exfalso. apply Hn. assert (Hin : In fb (delta (mview a) (mview b))) by (eapply delta_changed; eauto; rewrite Ea; discriminate).
      pose proof (writes_cover b d fb k Hd Eb Hk) as Hc. apply in_map_iff in Hc. destruct Hc as [[k' v'] [Ek Hc]]. cbn [fst] in Ek. subst k'.
      apply in_map_iff. exists (k, v'). split; auto. apply in_flat_map. eauto.
    + destruct (list_eq_dec_field fa fb) as [->|Hne].
      * eapply unchanged_row; eauto.
      * exfalso. apply Hn. assert (Hin : In fb (delta (mview a) (mview b))) by (eapply delta_changed; eauto; rewrite Ea; congruence).
        pose proof (writes_cover b d fb k Hd Eb Hk) as Hc. apply in_map_iff in Hc. destruct Hc as [[k' v'] [Ek Hc]]. cbn [fst] in Ek. subst k'.
        apply in_map_iff. exists (k, v'). split; auto. apply in_flat_map. eauto.
Qed.
End Delta.
