(* C05 — executable well-formedness conditions on a descriptor table and on the struct description;
   the generated table of the current tree satisfies them (by vm_compute, re-run on every check). *)
From Coq Require Import NArith List String Bool Arith.
From RV Require Import C05.Types C05.Model C05.Exempt Gen.Descriptors.
Import ListNotations.
Open Scope N_scope.

Fixpoint nodupb {A} (eqb : A -> A -> bool) (l : list A) : bool :=
  match l with [] => true | x :: r => negb (existsb (eqb x) r) && nodupb eqb r end.

Definition is_array (dt : dtype) : bool := match dt with DPointer | DPointerAligned | DDp7 => true | _ => false end.
Definition writes_member (dt : dtype) : bool := is_simple dt || is_array dt || dtype_eqb dt DPointerFixed.

(* keys a descriptor's field writes into (not counting the count member) *)
Definition wkeys (d : desc) : list key :=
  if is_simple (d_dt d) || dtype_eqb (d_dt d) DPointerFixed then [(d_member d, O)] else parts d.

Definition count_ok (psz : N) (tbl : list desc) (d : desc) : bool :=
  negb (is_array (d_dt d)) ||
  ( (0 <? d_esize d) && (d_esize d mod nparts d =? 0) &&
    forallb (fun d' => (* the count member is never an array/fixed member; if it is a simple member it is 4 bytes wide *)
               negb (existsb (key_eqb (d_count d, O)) (wkeys d')) ||
               (is_simple (d_dt d') && match simple_size psz (d_dt d') with Some 4 => true | _ => false end))
            (live tbl) ).

Definition table_ok (psz fpid endid hdrid legacy : N) (tbl : list desc) : bool :=
  nodupb N.eqb (map d_id (live tbl)) &&
  nodupb key_eqb (flat_map wkeys (live tbl)) &&
  forallb (count_ok psz tbl) (live tbl) &&
  forallb (fun d => (d_id d <? 4294967296) && negb (d_id d =? endid) &&
                    (negb (d_id d =? fpid) || negb (writes_member (d_dt d))) &&
                    (negb (d_id d =? hdrid) || negb (writes_member (d_dt d))) &&
                    (negb (d_id d =? legacy)))
          (live tbl) &&
  (* the END row exists, is the first row of dtype DEnd and is the last row of the table *)
  match skipn (List.length (live tbl)) tbl with [e] => (d_id e =? endid) && dtype_eqb (d_dt e) DEnd | _ => false end.

Definition id_of_name (tbl : list desc) (nm : string) : N :=
  match find (fun d => String.eqb (d_name d) nm) tbl with Some d => d_id d | None => 0 end.

Definition end_id : N := id_of_name table "end".
Definition hdr_id : N := id_of_name table "header".

(* ---------- completeness of the persisted set *)
Definition persisted (tbl : list desc) (m : string) : bool :=
  existsb (fun d => String.eqb (d_member d) m || (is_array (d_dt d) && String.eqb (d_count d) m)) (live tbl).
Definition is_exempt (m : string) : bool := existsb (fun e => String.eqb (fst e) m) exempt.
Definition is_gap (m : string) : bool := existsb (String.eqb m) known_gaps.

(* ---------- the writer's size for a field agrees with the C type of the member it copies *)
Definition member_of (ms : list member) (p : string) : option member := find (fun m => String.eqb (m_path m) p) ms.
Definition pointee_size (nm : string) : option N :=
  match find (fun e => String.eqb (fst e) nm) pointee_sizes with Some e => Some (snd e) | None => None end.

Definition kind_matches (dt : dtype) (m : member) : bool :=
  match dt with
  | DDouble => ckind_eqb (m_kind m) KDouble
  | DInt => ckind_eqb (m_kind m) KInt || ckind_eqb (m_kind m) KEnum
  | DUInt => ckind_eqb (m_kind m) KUInt || ckind_eqb (m_kind m) KEnum
  | DU32 => ckind_eqb (m_kind m) KU32
  | DI64 => ckind_eqb (m_kind m) KI64
  | DU64 => ckind_eqb (m_kind m) KU64
  | DVec3 => ckind_eqb (m_kind m) KStruct && String.eqb (m_tyname m) "struct reb_vec3d"
  | DParticle => ckind_eqb (m_kind m) KStruct && String.eqb (m_tyname m) "struct reb_particle"
  | DParticle4 => ckind_eqb (m_kind m) KArr && String.eqb (m_tyname m) "struct reb_particle[4]"
  | DPointer | DPointerAligned | DPointerFixed => ckind_eqb (m_kind m) KPtr
  | DDp7 => ckind_eqb (m_kind m) KStruct && String.eqb (m_tyname m) "struct reb_dp7"
  | _ => false
  end.

Definition size_agrees (d : desc) : bool :=
  if negb (writes_member (d_dt d)) then true else
  match member_of sim_members (d_member d) with
  | None => false
  | Some m =>
      kind_matches (d_dt d) m &&
      match simple_size particle_size (d_dt d) with
      | Some sz => m_size m =? sz
      | None =>
          match d_dt d with
          | DDp7 => (d_esize d =? 7 * 8) && (m_size m =? 7 * 8)
          | _ => match pointee_size (m_tyname m) with Some sz => d_esize d =? sz | None => false end
          end
      end &&
      (negb (is_array (d_dt d)) ||
       match member_of sim_members (d_count d) with
       | Some c => (ckind_eqb (m_kind c) KUInt || ckind_eqb (m_kind c) KInt) && (m_size c =? 4)
       | None => false
       end)
  end.

(* ---------- record-structured fields and their pointer members (used for masking / fix-ups / diff) *)
Definition recspecs : list recspec :=
  [ (id_of_name table "particles", particle_size, ptr_ranges particle_members);
    (id_of_name table "var_config", varconfig_size, ptr_ranges varconfig_members);
    (id_of_name table "ri_whfast.p_jh", particle_size, ptr_ranges particle_members);
    (id_of_name table "ri_whfast512.pjh0", particle_size, ptr_ranges particle_members) ].

(* ---------- the facts about the current tree *)
Lemma gen_table_ok : table_ok particle_size fp_id end_id hdr_id legacy_maxrad_id table = true.
Proof. vm_compute. reflexivity. Qed.

Lemma gen_ids : end_id = 9999 /\ hdr_id = 1329743186 /\ le_dec [82; 69; 66; 79] = hdr_id.
Proof. vm_compute. repeat split; reflexivity. Qed.

Lemma gen_framing : binary_field_size = 16 /\ binary_field_type_off = 0 /\ binary_field_type_size = 4 /\
                    binary_field_size_off = 8 /\ binary_field_size_size = 8 /\ trailer_size = 12 /\ header_size = 64.
Proof. vm_compute. repeat split; reflexivity. Qed.

Lemma gen_sizes_agree : forallb size_agrees (live table) = true.
Proof. vm_compute. reflexivity. Qed.

(* every member is persisted, exempt (hand audited, with a reason class) or a recorded gap *)
Lemma gen_persisted_complete :
  forallb (fun m => persisted table (m_path m) || is_exempt (m_path m) || is_gap (m_path m)) sim_members = true.
Proof. vm_compute. reflexivity. Qed.

(* the exempt list is not stale: each entry names an existing member that is really not persisted, listed once *)
Lemma gen_exempt_exact :
  forallb (fun e => match member_of sim_members (fst e) with Some _ => negb (persisted table (fst e)) | None => false end) exempt
  && nodupb String.eqb (map fst exempt)
  && forallb (fun g => match member_of sim_members g with Some _ => negb (persisted table g) && negb (is_exempt g) | None => false end) known_gaps
  = true.
Proof. vm_compute. reflexivity. Qed.

(* function pointers that set the "functionpointers" flag are members of kind function pointer *)
Lemma gen_fp_members : forallb (fun p => match member_of sim_members p with Some m => ckind_eqb (m_kind m) KFunPtr | None => false end) fp_members = true.
Proof. vm_compute. reflexivity. Qed.

(* reb_particle_diff / the var_config branch compare exactly the non-pointer members *)
Definition nonptr_names (ms : list member) : list string :=
  map m_path (filter (fun m => match m_kind m with KPtr | KFunPtr => false | _ => true end) ms).
Fixpoint strs_eqb (a b : list string) : bool :=
  match a, b with [], [] => true | x :: a, y :: b => String.eqb x y && strs_eqb a b | _, _ => false end.
Definition bitwise_ok (ms : list member) (names bitw : list string) : bool :=
  forallb (fun b => existsb (String.eqb b) names &&
                    match member_of ms b with Some m => ckind_eqb (m_kind m) KDouble && (m_size m =? 8) | None => false end) bitw.
Lemma gen_diff_members_complete :
  strs_eqb particle_diff_members (nonptr_names particle_members) &&
  strs_eqb varconfig_diff_members (nonptr_names varconfig_members) &&
  bitwise_ok particle_members particle_diff_members particle_diff_bitwise &&
  bitwise_ok varconfig_members varconfig_diff_members varconfig_diff_bitwise = true.
Proof. vm_compute. reflexivity. Qed.
