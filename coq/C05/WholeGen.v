(* C05 — the whole-table round trip instantiated at the regenerated table, down to bytes. *)
From Coq Require Import NArith List String Bool Arith Lia ZifyBool.
From RV Require Import C05.Types C05.Model C05.Table C05.Codec C05.Roundtrip C05.Whole C05.Run Gen.Descriptors.
Import ListNotations.
Open Scope N_scope.

Lemma gen_whole_table_ok : whole_table_okb legacy_maxrad_id fp_id table = true.
Proof. vm_compute. reflexivity. Qed.

Notation gen_mem_wf := (mem_wf particle_size table).
Notation gen_init_ok := (init_ok table).

(* the 64-byte header, read as the pseudo-field "header", changes no member *)
Lemma gen_header_writes_nothing : forall pl, writes legacy_maxrad_id table (mkfield hdr_id pl) = [].
Proof.
  intros pl. unfold writes. cbn [f_type f_payload].
  assert (E : find_desc table hdr_id = Some (mkdesc 1329743186 DOther "header" "" "" 0)) by (vm_compute; reflexivity).
  rewrite E. cbn [d_dt]. assert (E2 : (hdr_id =? legacy_maxrad_id) = false) by (vm_compute; reflexivity).
  rewrite E2. reflexivity.
Qed.

Definition field_okb (f : field) : bool :=
  (f_type f <? 4294967296) && negb (f_type f =? end_id) && negb (f_type f =? hdr_id) && (len (f_payload f) <? 18446744073709551616).
Lemma field_okb_ok : forall fs, forallb field_okb fs = true -> Forall (field_ok hdr_id end_id) fs.
Proof.
  intros fs H. apply Forall_forall. intros f Hf. rewrite forallb_forall in H. specialize (H f Hf).
  unfold field_okb in H. unfold field_ok. lia.
Qed.

(* Save to bytes, frame, read into an initial memory, write again: same persisted view, same bytes. *)
Theorem gen_bytes_roundtrip : forall m m0 fp h60,
  gen_mem_wf m -> gen_init_ok m0 -> List.length h60 = 60%nat ->
  Forall (field_ok hdr_id end_id) (gen_view m fp) ->
  let hdr := le_enc 4 hdr_id ++ h60 in
  let b := encode end_id trailer_size hdr (gen_view m fp) in
  exists fs, decode hdr_id end_id b = Some (fs, repeat 0 (N.to_nat trailer_size)) /\
             gen_view (rfields legacy_maxrad_id table m0 fs) fp = gen_view m fp /\
             encode end_id trailer_size hdr (gen_view (rfields legacy_maxrad_id table m0 fs) fp) = b.
Proof.
  intros m m0 fp h60 Hwf Hinit Hl Hok hdr b.
  exists (mkfield hdr_id (skipn 12 h60) :: gen_view m fp).
  assert (Hd : decode hdr_id end_id b = Some (mkfield hdr_id (skipn 12 h60) :: gen_view m fp, repeat 0 (N.to_nat trailer_size))).
  { unfold b, hdr. apply decode_encode; auto; vm_compute; try reflexivity; discriminate. }
  assert (Hv : gen_view (rfields legacy_maxrad_id table m0 (mkfield hdr_id (skipn 12 h60) :: gen_view m fp)) fp = gen_view m fp).
  { unfold rfields. cbn [flat_map]. rewrite gen_header_writes_nothing. cbn [app].
    unfold gen_view. apply (whole_view_roundtrip particle_size legacy_maxrad_id fp_id table gen_whole_table_ok); auto. }
  split; [exact Hd|]. split; [exact Hv|]. unfold b. rewrite Hv. reflexivity.
Qed.

(* ---------- non-vacuity: a concrete memory for the generated table (one particle, everything else default) *)
Definition default_writes (d : desc) : list (key * mval) :=
  match simple_size particle_size (d_dt d) with
  | Some sz => [((d_member d, O), MB (repeat 0 (N.to_nat sz)))]
  | None => if is_arr (d_dt d) then [((d_count d, O), MB [0; 0; 0; 0])] else []
  end.
Definition example_mem : key -> mval :=
  apply_writes empty_mem (flat_map default_writes (live table) ++
                          [(("N"%string, O), MB [1; 0; 0; 0]); (("particles"%string, O), MP (Some (repeat 7 128)))]).

Lemma example_mem_wf : gen_mem_wf example_mem /\ gen_init_ok empty_mem /\
                       Forall (field_ok hdr_id end_id) (gen_view example_mem false) /\
                       List.length (gen_view example_mem false) = 121%nat.
Proof.
  split; [|split; [|split]].
  - assert (H : forallb (mem_okb particle_size example_mem) (live table) = true) by (vm_compute; reflexivity).
    intros d Hd. rewrite forallb_forall in H. auto.
  - assert (H : forallb (init_okb empty_mem) (live table) = true) by (vm_compute; reflexivity).
    intros d Hd. rewrite forallb_forall in H. auto.
  - apply field_okb_ok. vm_compute. reflexivity.
  - vm_compute. reflexivity.
Qed.

(* ---------- delta snapshots: non-vacuity of C05.Delta.delta_roundtrip on the regenerated table.
   a = example_mem plus a WHFast Jacobi array of one particle; b = the same state after reset_integrator()
   (p_jh absent, N_allocated 0) and with a different time. *)
From RV Require Import C05.Delta.
Definition example_a : key -> mval :=
  apply_writes example_mem [(("ri_whfast.N_allocated"%string, O), MB [1; 0; 0; 0]); (("ri_whfast.p_jh"%string, O), MP (Some (repeat 9 128)))].
Definition example_b : key -> mval :=
  apply_writes example_mem [(("t"%string, O), MB [1; 2; 3; 4; 5; 6; 7; 8]); (("ri_whfast.p_jh"%string, O), MP (Some []))].
Definition arrays_zero_length (m : key -> mval) : key -> mval :=
  fun k => match m k with MP None => if existsb (fun d => existsb (key_eqb k) (parts d)) (live table) then MP (Some []) else MP None | v => v end.

Lemma example_delta :
  mem_wf particle_size table example_a /\ mem_wf particle_size table (arrays_zero_length example_b) /\
  absent_normal table (arrays_zero_length example_b) /\
  In (mkfield 104 []) (delta (flat_map (wdesc particle_size example_a) (live table))
                             (flat_map (wdesc particle_size (arrays_zero_length example_b)) (live table))) /\
  List.length (delta (flat_map (wdesc particle_size example_a) (live table))
                     (flat_map (wdesc particle_size (arrays_zero_length example_b)) (live table))) = 2%nat.
Proof.
  assert (A : forallb (mem_okb particle_size example_a) (live table) = true) by (vm_compute; reflexivity).
  assert (B : forallb (mem_okb particle_size (arrays_zero_length example_b)) (live table) = true) by (vm_compute; reflexivity).
  assert (C : forallb (absent_okb (arrays_zero_length example_b)) (live table) = true) by (vm_compute; reflexivity).
  rewrite forallb_forall in A, B, C.
  split; [exact A|]. split; [exact B|]. split; [exact C|].
  split; vm_compute; auto.
Qed.

(* ---------- corner N = 0: the memory of an empty simulation (no particle array, every count 0) is well-formed *)
Definition empty_sim_mem : key -> mval := apply_writes empty_mem (flat_map default_writes (live table)).
Lemma empty_sim_corner : mem_wf particle_size table empty_sim_mem /\ absent_normal table (arrays_zero_length empty_sim_mem) /\
  List.length (gen_view empty_sim_mem false) = 120%nat /\
  flookup (gen_view empty_sim_mem false) (id_of_name table "particles") = None.
Proof.
  assert (A : forallb (mem_okb particle_size empty_sim_mem) (live table) = true) by (vm_compute; reflexivity).
  assert (C : forallb (absent_okb (arrays_zero_length empty_sim_mem)) (live table) = true) by (vm_compute; reflexivity).
  rewrite forallb_forall in A, C. split; [exact A|]. split; [exact C|]. split; vm_compute; reflexivity.
Qed.
