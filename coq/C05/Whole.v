(* C05 — whole-table round trip: reader tbl m0 (writer tbl m) has the same persisted view as m, for every
   well-formed table and every well-formed ("compact") memory; count members shared by several array fields
   (ri_ias15.N_allocated, N) are handled because every member write of the reader re-creates the value the writer read. *)
From Coq Require Import NArith List String Bool Arith Lia ZifyBool.
From RV Require Import C05.Types C05.Model C05.Codec C05.Roundtrip.
Import ListNotations.
Open Scope N_scope.

Lemma dtype_eqb_eq : forall a b, dtype_eqb a b = true -> a = b.
Proof. destruct a, b; cbn; intros H; try reflexivity; discriminate. Qed.

Definition desc_eqb (a b : desc) : bool :=
  (d_id a =? d_id b) && dtype_eqb (d_dt a) (d_dt b) && String.eqb (d_name a) (d_name b) &&
  String.eqb (d_member a) (d_member b) && String.eqb (d_count a) (d_count b) && (d_esize a =? d_esize b).

Lemma desc_eqb_eq : forall a b, desc_eqb a b = true -> a = b.
Proof.
  intros [i1 t1 n1 m1 c1 e1] [i2 t2 n2 m2 c2 e2]. unfold desc_eqb. cbn [d_id d_dt d_name d_member d_count d_esize].
  rewrite !andb_true_iff. intros [[[[[H1 H2] H3] H4] H5] H6].
  apply N.eqb_eq in H1, H6. apply dtype_eqb_eq in H2. apply String.eqb_eq in H3, H4, H5. subst. reflexivity.
Qed.

Definition key_dec : forall a b : key, {a = b} + {a <> b}.
Proof. decide equality; [apply Nat.eq_dec | apply string_dec]. Defined.

Definition is_arr (dt : dtype) : bool := match dt with DPointer | DPointerAligned | DDp7 => true | _ => false end.

Section Whole.
Variable psz legacy fpid : N.
Variable tbl : list desc.
Notation L := (live tbl).
Notation mview m := (flat_map (wdesc psz m) L).
Notation W m := (flat_map (writes legacy tbl) (mview m)).

(* ---------- well-formedness of the table (decidable; computed for the generated table) *)
Definition row_okb (d : desc) : bool :=
  match find_desc tbl (d_id d) with Some d' => desc_eqb d d' | None => false end &&
  (negb (is_arr (d_dt d)) || ((0 <? d_esize d) && (d_esize d mod nparts d =? 0))).
Definition fixed_okb (d : desc) : bool := negb (dtype_eqb (d_dt d) DPointerFixed) || (0 <? d_esize d).

Definition whole_table_okb : bool :=
  forallb row_okb L &&
  (forallb fixed_okb L &&
   match writes legacy tbl (fp_field fpid true), writes legacy tbl (fp_field fpid false) with [], [] => true | _, _ => false end).

(* ---------- well-formedness of a memory: the persisted state.  Arrays hold exactly count*element_size bytes
   (allocation slack beyond the count is not part of the persisted state; the per-descriptor theorem
   C05_field_roundtrip covers memories with slack), count members are 4 little-endian bytes, simple members have
   the size of their dtype, fixed-size pointers are NULL or hold element_size bytes. *)
Definition mem_okb (m : key -> mval) (d : desc) : bool :=
  match d_dt d with
  | DPointer | DPointerAligned | DDp7 =>
      match m (d_count d, O) with
      | MB cb =>
          (List.length cb =? 4)%nat && forallb (fun b => b <? 256) cb &&
          (count_of m d * d_esize d <? 4294967296) &&
          forallb (fun k => (count_of m d * d_esize d =? 0) ||
                            match m k with MP (Some b) => len b =? count_of m d * d_esize d / nparts d | _ => false end) (parts d)
      | _ => false
      end
  | DPointerFixed => match m (d_member d, O) with MP None => true | MP (Some b) => len b =? d_esize d | MB _ => false end
  | DOther | DEnd => true
  | dt => match simple_size psz dt, m (d_member d, O) with
          | Some sz, MB b => len b =? sz
          | _, _ => false
          end
  end.
Definition mem_wf (m : key -> mval) : Prop := forall d, In d L -> mem_okb m d = true.

(* the memory the reader starts from (reb_simulation_init): array counts 0, fixed-size pointers NULL *)
Definition init_okb (m0 : key -> mval) (d : desc) : bool :=
  match d_dt d with
  | DPointer | DPointerAligned | DDp7 => count_of m0 d =? 0
  | DPointerFixed => match m0 (d_member d, O) with MP None => true | _ => false end
  | _ => true
  end.
Definition init_ok (m0 : key -> mval) : Prop := forall d, In d L -> init_okb m0 d = true.

Hypothesis Htbl : whole_table_okb = true.

Lemma row_ok : forall d, In d L -> row_okb d = true.
Proof.
  intros d Hd. unfold whole_table_okb in Htbl. apply andb_true_iff in Htbl. destruct Htbl as [H _].
  rewrite forallb_forall in H. auto.
Qed.

Lemma fixed_ok : forall d, In d L -> d_dt d = DPointerFixed -> 0 < d_esize d.
Proof.
  intros d Hd E. unfold whole_table_okb in Htbl. apply andb_true_iff in Htbl. destruct Htbl as [_ H].
  apply andb_true_iff in H. destruct H as [H _]. rewrite forallb_forall in H. specialize (H d Hd).
  unfold fixed_okb in H. rewrite E in H. cbn in H. lia.
Qed.

Lemma find_row : forall d, In d L -> find_desc tbl (d_id d) = Some d.
Proof.
  intros d Hd. pose proof (row_ok d Hd) as H. unfold row_okb in H. apply andb_true_iff in H. destruct H as [H _].
  destruct (find_desc tbl (d_id d)) as [d'|]; [|discriminate]. apply desc_eqb_eq in H. subst. reflexivity.
Qed.

Lemma take_all : forall n l, len l = n -> take n l = l.
Proof. intros n l H. unfold take, len in *. apply firstn_all2. lia. Qed.

(* ---------- every member write of the reader, fed with the writer's fields, re-creates the value the writer read *)
Lemma writes_are_values : forall m d f k v, mem_wf m -> In d L -> In f (wdesc psz m d) -> In (k, v) (writes legacy tbl f) -> v = m k.
Proof.
  intros m d f k v Hwf Hd Hf Hkv.
  pose proof (Hwf d Hd) as Hm. pose proof (row_ok d Hd) as Hr. pose proof (find_row d Hd) as Hfind.
  unfold row_okb in Hr. apply andb_true_iff in Hr. destruct Hr as [_ Hr].
  unfold wdesc in Hf. unfold mem_okb in Hm. unfold writes in Hkv.
  destruct (d_dt d) eqn:Edt; cbn [simple_size is_arr negb orb] in *;
    try contradiction;
    (* simple *)
    try (destruct (m (d_member d, O)) as [b|] eqn:Em; [|discriminate Hm]; apply N.eqb_eq in Hm;
         destruct Hf as [<-|[]]; cbn [f_type f_payload] in Hkv; rewrite Hfind, Edt in Hkv;
         destruct Hkv as [Hkv|[]]; inversion Hkv; subst; cbn [vbytes]; rewrite Em; cbn [vbytes]; rewrite take_all by auto; reflexivity).
  (* arrays: goals 1,2,4; fixed: goal 3 *)
  1,2,4: (
    destruct (m (d_count d, O)) as [cb|] eqn:Ec; [|discriminate Hm];
    apply andb_true_iff in Hm; destruct Hm as [Hm Hparts];
    apply andb_true_iff in Hm; destruct Hm as [Hm Hlt];
    apply andb_true_iff in Hm; destruct Hm as [Hl4 Hb];
    apply andb_true_iff in Hr; destruct Hr as [Hes Hmod];
    set (sz := count_of m d * d_esize d) in *;
    destruct (sz =? 0) eqn:Esz; [contradiction|];
    destruct Hf as [<-|[]]; cbn [f_type f_payload] in Hkv; rewrite Hfind, Edt in Hkv;
    set (q := sz / nparts d) in *;
    assert (Hpart : forall k0, In k0 (parts d) -> exists b, m k0 = MP (Some b) /\ len b = q)
      by (intros k0 Hk0; rewrite forallb_forall in Hparts; specialize (Hparts k0 Hk0); try rewrite Esz in Hparts;
          cbn [orb] in Hparts; destruct (m k0) as [|[b|]]; try discriminate; exists b; split; auto; apply N.eqb_eq; auto);
    assert (Hlen : forall k0, In k0 (parts d) -> q <= len (vbytes (m k0)))
      by (intros k0 Hk0; destruct (Hpart k0 Hk0) as [b [E1 E2]]; rewrite E1; cbn [vbytes]; lia);
    pose proof (nparts_pos_array d) as Hnp; rewrite Edt in Hnp;
    assert (Hq : nparts d * q = sz)
      by (unfold q; pose proof (N.div_mod sz (nparts d));
          assert (sz mod nparts d = 0)
            by (unfold sz; rewrite N.mul_mod by lia; replace (d_esize d mod nparts d) with 0 by lia;
                rewrite N.mul_0_r; apply N.mod_0_l; lia); lia);
    assert (Hl : len (flat_map (fun k0 => take q (vbytes (m k0))) (parts d)) = sz)
      by (rewrite (len_concat_parts (fun k0 => vbytes (m k0)) q (parts d) Hlen); fold (nparts d); lia);
    rewrite Hl in Hkv; fold q in Hkv;
    rewrite (split_parts_concat (fun k0 => vbytes (m k0)) q (parts d) Hlen) in Hkv;
    apply in_app_or in Hkv; destruct Hkv as [Hkv|[Hkv|[]]];
    [ apply in_map_iff in Hkv; destruct Hkv as [k0 [E Hk0]]; inversion E; subst;
      destruct (Hpart k Hk0) as [b [E1 E2]]; rewrite E1; cbn [vbytes]; rewrite take_all by auto; reflexivity
    | assert (Hcv : sz mod 4294967296 / d_esize d = count_of m d)
        by (rewrite N.mod_small by lia; unfold sz; apply N.div_mul; lia);
      rewrite Hcv in Hkv;
      assert (Henc : le_enc 4 (count_of m d) = cb)
        by (unfold count_of; rewrite Ec; cbn [vbytes];
            assert (E4 : List.length cb = 4%nat) by (apply Nat.eqb_eq; auto);
            rewrite <- E4; apply le_enc_dec;
            apply Forall_forall; intros x Hx; rewrite forallb_forall in Hb; specialize (Hb x Hx); lia);
      rewrite Henc in Hkv; inversion Hkv; subst; rewrite Ec; reflexivity ]).
  (* fixed *)
  destruct (m (d_member d, O)) as [b|[b|]] eqn:Em; try discriminate Hm; try contradiction.
  apply N.eqb_eq in Hm. destruct Hf as [<-|[]]. cbn [f_type f_payload] in Hkv. rewrite Hfind, Edt in Hkv.
  pose proof (fixed_ok d Hd Edt) as Hpos.
  destruct Hkv as [Hkv|[]]. rewrite take_all in Hkv by auto. rewrite Hm in Hkv.
  destruct (d_esize d =? 0) eqn:E0; [apply N.eqb_eq in E0; lia|].
  inversion Hkv; subst. rewrite Em. reflexivity.
Qed.

Lemma W_values : forall m k v, mem_wf m -> In (k, v) (W m) -> v = m k.
Proof.
  intros m k v Hwf H. apply in_flat_map in H. destruct H as [f [Hf Hkv]].
  apply in_flat_map in Hf. destruct Hf as [d [Hd Hf]]. eapply writes_are_values; eauto.
Qed.

(* ---------- after any sequence of writes that all carry m-values, each key holds m's value or the initial one *)
Lemma apply_writes_agree : forall (m : key -> mval) w m0 k,
  (forall k' v, In (k', v) w -> v = m k') -> In k (map fst w) -> apply_writes m0 w k = m k.
Proof.
  induction w as [|[k1 v1] w IH]; intros m0 k Hv Hin; [inversion Hin|].
  cbn [apply_writes fold_left fst snd]. change (apply_writes (upd m0 k1 v1) w k = m k).
  destruct (in_dec key_dec k (map fst w)) as [Hi|Hn].
  - apply IH; auto. intros; apply Hv; right; auto.
  - rewrite apply_writes_notin by auto. cbn [map fst] in Hin. destruct Hin as [<-|Hin]; [|contradiction].
    unfold upd. rewrite key_eqb_refl. apply Hv. left; reflexivity.
Qed.

Lemma final_value : forall m m0 k, mem_wf m ->
  let fin := apply_writes m0 (W m) in fin k = m k \/ (fin k = m0 k /\ ~ In k (map fst (W m))).
Proof.
  intros m m0 k Hwf fin. destruct (in_dec key_dec k (map fst (W m))) as [Hi|Hn].
  - left. apply apply_writes_agree; auto. intros; eapply W_values; eauto.
  - right. split; auto. apply apply_writes_notin; auto.
Qed.

Lemma written : forall m d f k v, In d L -> In f (wdesc psz m d) -> In (k, v) (writes legacy tbl f) -> In k (map fst (W m)).
Proof.
  intros m d f k v Hd Hf Hkv. apply in_map_iff. exists (k, v). split; auto.
  apply in_flat_map. exists f. split; auto. apply in_flat_map. exists d. auto.
Qed.

(* ---------- the writer sees the same thing in the restored memory, descriptor by descriptor *)
Lemma wdesc_restored : forall m m0 d, mem_wf m -> init_ok m0 -> In d L ->
  wdesc psz (apply_writes m0 (W m)) d = wdesc psz m d.
Proof.
  intros m m0 d Hwf Hinit Hd. set (fin := apply_writes m0 (W m)).
  pose proof (Hwf d Hd) as Hm. pose proof (Hinit d Hd) as Hi. pose proof (find_row d Hd) as Hfind.
  pose proof (row_ok d Hd) as Hr. unfold row_okb in Hr. apply andb_true_iff in Hr. destruct Hr as [_ Hr].
  assert (Hfv := fun k => final_value m m0 k Hwf). fold fin in Hfv.
  unfold mem_okb in Hm. unfold init_okb in Hi.
  unfold wdesc. destruct (d_dt d) eqn:Edt; cbn [simple_size is_arr negb orb] in *; try reflexivity;
    try (destruct (Hfv (d_member d, O)) as [E|[_ Hn]]; [rewrite E; reflexivity|];
         exfalso; apply Hn;
         eapply written with (d := d) (f := mkfield (d_id d) (take _ (vbytes (m (d_member d, O)))));
         [ exact Hd
         | unfold wdesc; rewrite Edt; cbn [simple_size]; left; reflexivity
         | unfold writes; cbn [f_type f_payload]; rewrite Hfind, Edt; left; reflexivity ]).
  1,2,4: (

    destruct (m (d_count d, O)) as [cb|] eqn:Ec; [|discriminate Hm];
    set (sz := count_of m d * d_esize d) in *;
    destruct (sz =? 0) eqn:Esz;
    [ (* not emitted: the count stays 0 *)
      assert (Hc0 : count_of fin d * d_esize d = 0)
        by (destruct (Hfv (d_count d, O)) as [E|[E _]];
            [ unfold count_of; rewrite E; fold (count_of m d); apply N.eqb_eq in Esz; exact Esz
            | unfold count_of; rewrite E; fold (count_of m0 d); apply N.eqb_eq in Hi; rewrite Hi; reflexivity ]);
      rewrite Hc0; reflexivity
    | (* emitted: count and all parts were written with m's values *)
      set (f := mkfield (d_id d) (flat_map (fun k => take (sz / nparts d) (vbytes (m k))) (parts d)));
      assert (Hwd : wdesc psz m d = [f]) by (unfold wdesc; rewrite Edt; fold sz; rewrite Esz; reflexivity);
      assert (Hkeys : forall k, k = (d_count d, O) \/ In k (parts d) -> fin k = m k)
        by (intros k Hk; destruct (Hfv k) as [E|[_ Hn]]; [exact E|]; exfalso; apply Hn;
            assert (Hw : In k (map fst (writes legacy tbl f)))
              by (unfold writes, f; cbn [f_type f_payload]; rewrite Hfind, Edt; rewrite map_app; apply in_or_app;
                  destruct Hk as [->|Hk]; [right; left; reflexivity|];
                  left; clear - Hk; revert Hk;
                  generalize (len (flat_map (fun k0 => take (sz / nparts d) (vbytes (m k0))) (parts d)) / nparts d);
                  generalize (flat_map (fun k0 => take (sz / nparts d) (vbytes (m k0))) (parts d));
                  induction (parts d) as [|k1 ks IHks]; intros pl q Hk; [inversion Hk|];
                  cbn [split_parts map fst]; destruct Hk as [->|Hk]; [left; reflexivity|right; apply IHks; auto]);
            apply in_map_iff in Hw; destruct Hw as [[k' v'] [E Hw]]; cbn [fst] in E; subst k';
            eapply written with (f := f); eauto; rewrite Hwd; left; reflexivity);
      assert (Hc : count_of fin d = count_of m d) by (unfold count_of; rewrite Hkeys by (left; reflexivity); reflexivity);
      rewrite Hc; fold sz; rewrite Esz; f_equal; unfold f; f_equal;
      apply flat_map_ext_in'; intros k Hk; rewrite Hkeys by (right; exact Hk); reflexivity ]).
  (* fixed-size pointer *)
  destruct (Hfv (d_member d, O)) as [E|[E Hn]]; [rewrite E; reflexivity|].
  rewrite E. destruct (m0 (d_member d, O)) as [|[|]] eqn:E0; try discriminate Hi.
  destruct (m (d_member d, O)) as [b|[b|]] eqn:Em; try discriminate Hm; try reflexivity.
  exfalso. apply Hn. eapply written with (f := mkfield (d_id d) (take (d_esize d) b)); eauto.
  - unfold wdesc. rewrite Edt, Em. left; reflexivity.
  - unfold writes. cbn [f_type f_payload]. rewrite Hfind, Edt. left; reflexivity.
Qed.

Lemma flat_map_ext_in2 : forall {A B} (f g : A -> list B) l, (forall a, In a l -> f a = g a) -> flat_map f l = flat_map g l.
Proof. intros. apply flat_map_ext_in'. auto. Qed.

(* ---------- the theorem: for every well-formed table, well-formed memory and admissible initial memory,
   the fields the reader gets from the writer's output, applied to the initial memory, give a memory that the
   writer maps to the same fields (whatever the function-pointer flag is; the flag itself is not restored). *)
Theorem whole_roundtrip : forall m m0 fp, mem_wf m -> init_ok m0 ->
  flat_map (wdesc psz (rfields legacy tbl m0 (view psz fpid tbl (mkstate m fp)))) L = flat_map (wdesc psz m) L.
Proof.
  intros m m0 fp Hwf Hinit. unfold rfields, view. cbn [mem fp_used].
  rewrite flat_map_app. cbn [flat_map]. rewrite app_nil_r.
  assert (Hfp : writes legacy tbl (fp_field fpid fp) = []).
  { unfold whole_table_okb in Htbl. apply andb_true_iff in Htbl. destruct Htbl as [_ H].
    apply andb_true_iff in H. destruct H as [_ H].
    destruct (writes legacy tbl (fp_field fpid true)) eqn:E1; [|discriminate].
    destruct (writes legacy tbl (fp_field fpid false)) eqn:E2; [|discriminate].
    destruct fp; auto. }
  rewrite Hfp, app_nil_r.
  apply flat_map_ext_in2. intros d Hd. apply wdesc_restored; auto.
Qed.

Corollary whole_view_roundtrip : forall m m0 fp, mem_wf m -> init_ok m0 ->
  view psz fpid tbl (mkstate (rfields legacy tbl m0 (view psz fpid tbl (mkstate m fp))) fp) = view psz fpid tbl (mkstate m fp).
Proof. intros. unfold view at 1 3. cbn [mem fp_used]. rewrite whole_roundtrip; auto. Qed.

End Whole.
