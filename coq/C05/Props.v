(* C05 property theorems ONLY (each closed by an already proved lemma) + assumptions. *)
From Coq Require Import NArith List String Bool.
From RV Require Import C05.Types C05.Model C05.Exempt C05.Table C05.Codec C05.Roundtrip C05.Whole C05.Delta C05.Run C05.WholeGen C05.ReadSets Gen.Descriptors Gen.ReadSets.
Import ListNotations.
Open Scope N_scope.

(* 1. Framing: the reader's field loop applied to a complete stream written by the writer (64-byte header
   starting with the header id, any list of fields with 32-bit types other than END/header and 64-bit sizes,
   END, trailer) returns the header pseudo-field, exactly the written fields, and the trailer. Unbounded. *)
Theorem C05_decode_encode : forall hdr_id end_id trailer_size h60 fs,
  hdr_id < 4294967296 -> end_id < 4294967296 -> hdr_id <> end_id ->
  List.length h60 = 60%nat ->
  Forall (field_ok hdr_id end_id) fs ->
  decode hdr_id end_id (encode end_id trailer_size (le_enc 4 hdr_id ++ h60) fs)
  = Some (mkfield hdr_id (skipn 12 h60) :: fs, repeat 0 (N.to_nat trailer_size)).
Proof. exact decode_encode. Qed.
Print Assumptions C05_decode_encode.

(* 2. Per descriptor, every dtype class (simple, pointer + count member, REB_DP7 seven-way split, fixed-size
   pointer), every table: reading the field written for d into ANY memory m' and writing d again gives the
   same field (so save(load(save s)) repeats that field, and the restored value is bitwise the saved one). *)
Theorem C05_field_roundtrip : forall psz legacy tbl d m m' f,
  find_desc tbl (d_id d) = Some d ->
  desc_wf psz m d ->
  wdesc psz m d = [f] ->
  wdesc psz (apply_writes m' (writes legacy tbl f)) d = [f].
Proof. exact field_roundtrip. Qed.
Print Assumptions C05_field_roundtrip.

(* 3. The reader's fix-up of pointer members inside particle / var_config records changes nothing that
   survives the pointer mask, whatever addresses it writes. *)
Theorem C05_fixup_invisible_under_mask : forall specs g f, mask_field specs (fix_field specs g f) = mask_field specs f.
Proof. exact mask_fix_field. Qed.
Print Assumptions C05_fixup_invisible_under_mask.

(* 4. Facts about the table and structs of the CURRENT tree (regenerated; by computation):
   unique ids, disjoint members, count members 4 bytes wide, END last; framing constants of
   struct reb_binary_field; writer's size per dtype = sizeof of the member it copies. *)
Theorem C05_table_ok : table_ok particle_size fp_id end_id hdr_id legacy_maxrad_id table = true.
Proof. exact gen_table_ok. Qed.
Print Assumptions C05_table_ok.

Theorem C05_framing_constants :
  binary_field_size = 16 /\ binary_field_type_off = 0 /\ binary_field_type_size = 4 /\
  binary_field_size_off = 8 /\ binary_field_size_size = 8 /\ trailer_size = 12 /\ header_size = 64.
Proof. exact gen_framing. Qed.
Print Assumptions C05_framing_constants.

Theorem C05_sizes_agree : forallb size_agrees (live table) = true.
Proof. exact gen_sizes_agree. Qed.
Print Assumptions C05_sizes_agree.

(* 5. Completeness of the persisted set, full strength on the current tree: every member of struct reb_simulation
   and of the nested integrator structs is written by the regenerated table (as a member or as the count member of
   an array field) or is in the hand-audited exempt list with a reason class.  A new member that is neither in the
   table nor audited breaks this theorem at the next run; the exempt list is exact (no stale entries); the list
   known_gaps (members that are state but not persisted = open findings) is empty. *)
Theorem C05_persisted_complete :
  forall m, In m sim_members -> persisted table (m_path m) = true \/ is_exempt (m_path m) = true.
Proof.
  intros m Hin. pose proof gen_persisted_complete as H. rewrite forallb_forall in H. specialize (H m Hin).
  apply orb_true_iff in H. destruct H as [H|H].
  - apply orb_true_iff in H. tauto.
  - exfalso. unfold is_gap in H. apply existsb_exists in H. destruct H as [x [Hx _]]. exact Hx.
Qed.
Print Assumptions C05_persisted_complete.

Theorem C05_exempt_list_exact :
  forallb (fun e => match member_of sim_members (fst e) with Some _ => negb (persisted table (fst e)) | None => false end) exempt
  && nodupb String.eqb (map fst exempt)
  && forallb (fun g => match member_of sim_members g with Some _ => negb (persisted table g) && negb (is_exempt g) | None => false end) known_gaps
  = true.
Proof. exact gen_exempt_exact. Qed.
Print Assumptions C05_exempt_list_exact.

(* 6. WHOLE TABLE.  For every table satisfying the decidable condition whole_table_okb (each row is found under its
   own id; array rows have a positive element size divisible by their number of parts; the function-pointer flag
   field changes no member), every well-formed memory m (simple members of their dtype size, 4-byte little-endian
   count members - possibly SHARED by several array rows like ri_ias15.N_allocated or N -, arrays of exactly
   count*element_size bytes, fixed pointers NULL or element_size bytes) and every initial memory m0 with zero array
   counts and NULL fixed pointers: reading the writer's fields into m0 gives a memory with the same persisted view.
   Proof: every member write of the reader re-creates the value the writer read (writes_are_values), so each key of
   the restored memory holds m's value or the untouched initial one; then case split per dtype class. *)
Theorem C05_whole_roundtrip : forall psz legacy fpid tbl, whole_table_okb legacy fpid tbl = true ->
  forall m m0 fp, mem_wf psz tbl m -> init_ok tbl m0 ->
  view psz fpid tbl (mkstate (rfields legacy tbl m0 (view psz fpid tbl (mkstate m fp))) fp) = view psz fpid tbl (mkstate m fp).
Proof. exact whole_view_roundtrip. Qed.
Print Assumptions C05_whole_roundtrip.

Theorem C05_whole_table_ok_gen : whole_table_okb legacy_maxrad_id fp_id table = true.
Proof. exact gen_whole_table_ok. Qed.
Print Assumptions C05_whole_table_ok_gen.

(* 7. Down to bytes, for the regenerated table: encode the view, run the reader's framing loop, apply the fields to
   an initial memory, write again: the persisted view is the same (roundtrip) and the bytes are the same
   (rewrite_stable: writer (reader (writer s)) = writer s). *)
Theorem C05_bytes_roundtrip_and_rewrite_stable : forall m m0 fp h60,
  mem_wf particle_size table m -> init_ok table m0 -> List.length h60 = 60%nat ->
  Forall (field_ok hdr_id end_id) (gen_view m fp) ->
  let hdr := le_enc 4 hdr_id ++ h60 in
  let b := encode end_id trailer_size hdr (gen_view m fp) in
  exists fs, decode hdr_id end_id b = Some (fs, repeat 0 (N.to_nat trailer_size)) /\
             gen_view (rfields legacy_maxrad_id table m0 fs) fp = gen_view m fp /\
             encode end_id trailer_size hdr (gen_view (rfields legacy_maxrad_id table m0 fs) fp) = b.
Proof. exact gen_bytes_roundtrip. Qed.
Print Assumptions C05_bytes_roundtrip_and_rewrite_stable.

(* non-vacuity of 6 and 7: a concrete memory for the regenerated table (one particle), the empty initial memory *)
Example C05_whole_hypotheses_inhabited :
  mem_wf particle_size table example_mem /\ init_ok table empty_mem /\
  Forall (field_ok hdr_id end_id) (gen_view example_mem false) /\ List.length (gen_view example_mem false) = 121%nat.
Proof. exact example_mem_wf. Qed.

(* 8. DELTA SNAPSHOTS (Simulationarchive blobs k >= 1 = reb_binary_diff output_option 0 against snapshot 0).
   delta fs1 fs2 = vanished fields of fs1 as headers with size 0, changed fields from fs2, new fields of fs2.
   For every well-formed table, memories a (snapshot 0) and b (live state when the blob was written): reading
   delta(view a, view b) into a gives the persisted view of b - ALSO when b lacks arrays that a has (reset_integrator,
   integrator switch, MERCURIUS removal): the reader's semantics of a size-0 array field is realloc(ptr,0) and
   count member := 0 (vanished_writes_values), so the writer omits the field again; a vanished fixed-size pointer
   (display_settings) becomes NULL (realloc(ptr,0) frees and returns NULL on glibc; confirmed on the library, also
   under ASan).  Hypothesis: absent arrays of b are zero-length arrays (model convention).  (Fields between the header
   and the function-pointer flag; the flag field writes no member, see whole_table_okb.) *)
Theorem C05_delta_roundtrip : forall psz legacy fpid tbl, whole_table_okb legacy fpid tbl = true ->
  forall a b, mem_wf psz tbl a -> mem_wf psz tbl b -> absent_normal tbl b ->
  flat_map (wdesc psz (rfields legacy tbl a (delta (flat_map (wdesc psz a) (live tbl)) (flat_map (wdesc psz b) (live tbl))))) (live tbl)
  = flat_map (wdesc psz b) (live tbl).
Proof. exact delta_roundtrip. Qed.
Print Assumptions C05_delta_roundtrip.

(* non-vacuity of 8 on the regenerated table: a holds a WHFast Jacobi array, b is the state after
   reset_integrator(); the delta consists of the changed time and the vanished marker of field 104 *)
Example C05_delta_hypotheses_inhabited :
  mem_wf particle_size table example_a /\ mem_wf particle_size table (arrays_zero_length example_b) /\
  absent_normal table (arrays_zero_length example_b) /\
  In (mkfield 104 []) (delta (flat_map (wdesc particle_size example_a) (live table))
                             (flat_map (wdesc particle_size (arrays_zero_length example_b)) (live table))) /\
  List.length (delta (flat_map (wdesc particle_size example_a) (live table))
                     (flat_map (wdesc particle_size (arrays_zero_length example_b)) (live table))) = 2%nat.
Proof. exact example_delta. Qed.

(* 9. CONTINUATION, the part a model without step functions can carry.  Read sets are regenerated from the clang AST
   of every src/*.c file (a member occurrence is a read unless it is the left side of a plain assignment).
   (a) every member that ANY code reads is persisted, re-derived by the reader, or exempt;
   (b) every read of an EXEMPT member happens in a source file that the audit (Exempt.exempt_readers, one reviewed
       entry per exempt member) allows: when an integrator starts reading a non-persisted member that so far only its
       owner module touched - the way TRACE came to read the capacity N_allocated_collisions as a flag - this theorem
       fails at the next run and the entry must be re-audited or the member persisted;
   (c) the audit list has exactly one entry per exempt member, and all regenerated names are struct members. *)
Theorem C05_reads_covered :
  forallb (fun mr => persisted table (fst mr) || rederived (fst mr) || is_exempt (fst mr)) member_readers = true.
Proof. exact gen_reads_covered. Qed.
Print Assumptions C05_reads_covered.

Theorem C05_exempt_readers_audited :
  forallb (fun mr => negb (is_exempt (fst mr)) || forallb (allowed_reader (fst mr)) (snd mr)) member_readers = true.
Proof. exact gen_exempt_readers_audited. Qed.
Print Assumptions C05_exempt_readers_audited.

Theorem C05_exempt_readers_exact :
  forallb (fun e => existsb (fun r => String.eqb (fst r) (fst e)) exempt_readers) exempt &&
  forallb (fun r => is_exempt (fst r)) exempt_readers &&
  forallb (fun mr => match member_of sim_members (fst mr) with Some _ => true | None => false end) (member_readers ++ member_writers) = true.
Proof. exact gen_exempt_readers_exact. Qed.
Print Assumptions C05_exempt_readers_exact.

(* 10. CORNERS of the quantified space, stated explicitly.
   (a) N = 0: the memory of an empty simulation satisfies mem_wf (so 6, 7, 8 apply to it); its view has no particles field.
   (b) the empty field list is covered by 1 (induction base); arrays with count 0 are "not written" in 2, 6, 8 (no hypothesis
       excludes them); relink loops with n = 0 records are the identity (8 of C17 quantifies l < n).
   (c) count * element_size >= 2^32 is EXCLUDED by desc_wf / mem_wf.  What the code does there: reb_input_fields computes the
       count as  (unsigned int)field.size / element_size  - the cast binds to field.size - so the 64-bit size is truncated to
       32 bits BEFORE the division: a particles field of 2^32 + 128 bytes (33 554 433 particles) restores N = 1.  The
       arithmetic of the model's formula, for the record: *)
Example C05_empty_simulation_corner :
  mem_wf particle_size table empty_sim_mem /\ absent_normal table (arrays_zero_length empty_sim_mem) /\
  List.length (gen_view empty_sim_mem false) = 120%nat /\
  flookup (gen_view empty_sim_mem false) (id_of_name table "particles") = None.
Proof. exact empty_sim_corner. Qed.

Example C05_count_wraps_beyond_4GiB_corner :
  ((4294967296 + 128) mod 4294967296) / 128 = 1 /\ (4294967296 + 128) / 128 = 33554433.
Proof. split; vm_compute; reflexivity. Qed.

(* Non-vacuity: a DP7 descriptor with two bodies' worth of data satisfies desc_wf and is written. *)
Example C05_hypotheses_inhabited :
  let d := mkdesc 96 DDp7 "ri_ias15.g" "ri_ias15.g" "ri_ias15.N_allocated" 56 in
  let m : key -> mval := fun k => if String.eqb (fst k) "ri_ias15.N_allocated" then MB [2; 0; 0; 0]
                                  else MP (Some (repeat (N.of_nat (snd k)) 16)) in
  desc_wf particle_size m d /\ find_desc table 96 = Some d /\
  exists f, wdesc particle_size m d = [f] /\ len (f_payload f) = 112.
Proof.
  cbv zeta. split; [|split].
  - unfold desc_wf. cbn [d_dt]. repeat split; try (vm_compute; reflexivity).
    + vm_compute. intros H. repeat (destruct H as [H|H]; [discriminate H|]). exact H.
    + intros k Hk. cbn in Hk. repeat (destruct Hk as [Hk|Hk]; [subst k; vm_compute; discriminate|]). contradiction.
  - vm_compute. reflexivity.
  - eexists. split; [vm_compute; reflexivity | vm_compute; reflexivity].
Qed.
