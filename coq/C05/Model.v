(* C05 — executable model of the binary snapshot codec of rebound:
     writer  = reb_simulation_save_to_stream (src/output.c)
     reader  = reb_input_fields             (src/input.c)
   over an abstract simulation state (a finite map from struct members to their bytes / heap arrays).
   The descriptor table is a parameter; the table of the current tree is coq/Gen/Descriptors.v.
   Bytes are N values (< 256 where it matters: stated in the well-formedness predicates). *)
From Coq Require Import NArith List String Bool Arith.
From RV Require Import C05.Types.
Import ListNotations.
Open Scope N_scope.

Definition bytes := list N.

Definition take (n : N) (l : bytes) : bytes := firstn (N.to_nat n) l.
Definition drop (n : N) (l : bytes) : bytes := skipn (N.to_nat n) l.
Definition len (l : bytes) : N := N.of_nat (List.length l).

(* ---------- little endian integers *)
Fixpoint le_enc (k : nat) (v : N) : bytes :=
  match k with O => [] | S k => (v mod 256) :: le_enc k (v / 256) end.
Fixpoint le_dec (l : bytes) : N :=
  match l with [] => 0 | b :: r => b + 256 * le_dec r end.

(* ---------- framing: struct reb_binary_field = { uint32_t type; (4 pad bytes) ; uint64_t size } *)
Record field := mkfield { f_type : N; f_payload : bytes }.

Definition enc_header (ty sz : N) : bytes := le_enc 4 ty ++ [0; 0; 0; 0] ++ le_enc 8 sz.
Definition enc_field (f : field) : bytes := enc_header (f_type f) (len (f_payload f)) ++ f_payload f.

(* The 64-byte file header is read by reb_input_fields as a field whose type is the first four header
   bytes ("REBO" = 1329743186, descriptor "header"); its handler consumes 64-16 further bytes and ignores
   the bogus size.  hdr_id / end_id come from the table. *)
Definition header_rest : N := 48.

Fixpoint dec_fields (fuel : nat) (hdr_id end_id : N) (b : bytes) : option (list field * bytes) :=
  match fuel with
  | O => None
  | S fuel =>
      if (List.length b <? 16)%nat then Some ([], b)                     (* fread returns < 1: end of file *)
      else
        let ty := le_dec (firstn 4 b) in
        let sz := le_dec (firstn 8 (skipn 8 b)) in
        let rest := skipn 16 b in
        if ty =? end_id then Some ([], rest)
        else
          let n := if ty =? hdr_id then header_rest else sz in
          match dec_fields fuel hdr_id end_id (drop n rest) with
          | Some (fs, r) => Some (mkfield ty (take n rest) :: fs, r)
          | None => None
          end
  end.

Definition decode (hdr_id end_id : N) (b : bytes) : option (list field * bytes) :=
  dec_fields (S (List.length b)) hdr_id end_id b.

(* writer framing: 64 header bytes, fields, END with size 0, zeroed struct reb_simulationarchive_blob *)
Definition encode (end_id trailer_size : N) (hdr : bytes) (fs : list field) : bytes :=
  hdr ++ flat_map enc_field fs ++ enc_header end_id 0 ++ repeat 0 (N.to_nat trailer_size).

(* ---------- abstract state: struct members (and the heap arrays they point to) *)
Inductive mval := MB (b : bytes)              (* bytes stored inline in the struct *)
                | MP (o : option bytes).      (* pointer member: NULL or the heap array *)

(* key = member path + part (0 = the member itself; 1..7 = p0..p6 of a struct reb_dp7 member) *)
Definition key := (string * nat)%type.
Definition key_eqb (a b : key) : bool := (String.eqb (fst a) (fst b) && Nat.eqb (snd a) (snd b))%bool.

Record state := mkstate { mem : key -> mval; fp_used : bool }.

Definition upd (m : key -> mval) (k : key) (v : mval) : key -> mval :=
  fun k' => if key_eqb k' k then v else m k'.

Definition vbytes (v : mval) : bytes := match v with MB b => b | MP (Some b) => b | MP None => [] end.

Definition count_of (m : key -> mval) (d : desc) : N := le_dec (vbytes (m (d_count d, O))).

(* part keys of an array-valued field: REB_POINTER / REB_POINTER_ALIGNED have one part (the array), REB_DP7 seven *)
Definition parts (d : desc) : list key :=
  match d_dt d with
  | DPointer | DPointerAligned => [(d_member d, O)]
  | DDp7 => map (fun i => (d_member d, i)) [1; 2; 3; 4; 5; 6; 7]%nat
  | _ => []
  end.
Definition nparts (d : desc) : N := len (map (fun _ => 0) (parts d)).

Section WithSizes.
Variable psz : N.        (* sizeof(struct reb_particle) *)

(* one iteration of the writer's loop over the descriptor list *)
Definition wdesc (m : key -> mval) (d : desc) : list field :=
  match d_dt d with
  | DPointer | DPointerAligned | DDp7 =>
      let sz := count_of m d * d_esize d in
      if sz =? 0 then []
      else [mkfield (d_id d) (flat_map (fun k => take (sz / nparts d) (vbytes (m k))) (parts d))]
  | DPointerFixed =>
      match m (d_member d, O) with
      | MP (Some b) => [mkfield (d_id d) (take (d_esize d) b)]
      | _ => []
      end
  | DOther | DEnd => []
  | dt => match simple_size psz dt with
          | Some sz => [mkfield (d_id d) (take sz (vbytes (m (d_member d, O))))]
          | None => []
          end
  end.

(* the while loop stops at the first REB_FIELD_END row *)
Fixpoint live (tbl : list desc) : list desc :=
  match tbl with
  | [] => []
  | d :: r => if dtype_eqb (d_dt d) DEnd then [] else d :: live r
  end.

Definition fp_field (fp_id : N) (b : bool) : field := mkfield fp_id (le_enc 4 (if b then 1 else 0)).

(* all fields written between the header and END *)
Definition view (fp_id : N) (tbl : list desc) (s : state) : list field :=
  flat_map (wdesc (mem s)) (live tbl) ++ [fp_field fp_id (fp_used s)].

(* ---------- reader: effect of one field *)
Definition find_desc (tbl : list desc) (ty : N) : option desc := find (fun d => d_id d =? ty) (live tbl).

Fixpoint split_parts (ks : list key) (k : N) (pl : bytes) : list (key * mval) :=
  match ks with
  | [] => []
  | key :: r => (key, MP (Some (take k pl))) :: split_parts r k (drop k pl)
  end.

(* members written while reading field f (independent of the current state) *)
Definition writes (legacy_id : N) (tbl : list desc) (f : field) : list (key * mval) :=
  let pl := f_payload f in
  match find_desc tbl (f_type f) with
  | Some d =>
      match d_dt d with
      | DPointer | DPointerAligned | DDp7 =>
          split_parts (parts d) (len pl / nparts d) pl
          ++ [((d_count d, O), MB (le_enc 4 ((len pl mod 4294967296) / d_esize d)))]
      | DPointerFixed => [((d_member d, O), MP (if len pl =? 0 then None else Some pl))]   (* realloc(ptr, 0) frees and returns NULL (glibc; confirmed on the library) *)
      | DOther | DEnd =>
          if f_type f =? legacy_id
          then [(("max_radius0"%string, O), MB (take 8 pl)); (("max_radius1"%string, O), MB (take 8 (drop 8 pl)))]
          else []
      | _ => [((d_member d, O), MB pl)]
      end
  | None =>
      if f_type f =? legacy_id
      then [(("max_radius0"%string, O), MB (take 8 pl)); (("max_radius1"%string, O), MB (take 8 (drop 8 pl)))]
      else []                        (* functionpointers flag, header, unknown field: no member changes *)
  end.

Definition apply_writes (m : key -> mval) (w : list (key * mval)) : key -> mval :=
  fold_left (fun m kv => upd m (fst kv) (snd kv)) w m.

Definition rfields (legacy_id : N) (tbl : list desc) (m : key -> mval) (fs : list field) : key -> mval :=
  apply_writes m (flat_map (writes legacy_id tbl) fs).

End WithSizes.

(* ---------- post-load fix-ups at finish_fields: pointer members inside the particle and var_config records
   are overwritten (c, ap := NULL, sim := address of the new simulation).  Bytes at record offsets
   listed in [ptr] get new values; everything else is untouched. *)
Fixpoint mapi_from (i : N) (f : N -> N -> N) (l : bytes) : bytes :=
  match l with [] => [] | b :: r => f i b :: mapi_from (i + 1) f r end.

Definition in_ranges (rs : list (N * N)) (o : N) : bool := existsb (fun r => (fst r <=? o) && (o <? fst r + snd r)) rs.

(* overwrite the bytes of every record (size rsz) at the offsets in [rs] with g(index) *)
Definition rewrite_ptrs (rsz : N) (rs : list (N * N)) (g : N -> N) (l : bytes) : bytes :=
  mapi_from 0 (fun i b => if in_ranges rs (i mod rsz) then g i else b) l.

Definition mask_ptrs (rsz : N) (rs : list (N * N)) (l : bytes) : bytes := rewrite_ptrs rsz rs (fun _ => 0) l.

Definition ptr_ranges (ms : list member) : list (N * N) :=
  map (fun m => (m_off m, m_size m))
      (filter (fun m => match m_kind m with KPtr | KFunPtr => true | _ => false end) ms).

(* record-structured fields: (field id, record size, pointer ranges) *)
Definition recspec := (N * N * list (N * N))%type.

Definition mask_field (specs : list recspec) (f : field) : field :=
  match find (fun sp => fst (fst sp) =? f_type f) specs with
  | Some sp => mkfield (f_type f) (mask_ptrs (snd (fst sp)) (snd sp) (f_payload f))
  | None => f
  end.
Definition mask_fields (specs : list recspec) (fs : list field) : list field := map (mask_field specs) fs.

Definition fix_field (specs : list recspec) (g : N -> N) (f : field) : field :=
  match find (fun sp => fst (fst sp) =? f_type f) specs with
  | Some sp => mkfield (f_type f) (rewrite_ptrs (snd (fst sp)) (snd sp) g (f_payload f))
  | None => f
  end.

(* ---------- field equality (for executable checks) *)
Fixpoint bytes_eqb (a b : bytes) : bool :=
  match a, b with
  | [], [] => true
  | x :: a, y :: b => (x =? y) && bytes_eqb a b
  | _, _ => false
  end.
Definition field_eqb (a b : field) : bool := (f_type a =? f_type b) && bytes_eqb (f_payload a) (f_payload b).
Fixpoint fields_eqb (a b : list field) : bool :=
  match a, b with
  | [], [] => true
  | x :: a, y :: b => field_eqb x y && fields_eqb a b
  | _, _ => false
  end.
