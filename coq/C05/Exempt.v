(* C05 — HAND-AUDITED list of the members of struct reb_simulation / struct reb_integrator_* that are not
   written by reb_simulation_save_to_stream, each with the reason why a restored simulation does not need it.
   The theorem C05_persisted_complete (Props.v) fails as soon as the regenerated member list contains a member
   that is neither persisted by the regenerated descriptor table nor listed here: adding a setting to the
   struct without adding a descriptor is therefore noticed at the next run.
   Audit basis: reading of src/*.c at the pinned tree + behavioural test of every scalar member on the real
   library (tools/c05_gen.py mutation_oracle: set, save, load, continue 7 steps, compare). *)
From Coq Require Import List String.
Import ListNotations.
Local Open Scope string_scope.

Inductive exclass :=
| ExAlloc        (* allocation counter / capacity of a scratch buffer; reader or first use re-allocates *)
| ExScratch      (* buffer or value fully recomputed inside every step before it is read *)
| ExRebuilt      (* data structure rebuilt by the reader (finish_fields) or lazily on first use *)
| ExHandle       (* process-local resource: message buffer, display/server handle, file name *)
| ExWalltime     (* wall-clock bookkeeping, excluded by the property *)
| ExCallback     (* function pointer / REBOUNDx link: property assumes the user re-attaches callbacks *)
| ExWarnOnce     (* "warning already shown" flag; no influence on the trajectory *)
| ExOde.         (* user-defined ODE sets (callback based, not persistable); BS scratch *)

Definition exempt : list (string * exclass) := [
  ("var_rescale_warning", ExWarnOnce);
  ("particle_lookup_table", ExRebuilt);       (* hash lookup cache: N_lookup=0 after load, rebuilt on first lookup *)
  ("N_lookup", ExRebuilt);
  ("N_allocated_lookup", ExAlloc);
  ("N_allocated", ExAlloc);                   (* reader: r->N_allocated = r->N *)
  ("gravity_cs", ExScratch);                  (* compensated summation: zeroed at the start of every force evaluation *)
  ("N_allocated_gravity_cs", ExAlloc);
  ("tree_root", ExRebuilt);                   (* reader deletes and rebuilds the tree *)
  ("tree_needs_update", ExRebuilt);
  ("messages", ExHandle);
  ("display_data", ExHandle);
  ("server_data", ExHandle);
  ("walltime_last_step", ExWalltime);
  ("walltime_last_steps_sum", ExWalltime);
  ("walltime_last_steps_N", ExWalltime);
  ("collisions", ExScratch);
  ("N_allocated_collisions", ExAlloc);       (* capacity of the collision list; TRACE read it as a flag until /repo commit 621058f *)                  (* collision list of the current step *)
  ("simulationarchive_filename", ExHandle);   (* documented: call save_to_file again to keep appending *)
  ("ri_whfast.p_temp", ExScratch);
  ("ri_whfast.N_allocated_tmp", ExAlloc);
  ("ri_whfast.recalculate_coordinates_but_not_synchronized_warning", ExWarnOnce);
  ("ri_whfast512.recalculate_constants", ExRebuilt);   (* reader sets it to 1 *)
  ("ri_ias15.map", ExRebuilt);                (* identity / encounter map, rebuilt when N_allocated_map < N *)
  ("ri_ias15.N_allocated_map", ExAlloc);
  ("ri_mercurius.L", ExCallback);
  ("ri_mercurius.mode", ExScratch);
  ("ri_mercurius.encounter_N", ExScratch);
  ("ri_mercurius.encounter_N_active", ExScratch);
  ("ri_mercurius.tponly_encounter", ExScratch);
  ("ri_mercurius.N_allocated", ExAlloc);
  ("ri_mercurius.N_allocated_additional_forces", ExAlloc);
  ("ri_mercurius.particles_backup", ExScratch);
  ("ri_mercurius.particles_backup_additional_forces", ExScratch);
  ("ri_mercurius.encounter_map", ExScratch);
  ("ri_trace.S", ExCallback);
  ("ri_trace.S_peri", ExCallback);
  ("ri_trace.mode", ExScratch);
  ("ri_trace.encounter_N", ExScratch);
  ("ri_trace.encounter_N_active", ExScratch);
  ("ri_trace.N_allocated", ExAlloc);
  ("ri_trace.N_allocated_additional_forces", ExAlloc);
  ("ri_trace.tponly_encounter", ExScratch);
  ("ri_trace.particles_backup", ExScratch);
  ("ri_trace.particles_backup_kepler", ExScratch);
  ("ri_trace.particles_backup_additional_forces", ExScratch);
  ("ri_trace.encounter_map", ExScratch);
  ("ri_trace.com_pos", ExScratch);            (* recomputed from the particles at the start of every TRACE step *)
  ("ri_trace.com_vel", ExScratch);
  ("ri_trace.current_Ks", ExScratch);
  ("ri_trace.current_C", ExScratch);
  ("ri_trace.force_accept", ExScratch);
  ("ri_bs.nbody_ode", ExOde);
  ("ri_bs.sequence", ExOde);
  ("ri_bs.cost_per_step", ExOde);
  ("ri_bs.cost_per_time_unit", ExOde);
  ("ri_bs.optimal_step", ExOde);
  ("ri_bs.coeff", ExOde);
  ("ri_bs.dt_proposed", ExOde);               (* BS as main integrator: copied into r->dt (persisted) after every step, never read before rewritten (probe: no effect); only read as sub-step size for user ODEs, which are not persistable *)
  ("ri_bs.user_ode_needs_nbody", ExOde);
  ("odes", ExOde);
  ("N_odes", ExOde);
  ("N_allocated_odes", ExAlloc);
  ("ode_warnings", ExWarnOnce);
  ("additional_forces", ExCallback);
  ("pre_timestep_modifications", ExCallback);
  ("post_timestep_modifications", ExCallback);
  ("heartbeat", ExCallback);
  ("key_callback", ExCallback);
  ("coefficient_of_restitution", ExCallback);
  ("collision_resolve", ExCallback);
  ("free_particle_ap", ExCallback);
  ("extras_cleanup", ExCallback);
  ("extras", ExCallback)
].

(* Members that ARE cross-step state read by the integrators, are NOT persisted and are NOT legitimately exempt: each one
   must be a recorded open finding (known_findings.json).  Currently none.  History:
   ri_mercurius.recalculate_r_crit_this_timestep until /repo commit 9e6f362 (now descriptor 171);
   N_allocated_collisions (read by TRACE as a "collision happened" flag) until /repo commit 621058f. *)
Definition known_gaps : list string := [].
