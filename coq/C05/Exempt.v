(* C05 — HAND-AUDITED list of the members of struct reb_simulation / struct reb_integrator_* that are not
   written by reb_simulation_save_to_stream, each with the reason why a restored simulation does not need it.
   The theorem C05_persisted_complete (Props.v) fails as soon as the regenerated member list contains a member
   that is neither persisted by the regenerated descriptor table nor listed here: adding a setting to the
   struct without adding a descriptor is therefore noticed at the next run.
   Audit basis: reading of src/*.c at the pinned tree + behavioural test of every scalar member on the real
   library (tools/c05_gen.py mutation_oracle: set, save, load, continue 7 steps, compare). *)
From Coq Require Import List String.
Import ListNotations.
Local Open Scope string_scope.

Inductive exclass :=
| ExAlloc        (* allocation counter / capacity of a scratch buffer; reader or first use re-allocates *)
| ExScratch      (* buffer or value fully recomputed inside every step before it is read *)
| ExRebuilt      (* data structure rebuilt by the reader (finish_fields) or lazily on first use *)
| ExHandle       (* process-local resource: message buffer, display/server handle, file name *)
| ExWalltime     (* wall-clock bookkeeping, excluded by the property *)
| ExCallback     (* function pointer / REBOUNDx link: property assumes the user re-attaches callbacks *)
| ExWarnOnce     (* "warning already shown" flag; no influence on the trajectory *)
| ExOde.         (* user-defined ODE sets (callback based, not persistable); BS scratch *)

Definition exempt : list (string * exclass) := [
  ("var_rescale_warning", ExWarnOnce);
  ("particle_lookup_table", ExRebuilt);       (* hash lookup cache: N_lookup=0 after load, rebuilt on first lookup *)
  ("N_lookup", ExRebuilt);
  ("N_allocated_lookup", ExAlloc);
  ("N_allocated", ExAlloc);                   (* reader: r->N_allocated = r->N *)
  ("gravity_cs", ExScratch);                  (* compensated summation: zeroed at the start of every force evaluation *)
  ("N_allocated_gravity_cs", ExAlloc);
  ("tree_root", ExRebuilt);                   (* reader deletes and rebuilds the tree *)
  ("tree_needs_update", ExRebuilt);
  ("messages", ExHandle);
  ("display_data", ExHandle);
  ("server_data", ExHandle);
  ("walltime_last_step", ExWalltime);
  ("walltime_last_steps_sum", ExWalltime);
  ("walltime_last_steps_N", ExWalltime);
  ("collisions", ExScratch);
  ("N_allocated_collisions", ExAlloc);       (* capacity of the collision list; TRACE read it as a flag until /repo commit 621058f *)                  (* collision list of the current step *)
  ("simulationarchive_filename", ExHandle);   (* documented: call save_to_file again to keep appending *)
  ("ri_whfast.p_temp", ExScratch);
  ("ri_whfast.N_allocated_tmp", ExAlloc);
  ("ri_whfast.recalculate_coordinates_but_not_synchronized_warning", ExWarnOnce);
  ("ri_whfast512.recalculate_constants", ExRebuilt);   (* reader sets it to 1 *)
  ("ri_ias15.map", ExRebuilt);                (* identity / encounter map, rebuilt when N_allocated_map < N *)
  ("ri_ias15.N_allocated_map", ExAlloc);
  ("ri_mercurius.L", ExCallback);
  ("ri_mercurius.mode", ExScratch);
  ("ri_mercurius.encounter_N", ExScratch);
  ("ri_mercurius.encounter_N_active", ExScratch);
  ("ri_mercurius.tponly_encounter", ExScratch);
  ("ri_mercurius.N_allocated", ExAlloc);
  ("ri_mercurius.N_allocated_additional_forces", ExAlloc);
  ("ri_mercurius.particles_backup", ExScratch);
  ("ri_mercurius.particles_backup_additional_forces", ExScratch);
  ("ri_mercurius.encounter_map", ExScratch);
  ("ri_trace.S", ExCallback);
  ("ri_trace.S_peri", ExCallback);
  ("ri_trace.mode", ExScratch);
  ("ri_trace.encounter_N", ExScratch);
  ("ri_trace.encounter_N_active", ExScratch);
  ("ri_trace.N_allocated", ExAlloc);
  ("ri_trace.N_allocated_additional_forces", ExAlloc);
  ("ri_trace.tponly_encounter", ExScratch);
  ("ri_trace.particles_backup", ExScratch);
  ("ri_trace.particles_backup_kepler", ExScratch);
  ("ri_trace.particles_backup_additional_forces", ExScratch);
  ("ri_trace.encounter_map", ExScratch);
  ("ri_trace.com_pos", ExScratch);            (* recomputed from the particles at the start of every TRACE step *)
  ("ri_trace.com_vel", ExScratch);
  ("ri_trace.current_Ks", ExScratch);
  ("ri_trace.current_C", ExScratch);
  ("ri_trace.force_accept", ExScratch);
  ("ri_bs.nbody_ode", ExOde);
  ("ri_bs.sequence", ExOde);
  ("ri_bs.cost_per_step", ExOde);
  ("ri_bs.cost_per_time_unit", ExOde);
  ("ri_bs.optimal_step", ExOde);
  ("ri_bs.coeff", ExOde);
  ("ri_bs.dt_proposed", ExOde);               (* BS as main integrator: copied into r->dt (persisted) after every step, never read before rewritten (probe: no effect); only read as sub-step size for user ODEs, which are not persistable *)
  ("ri_bs.user_ode_needs_nbody", ExOde);
  ("odes", ExOde);
  ("N_odes", ExOde);
  ("N_allocated_odes", ExAlloc);
  ("ode_warnings", ExWarnOnce);
  ("additional_forces", ExCallback);
  ("pre_timestep_modifications", ExCallback);
  ("post_timestep_modifications", ExCallback);
  ("heartbeat", ExCallback);
  ("key_callback", ExCallback);
  ("coefficient_of_restitution", ExCallback);
  ("collision_resolve", ExCallback);
  ("free_particle_ap", ExCallback);
  ("extras_cleanup", ExCallback);
  ("extras", ExCallback)
].

(* Members that ARE cross-step state read by the integrators, are NOT persisted and are NOT legitimately exempt: each one
   must be a recorded open finding (known_findings.json).  Currently none.  History:
   ri_mercurius.recalculate_r_crit_this_timestep until /repo commit 9e6f362 (now descriptor 171);
   N_allocated_collisions (read by TRACE as a "collision happened" flag) until /repo commit 621058f. *)
Definition known_gaps : list string := [].

(* AUDITED READERS.  For every exempt member: the source files that are allowed to READ it (anything but a plain
   assignment).  Baseline = the readers found in the tree at /repo commit 5e0a0a8 (two pairs added at 2dcce48, reasons inline), each reviewed against the reason class
   above (e.g. ri_trace.mode / ri_mercurius.mode are NONE/0 between steps and in a fresh simulation, so particle.c
   reading them in a user-called remove() sees the same value in the original and in a restored simulation; ri_trace.com_vel
   is read by collision.c only inside a TRACE step; gravity_cs by IAS15 only after the force evaluation of the same step).
   The theorem C05_exempt_readers_audited fails when a file outside this list starts reading an exempt member - the way
   "N_allocated_collisions read by integrator_trace.c as a flag" (fixed in 621058f) came into being - and the entry then
   has to be re-audited (or the member persisted). *)
Definition exempt_readers : list (string * list string) := [
  ("var_rescale_warning", ["tools.c"]);
  ("particle_lookup_table", ["particle.c"; "rebound.c"]);
  ("N_lookup", ["particle.c"]);
  ("N_allocated_lookup", ["particle.c"]);
  ("N_allocated", ["input.c"; "particle.c"]);
  ("gravity_cs", ["gravity.c"; "integrator_ias15.c"; "rebound.c"]);
  ("N_allocated_gravity_cs", ["gravity.c"]);
  ("tree_root", ["boundary.c"; "collision.c"; "gravity.c"; "particle.c"; "rebound.c"; "tree.c"]);
  ("tree_needs_update", ["rebound.c"]);
  ("messages", ["rebound.c"]);
  ("display_data", []);
  ("server_data", ["output.c"; "rebound.c"; "server.c"]);
  ("walltime_last_step", ["rebound.c"]);
  ("walltime_last_steps_sum", ["rebound.c"]);
  ("walltime_last_steps_N", ["rebound.c"]);
  ("collisions", ["collision.c"; "rebound.c"]);
  ("N_allocated_collisions", ["collision.c"]);
  ("simulationarchive_filename", ["rebound.c"; "simulationarchive.c"]);
  ("ri_whfast.p_temp", ["integrator_saba.c"; "integrator_whfast.c"]);
  ("ri_whfast.N_allocated_tmp", ["integrator_saba.c"; "integrator_whfast.c"]);
  ("ri_whfast.recalculate_coordinates_but_not_synchronized_warning", ["integrator_saba.c"; "integrator_whfast.c"])   (* integrator_saba.c (014ae4c): same warn-once test as in WHFast, decides only whether a warning is emitted *);
  ("ri_whfast512.recalculate_constants", []);
  ("ri_ias15.map", ["integrator_ias15.c"]);
  ("ri_ias15.N_allocated_map", ["integrator_ias15.c"]);
  ("ri_mercurius.L", ["gravity.c"; "integrator_mercurius.c"]);
  ("ri_mercurius.mode", ["collision.c"; "gravity.c"; "integrator.c"; "particle.c"]);
  ("ri_mercurius.encounter_N", ["collision.c"; "gravity.c"; "integrator_ias15.c"; "integrator_mercurius.c"; "particle.c"]);
  ("ri_mercurius.encounter_N_active", ["gravity.c"; "integrator_mercurius.c"; "particle.c"]);
  ("ri_mercurius.tponly_encounter", ["integrator_mercurius.c"]);
  ("ri_mercurius.N_allocated", ["integrator_mercurius.c"; "particle.c"]);
  ("ri_mercurius.N_allocated_additional_forces", ["integrator.c"]);
  ("ri_mercurius.particles_backup", ["integrator_mercurius.c"; "particle.c"]);
  ("ri_mercurius.particles_backup_additional_forces", ["integrator.c"; "integrator_mercurius.c"]);
  ("ri_mercurius.encounter_map", ["collision.c"; "gravity.c"; "integrator_ias15.c"; "integrator_mercurius.c"; "particle.c"]);
  ("ri_trace.S", ["integrator_trace.c"; "output.c"]);
  ("ri_trace.S_peri", ["integrator_trace.c"; "output.c"]);
  ("ri_trace.mode", ["collision.c"; "gravity.c"; "integrator.c"; "integrator_ias15.c"; "particle.c"]);
  ("ri_trace.encounter_N", ["collision.c"; "gravity.c"; "integrator_ias15.c"; "integrator_trace.c"; "particle.c"]);
  ("ri_trace.encounter_N_active", ["gravity.c"; "integrator_trace.c"; "particle.c"]);
  ("ri_trace.N_allocated", ["integrator_trace.c"; "particle.c"]);
  ("ri_trace.N_allocated_additional_forces", ["integrator.c"]);
  ("ri_trace.tponly_encounter", ["integrator_trace.c"]);
  ("ri_trace.particles_backup", ["integrator_trace.c"; "particle.c"]);
  ("ri_trace.particles_backup_kepler", ["integrator_trace.c"; "particle.c"]);
  ("ri_trace.particles_backup_additional_forces", ["integrator.c"; "integrator_trace.c"]);
  ("ri_trace.encounter_map", ["collision.c"; "gravity.c"; "integrator_ias15.c"; "integrator_trace.c"; "particle.c"]);
  ("ri_trace.com_pos", ["integrator_trace.c"]);
  ("ri_trace.com_vel", ["collision.c"; "integrator_trace.c"]);
  ("ri_trace.current_Ks", ["gravity.c"; "integrator_trace.c"; "particle.c"]);
  ("ri_trace.current_C", ["integrator_trace.c"]);
  ("ri_trace.force_accept", ["integrator_trace.c"]);
  ("ri_bs.nbody_ode", ["integrator.c"; "integrator_bs.c"; "rebound.c"])   (* rebound.c (27d0f02): reb_check_exit subtracts the BS N-body ode from N_odes to count USER odes when N = 0; original (N_odes 1, ode present) and restored (N_odes 0, NULL) both get 0 *)   (* integrator.c (6a5def5/01f8c0c): part1 frees a stale BS N-body ode when integrator != BS; a restored simulation has NULL and skips it, afterwards both have NULL; odes are not persisted (ExOde), no persisted quantity depends on it *);
  ("ri_bs.sequence", ["integrator_bs.c"]);
  ("ri_bs.cost_per_step", ["integrator_bs.c"]);
  ("ri_bs.cost_per_time_unit", ["integrator_bs.c"]);
  ("ri_bs.optimal_step", ["integrator_bs.c"]);
  ("ri_bs.coeff", ["integrator_bs.c"]);
  ("ri_bs.dt_proposed", ["integrator.c"; "integrator_bs.c"; "integrator_trace.c"]);
  ("ri_bs.user_ode_needs_nbody", ["integrator_bs.c"]);
  ("odes", ["integrator_bs.c"; "integrator_trace.c"; "rebound.c"]);
  ("N_odes", ["integrator.c"; "integrator_bs.c"; "integrator_trace.c"; "rebound.c"]);
  ("N_allocated_odes", ["integrator_bs.c"; "integrator_trace.c"]);
  ("ode_warnings", ["integrator.c"]);
  ("additional_forces", ["integrator.c"; "integrator_ias15.c"; "output.c"; "rebound.c"]);
  ("pre_timestep_modifications", ["rebound.c"]);
  ("post_timestep_modifications", ["integrator_mercurius.c"; "output.c"; "rebound.c"]);
  ("heartbeat", ["output.c"; "rebound.c"]);
  ("key_callback", ["server.c"]);
  ("coefficient_of_restitution", ["collision.c"; "output.c"; "rebound.c"]);
  ("collision_resolve", ["collision.c"; "output.c"; "rebound.c"]);
  ("free_particle_ap", ["output.c"; "particle.c"; "rebound.c"]);
  ("extras_cleanup", ["rebound.c"]);
  ("extras", [])
].
