(* C05 — state level: reading the field that the writer produced for a descriptor, into ANY memory,
   and writing that descriptor again reproduces the same field (all dtype classes: simple, pointer with
   count member, REB_DP7 seven-way split, fixed-size pointer). *)
From Coq Require Import NArith List String Bool Arith Lia ZifyBool.
From RV Require Import C05.Types C05.Model C05.Codec.
Import ListNotations.
Open Scope N_scope.

Lemma key_eqb_eq : forall a b : key, key_eqb a b = true <-> a = b.
Proof.
  intros [a1 a2] [b1 b2]. unfold key_eqb. cbn [fst snd]. rewrite andb_true_iff, String.eqb_eq, Nat.eqb_eq.
  split; [intros [-> ->]; reflexivity | intros H; inversion H; auto].
Qed.
Lemma key_eqb_refl : forall a, key_eqb a a = true.
Proof. intros; apply key_eqb_eq; reflexivity. Qed.
Lemma key_eqb_neq : forall a b : key, a <> b -> key_eqb a b = false.
Proof. intros a b H. destruct (key_eqb a b) eqn:E; auto. apply key_eqb_eq in E. contradiction. Qed.

Lemma apply_writes_app : forall m a b, apply_writes m (a ++ b) = apply_writes (apply_writes m a) b.
Proof. intros. unfold apply_writes. apply fold_left_app. Qed.

Lemma apply_writes_notin : forall w m k, ~ In k (map fst w) -> apply_writes m w k = m k.
Proof.
  induction w as [|[k' v] w IH]; intros m k H; cbn [apply_writes fold_left]; auto.
  change (apply_writes (upd m k' v) w k = m k).
  rewrite IH. 2:{ intro; apply H; right; auto. }
  unfold upd. rewrite key_eqb_neq; auto. intro; subst. apply H. left; reflexivity.
Qed.

Lemma apply_writes_map : forall (g : key -> mval) ks m k, NoDup ks -> In k ks ->
  apply_writes m (map (fun k => (k, g k)) ks) k = g k.
Proof.
  induction ks as [|k0 ks IH]; intros m k ND Hin; [inversion Hin|].
  inversion ND; subst. cbn [map apply_writes fold_left].
  change (apply_writes (upd m k0 (g k0)) (map (fun k => (k, g k)) ks) k = g k).
  destruct Hin as [->|Hin].
  - rewrite apply_writes_notin. { unfold upd. rewrite key_eqb_refl. reflexivity. }
    rewrite map_map. cbn [fst]. rewrite map_id. auto.
  - apply IH; auto.
Qed.

Lemma take_take : forall n l, take n (take n l) = take n l.
Proof. intros. unfold take. rewrite firstn_firstn. f_equal. lia. Qed.

Lemma len_take : forall n l, n <= len l -> len (take n l) = n.
Proof. intros n l H. unfold len, take in *. rewrite firstn_length. lia. Qed.

Lemma len_app : forall a b, len (a ++ b) = len a + len b.
Proof. intros. unfold len. rewrite app_length. lia. Qed.

(* seven-way (n-way) split of the concatenation of n chunks of q bytes gives the chunks back *)
Lemma split_parts_concat : forall (g : key -> bytes) q ks,
  (forall k, In k ks -> q <= len (g k)) ->
  split_parts ks q (flat_map (fun k => take q (g k)) ks) = map (fun k => (k, MP (Some (take q (g k))))) ks.
Proof.
  induction ks as [|k ks IH]; intros H; cbn [split_parts flat_map map]; auto.
  assert (L : len (take q (g k)) = q) by (apply len_take, H; left; auto).
  assert (Ln : List.length (take q (g k)) = N.to_nat q) by (unfold len in L; lia).
  unfold take at 1, drop. rewrite firstn_app_exact by auto. rewrite skipn_app_exact by auto.
  rewrite IH by (intros; apply H; right; auto). reflexivity.
Qed.

Lemma len_concat_parts : forall (g : key -> bytes) q ks,
  (forall k, In k ks -> q <= len (g k)) ->
  len (flat_map (fun k => take q (g k)) ks) = len (map (fun _ => 0) ks) * q.
Proof.
  induction ks as [|k ks IH]; intros H; cbn [flat_map map]; auto.
  rewrite len_app, IH by (intros; apply H; right; auto).
  rewrite len_take by (apply H; left; auto).
  unfold len. cbn [List.length]. lia.
Qed.

Lemma flat_map_ext_in' : forall {A B} (f g : A -> list B) l,
  (forall a, In a l -> f a = g a) -> flat_map f l = flat_map g l.
Proof.
  induction l; intros H; cbn [flat_map]; auto.
  rewrite H by (left; auto). rewrite IHl; auto. intros; apply H; right; auto.
Qed.

Lemma parts_nodup : forall d, NoDup (parts d).
Proof.
  intros d. unfold parts. destruct (d_dt d); cbn [map]; repeat constructor; cbn [In]; intuition congruence.
Qed.

Lemma find_desc_some_id : forall tbl ty d, find_desc tbl ty = Some d -> d_id d = ty.
Proof. intros tbl ty d H. apply find_some in H. destruct H as [_ H]. apply N.eqb_eq in H. auto. Qed.

Section RT.
Variable psz legacy : N.
Variable tbl : list desc.

(* what the writer needs from the memory for descriptor d (otherwise C reads out of bounds / overflows) *)
Definition desc_wf (m : key -> mval) (d : desc) : Prop :=
  match d_dt d with
  | DPointer | DPointerAligned | DDp7 =>
      0 < d_esize d /\ d_esize d mod nparts d = 0 /\
      count_of m d * d_esize d < 4294967296 /\
      ~ In (d_count d, O) (parts d) /\
      (forall k, In k (parts d) -> count_of m d * d_esize d / nparts d <= len (vbytes (m k)))
  | DPointerFixed => 0 < d_esize d /\ forall b, m (d_member d, O) = MP (Some b) -> d_esize d <= len b
  | DOther | DEnd => True
  | dt => forall sz, simple_size psz dt = Some sz -> sz <= len (vbytes (m (d_member d, O)))
  end.

Lemma nparts_pos_array : forall d, match d_dt d with DPointer | DPointerAligned | DDp7 => 0 < nparts d | _ => True end.
Proof. intros d. unfold nparts, parts. destruct (d_dt d); auto; cbn; lia. Qed.

Theorem field_roundtrip : forall d m m' f,
  find_desc tbl (d_id d) = Some d ->
  desc_wf m d ->
  wdesc psz m d = [f] ->
  wdesc psz (apply_writes m' (writes legacy tbl f)) d = [f].
Proof.
  intros d m m' f Hfind Hwf Hw.
  assert (Hty : f_type f = d_id d).
  { unfold wdesc in Hw. destruct (d_dt d); cbn [simple_size] in Hw;
      repeat match type of Hw with
             | context [if ?c then _ else _] => destruct c
             | context [match ?c with _ => _ end] => destruct c
             end; inversion Hw; reflexivity. }
  unfold writes. rewrite Hty, Hfind.
  unfold wdesc in *. unfold desc_wf in Hwf.
  pose proof (nparts_pos_array d) as Hnp.
  pose proof (parts_nodup d) as Hnd.
  destruct (d_dt d) eqn:Edt; cbn [simple_size] in *;
    try discriminate Hw;
    (* simple types *)
    try (inversion Hw; subst f; cbn [f_payload f_type]; cbn [apply_writes fold_left fst snd];
         unfold upd; rewrite key_eqb_refl; cbn [vbytes]; rewrite take_take; reflexivity).
  (* DPointer, DPointerAligned, DDp7 share one proof; DPointerFixed last *)
  1,2,4: (
    destruct Hwf as (Hes & Hmod & Hlt & Hcnt & Hlen);
    set (sz := count_of m d * d_esize d) in *;
    destruct (sz =? 0) eqn:Esz; [discriminate Hw|];
    inversion Hw; subst f; cbn [f_payload f_type]; clear Hw;
    set (q := sz / nparts d) in *;
    set (g := fun k => vbytes (m k));
    change (flat_map (fun k => take q (vbytes (m k))) (parts d)) with (flat_map (fun k => take q (g k)) (parts d));
    assert (Hq : nparts d * q = sz)
      by (unfold q; pose proof (N.div_mod sz (nparts d));
          assert (sz mod nparts d = 0)
            by (unfold sz; rewrite N.mul_mod by lia; rewrite Hmod, N.mul_0_r; apply N.mod_0_l; lia); lia);
    assert (Hl : len (flat_map (fun k => take q (g k)) (parts d)) = sz)
      by (rewrite len_concat_parts by exact Hlen; fold (nparts d); lia);
    rewrite Hl;
    assert (Hdq : sz / nparts d = q) by reflexivity;
    rewrite Hdq;
    rewrite split_parts_concat by exact Hlen;
    rewrite apply_writes_app;
    assert (Hc : (sz mod 4294967296) / d_esize d = count_of m d)
      by (rewrite N.mod_small by lia; unfold sz; apply N.div_mul; lia);
    rewrite Hc;
    set (m1 := apply_writes m' (map (fun k => (k, MP (Some (take q (g k))))) (parts d)));
    cbn [apply_writes fold_left fst snd];
    assert (Hcount : count_of (upd m1 (d_count d, 0%nat) (MB (le_enc 4 (count_of m d)))) d = count_of m d)
      by (unfold count_of at 1; unfold upd; rewrite key_eqb_refl; cbn [vbytes]; apply le_dec_enc;
          change (256 ^ N.of_nat 4) with 4294967296;
          assert (count_of m d * 1 <= count_of m d * d_esize d) by (apply N.mul_le_mono_l; lia); lia);
    rewrite Hcount; fold sz; rewrite Esz; fold q;
    f_equal; f_equal;
    apply flat_map_ext_in'; intros k Hk;
    (assert (Hne : key_eqb k (d_count d, 0%nat) = false)
       by (apply key_eqb_neq; intro; subst k; contradiction));
    unfold upd; rewrite Hne; unfold m1;
    rewrite (apply_writes_map (fun k => MP (Some (take q (g k)))) (parts d) m' k Hnd Hk);
    cbn [vbytes]; apply take_take).
  destruct (m (d_member d, 0%nat)) as [|[b|]] eqn:Em; try discriminate Hw.
  destruct Hwf as [Hes Hwf]. specialize (Hwf b eq_refl).
  inversion Hw; subst f; cbn [f_payload f_type apply_writes fold_left fst snd].
  rewrite len_take by auto.
  destruct (d_esize d =? 0) eqn:E0; [apply N.eqb_eq in E0; lia|].
  unfold upd. rewrite key_eqb_refl. rewrite take_take. reflexivity.
Qed.

(* fields for which the table has no member-writing row (the functionpointers flag, the header pseudo-field,
   unknown ids) change no member *)
Lemma writes_unknown : forall f, find_desc tbl (f_type f) = None -> f_type f <> legacy -> writes legacy tbl f = [].
Proof.
  intros f H Hn. unfold writes. rewrite H. destruct (f_type f =? legacy) eqn:E; auto. apply N.eqb_eq in E. contradiction.
Qed.
Lemma writes_other : forall f d, find_desc tbl (f_type f) = Some d -> d_dt d = DOther -> f_type f <> legacy ->
  writes legacy tbl f = [].
Proof.
  intros f d H Hd Hn. unfold writes. rewrite H, Hd. destruct (f_type f =? legacy) eqn:E; auto. apply N.eqb_eq in E. contradiction.
Qed.
End RT.

(* ---------- pointer members inside particle / var_config records: the reader's fix-up (c, ap := NULL,
   sim := new address) only touches bytes that the mask zeroes, whatever values it writes *)
Lemma mapi_from_comp : forall (f g : N -> N -> N) l i,
  mapi_from i f (mapi_from i g l) = mapi_from i (fun j b => f j (g j b)) l.
Proof. induction l; intros; cbn [mapi_from]; auto. rewrite IHl. reflexivity. Qed.

Lemma mapi_from_ext : forall (f g : N -> N -> N) l i, (forall j b, f j b = g j b) -> mapi_from i f l = mapi_from i g l.
Proof. induction l; intros; cbn [mapi_from]; auto. rewrite H, (IHl _ H). reflexivity. Qed.

Theorem mask_rewrite : forall rsz rs g l, mask_ptrs rsz rs (rewrite_ptrs rsz rs g l) = mask_ptrs rsz rs l.
Proof.
  intros. unfold mask_ptrs, rewrite_ptrs. rewrite mapi_from_comp. apply mapi_from_ext.
  intros j b. destruct (in_ranges rs (j mod rsz)); reflexivity.
Qed.

Theorem mask_fix_field : forall specs g f, mask_field specs (fix_field specs g f) = mask_field specs f.
Proof.
  intros. unfold mask_field, fix_field.
  destruct (find (fun sp => fst (fst sp) =? f_type f) specs) as [sp|] eqn:E.
  - cbn [f_type f_payload]. rewrite E. rewrite mask_rewrite. reflexivity.
  - rewrite E. reflexivity.
Qed.

(* bytes outside the pointer members are untouched by the mask *)
Lemma mapi_from_length : forall f l i, List.length (mapi_from i f l) = List.length l.
Proof. induction l; intros; cbn [mapi_from List.length]; auto. Qed.
