#!/bin/sh
# Offline setup after a fresh restore: generate the Coq makefile, regenerate translated files,
# compile every .vo (full build, no -vos), pre-build librebound from /repo's working tree.
set -e
cd "$(dirname "$0")"
mkdir -p build evidence
/venv/bin/python tools/regen_all.py
cd coq
coq_makefile -f _CoqProject -o Makefile >/dev/null
timeout 3000 make -k -j16 2>&1 | grep -v '^\(Axioms:\|  \|Classical\|Functional\|COQDEP\|Closed\)' | tail -50
cd ..
/venv/bin/python -c "import sys; sys.path.insert(0,'tools'); import vlib; print(vlib.build_lib())"
